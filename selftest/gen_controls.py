#!/usr/bin/env python3
# Generates controls.json: source edits applied in memory (never written to
# /repo) that the checkers must report ("fire") or must not report ("silent").
import json
M=[]
def m(id, props, file, old, new, expect="fire", occ=1, note="", edits=None):
    d={"id":id,"properties":props,"file":file,"old":old,"new":new,"expect":expect}
    if occ!=1: d["occurrence"]=occ
    if note: d["note"]=note
    if edits: d["edits"]=edits
    M.append(d)

# ---- C01
m("c01-ld-c-d-wrong-source",["C01"],"operation.go","\tcase 0x4a:\n\t\tcpu.BC.Lo = cpu.DE.Hi","\tcase 0x4a:\n\t\tcpu.BC.Lo = cpu.DE.Lo",note="LD C,D copies E")
m("c01-ex-de-hl-is-exx",["C01"],"operation.go","oopEXDEHL(cpu)","oopEXX(cpu)")
m("c01-call-drops-sp-dec",["C01","C04","C05"],"op_callret.go","\tcpu.SP--\n\tcpu.Memory.Set(cpu.SP, uint8(cpu.PC))","\tcpu.Memory.Set(cpu.SP, uint8(cpu.PC))")
m("c01-ld-hl-n-fetchm1",["C01","C14"],"op_load8.go","func oopLDHLPn(cpu *CPU) {\n\tn := cpu.fetch()","func oopLDHLPn(cpu *CPU) {\n\tn := cpu.fetchM1()",note="operand fetched as an opcode fetch: R advances")
m("c01-exx-without-hl",["C01"],"op_exbtsg.go","\tcpu.HL, cpu.Alternate.HL = cpu.Alternate.HL, cpu.HL\n","")
m("c01-ld-hl-nn-same-byte",["C01","C05"],"op_load16.go","cpu.HL.Hi = cpu.Memory.Get(nn + 1)","cpu.HL.Hi = cpu.Memory.Get(nn)")
m("c01-ei-only-iff1",["C01","C06"],"op_ctrl.go","\tcpu.IFF1 = true\n\tcpu.IFF2 = true","\tcpu.IFF1 = true")
m("c01-rst18-target",["C01","C04"],"op_callret.go","cpu.PC = 0x0018","cpu.PC = 0x0010")
m("c01-out-c-d-sends-e",["C01","C05"],"op_inout.go","cpu.ioOut(cpu.BC.Lo, cpu.DE.Hi)","cpu.ioOut(cpu.BC.Lo, cpu.DE.Lo)",note="an arm the test-suite never executes")
m("c01-neg-rename-refactor",["C01","C02"],"op_ctrl.go","\tr := ^a + 1\n","\tr := 0 - a\n",expect="silent",note="behaviour-preserving reformulation of NEG")
m("c01-addrOff-refactor",["C01","C04","C05"],"cpu.go","return addr + uint16(int16(int8(off)))","if off < 0x80 {\n\t\treturn addr + uint16(off)\n\t}\n\treturn addr + uint16(off) - 0x100",expect="silent",note="equivalent displacement arithmetic")
m("c01-inc-bc-16bit-refactor",["C01","C03"],"op_arith16.go","\tcpu.BC.Lo++\n\tif cpu.BC.Lo == 0 {\n\t\tcpu.BC.Hi++\n\t}","\tcpu.BC.SetU16(cpu.BC.U16() + 1)",expect="silent",note="split-byte INC BC replaced by a 16-bit add")
m("c14-step-halt-fastpath",["C14","C01","C05","C06"],"cpu.go","\t// execute an op-code.\n\tcpu.executeOne()","\tif cpu.HALT && cpu.Memory.Get(cpu.PC) == 0x76 {\n\t\treturn\n\t}\n\tcpu.executeOne()",note="a Step spent halted no longer runs the decoder: R stops counting, and Step reads memory itself")
m("c01-step-noop-while-halted",["C01","C14"],"cpu.go","\t// execute an op-code.\n\tcpu.executeOne()","\tif cpu.HALT {\n\t\treturn\n\t}\n\tcpu.executeOne()",note="Step is a no-op while the HALT indication is set, whatever PC points at")
# ---- C02
m("c02-dec-h-mask",["C02","C01"],"accum.go","if r&0x0f == 0x0f {\n\t\tor |= maskH\n\t}\n\tif a == 0x80","if r&0x0f == 0x0e {\n\t\tor |= maskH\n\t}\n\tif a == 0x80")
m("c02-and-drops-h",["C02"],"accum.go","\tif and {\n\t\tor |= maskH\n\t}\n","")
m("c02-logic-keeps-carry",["C02"],"accum.go","func (cpu *CPU) updateFlagLogic8(r uint8, and bool) {\n\tvar nand uint8 = maskS53 | maskZ | maskH | maskPV | maskN | maskC","func (cpu *CPU) updateFlagLogic8(r uint8, and bool) {\n\tvar nand uint8 = maskS53 | maskZ | maskH | maskPV | maskN")
m("c02-parity-polarity",["C02"],"accum.go","or |= (uint8(bits.OnesCount8(r)%2) - 1) & maskPV\n\tor |= carry & maskC","or |= (uint8(bits.OnesCount8(r)%2)) << 2 & maskPV\n\tor |= carry & maskC",note="parity flag inverted for CB rotates")
m("c02-cp-53-from-result",["C02"],"accum.go","or |= b & mask53","or |= uint8(r) & mask53")
m("c02-xor-ixl-reads-high",["C02","C11"],"op_arith8.go","func xopXORixl(cpu *CPU) {\n\ta := cpu.AF.Hi\n\tx := uint8(cpu.IX)","func xopXORixl(cpu *CPU) {\n\ta := cpu.AF.Hi\n\tx := uint8(cpu.IX >> 8)")
m("c02-bit-s-from-bit6",["C02"],"accum.go","} else if b == 7 {\n\t\tor |= maskS\n\t}\n\tor |= maskH\n\tor |= v & mask53","} else if b == 6 {\n\t\tor |= maskS\n\t}\n\tor |= maskH\n\tor |= v & mask53")
m("c02-daa-boundary",["C02"],"op_ctrl.go","\tif cpu.AF.Hi > 0x99 {\n\t\tor |= maskC","\tif cpu.AF.Hi >= 0x99 {\n\t\tor |= maskC")
m("c02-neg-h-from-a",["C02"],"op_ctrl.go","\tif r&0x0f != 0 {\n\t\tor |= maskH","\tif a&0x0f == 0x0f {\n\t\tor |= maskH")
m("c02-sra-loses-bit7",["C02"],"accum.go","r := a&0x80 | a>>1","r := a >> 1")
m("c02-rrd-nibbles",["C02"],"op_rotateshift.go","\ta2 := a&0xf0 | b&0x0f\n\tb2 := a<<4 | b>>4","\ta2 := a&0xf0 | b>>4\n\tb2 := a<<4 | b&0x0f")
m("c02-adc-a-only-when-c",["C02"],"accum.go","func (cpu *CPU) adcU8(a, b uint8) uint8 {\n\ta16, b16 := uint16(a), uint16(b)\n\tr := a16 + b16 + uint16(cpu.AF.Lo&maskC)\n\tcpu.updateFlagArith8(r, a16, b16, false)","func (cpu *CPU) adcU8(a, b uint8) uint8 {\n\ta16, b16 := uint16(a), uint16(b)\n\tr := a16 + b16 + uint16(cpu.AF.Lo&maskC)\n\tcpu.updateFlagArith8(r, a16, b16+uint16(cpu.AF.Lo&maskC), false)",note="H/V computed with carry folded into the operand: wrong only when b=0xFF/0x7F/0x0F with carry set")
m("c02-arith-overflow-nibble-refactor",["C02","C01"],"accum.go","or |= uint8((c>>6)^(c>>5)) & maskPV\n\tif subtract","or |= uint8(((c>>8)^(c>>7))<<2) & maskPV\n\tif subtract",expect="silent",note="same overflow bit extracted another way")
# ---- C03
m("c03-add16-h-shift",["C03","C01"],"accum.go","func (cpu *CPU) addU16(a, b uint16) uint16 {\n\ta32, b32 := uint32(a), uint32(b)\n\tr := a32 + b32\n\tc := r ^ a32 ^ b32\n\tvar nand uint8 = mask53 | maskH | maskN | maskC\n\tvar or uint8\n\tor |= uint8(r>>8) & mask53\n\tor |= uint8(c>>8) & maskH","func (cpu *CPU) addU16(a, b uint16) uint16 {\n\ta32, b32 := uint32(a), uint32(b)\n\tr := a32 + b32\n\tc := r ^ a32 ^ b32\n\tvar nand uint8 = mask53 | maskH | maskN | maskC\n\tvar or uint8\n\tor |= uint8(r>>8) & mask53\n\tor |= uint8(c>>7) & maskH")
m("c03-adc16-z-low-byte",["C03"],"accum.go","\tif uint16(r) == 0 {\n\t\tor |= maskZ\n\t}\n\tor |= uint8(c>>8) & maskH\n\tor |= uint8((c>>14)^(c>>13)) & maskPV\n\tor |= uint8(r>>16) & maskC","\tif uint8(r) == 0 {\n\t\tor |= maskZ\n\t}\n\tor |= uint8(c>>8) & maskH\n\tor |= uint8((c>>14)^(c>>13)) & maskPV\n\tor |= uint8(r>>16) & maskC")
m("c03-sbc16-drops-carry",["C03"],"accum.go","r := a32 - b32 - uint32(cpu.AF.Lo&maskC)","r := a32 - b32")
m("c03-add-ix-ix-adds-iy",["C03","C11"],"op_arith16.go","func xopADDIXix(cpu *CPU) {\n\ta := cpu.IX\n\tx := cpu.IX","func xopADDIXix(cpu *CPU) {\n\ta := cpu.IX\n\tx := cpu.IY")
m("c03-dec-de-borrow",["C03"],"op_arith16.go","\tcpu.DE.Lo--\n\tif cpu.DE.Lo == 0xff {","\tcpu.DE.Lo--\n\tif cpu.DE.Lo == 0 {")
m("c03-add16-clears-z",["C03"],"accum.go","var nand uint8 = mask53 | maskH | maskN | maskC\n\tvar or uint8\n\tor |= uint8(r>>8) & mask53","var nand uint8 = mask53 | maskH | maskN | maskC | maskZ\n\tvar or uint8\n\tor |= uint8(r>>8) & mask53")
# ---- C04
m("c04-call-m-uses-p",["C04"],"op_callret.go","func xopCALLfSnn(cpu *CPU) {\n\tnn := cpu.fetch16()\n\tif cpu.flagS() {","func xopCALLfSnn(cpu *CPU) {\n\tnn := cpu.fetch16()\n\tif !cpu.flagS() {")
m("c04-ret-po-polarity",["C04"],"op_callret.go","func xopRETnPV(cpu *CPU) {\n\tif cpu.AF.Lo&maskPV == 0 {","func xopRETnPV(cpu *CPU) {\n\tif cpu.AF.Lo&maskPV != 0 {")
m("c04-rst-pushes-pc-1",["C04","C05"],"op_callret.go","func xopRST28(cpu *CPU) {\n\tcpu.SP -= 2\n\tcpu.writeU16(cpu.SP, cpu.PC)","func xopRST28(cpu *CPU) {\n\tcpu.SP -= 2\n\tcpu.writeU16(cpu.SP, cpu.PC-1)")
m("c04-push-byte-order",["C04","C05"],"op_load16.go","\tcpu.SP--\n\tcpu.Memory.Set(cpu.SP, reg.Hi)\n\tcpu.SP--\n\tcpu.Memory.Set(cpu.SP, reg.Lo)","\tcpu.SP--\n\tcpu.Memory.Set(cpu.SP, reg.Lo)\n\tcpu.SP--\n\tcpu.Memory.Set(cpu.SP, reg.Hi)")
m("c04-jp-hl-indirect",["C04","C05"],"op_jump.go","\tp := cpu.HL.U16()\n\tcpu.PC = p","\tp := cpu.readU16(cpu.HL.U16())\n\tcpu.PC = p")
m("c04-djnz-test-before-dec",["C04"],"op_jump.go","\tcpu.BC.Hi--\n\tif cpu.BC.Hi != 0 {\n\t\tcpu.PC = addrOff(cpu.PC, off)\n\t}","\tif cpu.BC.Hi != 0 {\n\t\tcpu.PC = addrOff(cpu.PC, off)\n\t}\n\tcpu.BC.Hi--")
m("c04-addrOff-unsigned",["C04","C01"],"cpu.go","return addr + uint16(int16(int8(off)))","return addr + uint16(off)")
m("c04-ret-order-refactor",["C04","C05"],"op_callret.go","\tl := cpu.Memory.Get(cpu.SP)\n\tcpu.SP++\n\th := cpu.Memory.Get(cpu.SP)\n\tcpu.SP++\n\tcpu.PC = (uint16(h) << 8) | uint16(l)","\tcpu.PC = cpu.readU16(cpu.SP)\n\tcpu.SP += 2",expect="silent",note="RET via readU16")
# ---- C05
m("c05-rlc-hl-double-read",["C05"],"op_rotateshift.go","func xopRLCHLP(cpu *CPU) {\n\tp := cpu.HL.U16()\n\tx := cpu.Memory.Get(p)","func xopRLCHLP(cpu *CPU) {\n\tp := cpu.HL.U16()\n\tcpu.Memory.Get(p)\n\tx := cpu.Memory.Get(p)")
m("c05-out-c-d-port-b",["C05","C01"],"op_inout.go","func xopOUTCPd(cpu *CPU) {\n\tcpu.ioOut(cpu.BC.Lo, cpu.DE.Hi)","func xopOUTCPd(cpu *CPU) {\n\tcpu.ioOut(cpu.BC.Hi, cpu.DE.Hi)")
m("c05-in-a-n-twice",["C05"],"op_inout.go","\tcpu.AF.Hi = cpu.ioIn(n)","\tcpu.ioIn(n)\n\tcpu.AF.Hi = cpu.ioIn(n)")
m("c05-jp-nz-lazy-operand",["C05"],"op_jump.go","func xopJPnZnn(cpu *CPU) {\n\tnn := cpu.fetch16()\n\tif !cpu.flagZ() {\n\t\tcpu.PC = nn\n\t}","func xopJPnZnn(cpu *CPU) {\n\tif !cpu.flagZ() {\n\t\tcpu.PC = cpu.fetch16()\n\t} else {\n\t\tcpu.PC += 2\n\t}",note="same registers afterwards, but the operand bytes are not read when untaken")
m("c05-cp-hl-writes-back",["C05","C01"],"op_arith8.go","func oopCPHLP(cpu *CPU) {\n\ta := cpu.AF.Hi\n\tx := cpu.Memory.Get(cpu.HL.U16())\n\tcpu.cpU8(a, x)","func oopCPHLP(cpu *CPU) {\n\ta := cpu.AF.Hi\n\tx := cpu.Memory.Get(cpu.HL.U16())\n\tcpu.cpU8(a, x)\n\tcpu.Memory.Set(cpu.HL.U16(), x)")
m("c05-ini-port-b-again",["C05","C09","C01"],"op_inout.go","func oopINIR(cpu *CPU) {\n\tcpu.Memory.Set(cpu.HL.U16(), cpu.ioIn(cpu.BC.Lo))","func oopINIR(cpu *CPU) {\n\tcpu.Memory.Set(cpu.HL.U16(), cpu.ioIn(cpu.BC.Hi))",note="the repaired defect F1 returning")
# ---- C09
m("c09-ldir-repeat-bc-ne-1",["C09"],"op_exbtsg.go","func oopLDIR(cpu *CPU) {\n\toopLDI(cpu)\n\tif cpu.AF.Lo&maskPV != 0 {","func oopLDIR(cpu *CPU) {\n\toopLDI(cpu)\n\tif cpu.BC.U16() != 1 {")
m("c09-cpir-ignores-z",["C09"],"op_exbtsg.go","func oopCPIR(cpu *CPU) {\n\toopCPI(cpu)\n\t// cpu.BC != 0 && A - (HL) != 0\n\tif cpu.AF.Lo&maskPV != 0 && cpu.AF.Lo&maskZ == 0 {","func oopCPIR(cpu *CPU) {\n\toopCPI(cpu)\n\t// cpu.BC != 0 && A - (HL) != 0\n\tif cpu.AF.Lo&maskPV != 0 {")
m("c09-ldd-increments-de",["C09","C01"],"op_exbtsg.go","\tcpu.DE.SetU16(de - 1)","\tcpu.DE.SetU16(de + 1)")
m("c09-otir-dec-after-test",["C09"],"op_inout.go","func oopOTIR(cpu *CPU) {\n\tcpu.ioOut(cpu.BC.Lo, cpu.Memory.Get(cpu.HL.U16()))\n\tcpu.BC.Hi--\n\tcpu.HL.SetU16(cpu.HL.U16() + 1)\n\tcpu.updateFlagIObZ()\n\tif cpu.BC.Hi != 0 {","func oopOTIR(cpu *CPU) {\n\tcpu.ioOut(cpu.BC.Lo, cpu.Memory.Get(cpu.HL.U16()))\n\tcpu.HL.SetU16(cpu.HL.U16() + 1)\n\trep := cpu.BC.Hi != 0\n\tcpu.BC.Hi--\n\tcpu.updateFlagIObZ()\n\tif rep {")
m("c09-ldir-internal-loop",["C09","C12","C07"],"op_exbtsg.go","func oopLDIR(cpu *CPU) {\n\toopLDI(cpu)\n\tif cpu.AF.Lo&maskPV != 0 { // cpu.BC != 0\n\t\tcpu.PC -= 2\n\t}","func oopLDIR(cpu *CPU) {\n\toopLDI(cpu)\n\tfor cpu.AF.Lo&maskPV != 0 { // cpu.BC != 0\n\t\toopLDI(cpu)\n\t}",note="whole transfer in one Step: same final state for programs, but no interrupt/cancel point and no R counting")
m("c09-ldir-repeat-via-bc-refactor",["C09"],"op_exbtsg.go","func oopLDDR(cpu *CPU) {\n\toopLDD(cpu)\n\tif cpu.AF.Lo&maskPV != 0 {","func oopLDDR(cpu *CPU) {\n\toopLDD(cpu)\n\tif cpu.BC.U16() != 0 {",expect="silent",note="repeat predicate read from BC instead of through P/V: same function")
m("c10-closure-table-hidden-counter",["C10"],"z80.go","","var stepHooks = func() []func(*CPU) {\n\tn := 0\n\treturn []func(*CPU){func(cpu *CPU) {\n\t\tn++\n\t\tif n&0xffff == 0 {\n\t\t\tcpu.IR.Lo ^= 0x80\n\t\t}\n\t}}\n}()\n",edits=[{"file":"cpu.go","old":"\t// execute an op-code.\n\tcpu.executeOne()","new":"\tcpu.executeOne()\n\tstepHooks[0](cpu)"}],note="state hidden in a variable captured by a closure that package initialisation puts into a table: shared by all CPUs")
# ---- C11
m("c11-ld-l-iyd-writes-h",["C11","C01"],"op_load8.go","func xopLDlIYdP(cpu *CPU) {\n\td := cpu.fetch()\n\tp := addrOff(cpu.IY, d)\n\tcpu.HL.Lo = cpu.Memory.Get(p)","func xopLDlIYdP(cpu *CPU) {\n\td := cpu.fetch()\n\tp := addrOff(cpu.IY, d)\n\tcpu.HL.Hi = cpu.Memory.Get(p)")
m("c11-inc-iyh-decs",["C11","C02"],"op_arith8.go","func oopINCIYH(cpu *CPU) {\n\tv := cpu.incU8(uint8(cpu.IY >> 8))","func oopINCIYH(cpu *CPU) {\n\tv := cpu.decU8(uint8(cpu.IY >> 8))")
m("c11-fd-2b-incs",["C11","C03"],"operation.go","\t\tcase 0x2b:\n\t\t\toopDECIY(cpu)","\t\tcase 0x2b:\n\t\t\toopINCIY(cpu)")
m("c11-ex-sp-iy-writes-ix",["C11","C01"],"op_exbtsg.go","\tcpu.writeU16(cpu.SP, cpu.IY)\n\tcpu.IY = v","\tcpu.writeU16(cpu.SP, cpu.IY)\n\tcpu.IX = v")
m("c11-fdcb-arm-deleted",["C11","C01"],"operation.go","\t\t\tcase 0x16:\n\t\t\t\toopRLIYdP(cpu, d)\n","")
m("c11-fd-order-of-accesses",["C11"],"op_exbtsg.go","func oopEXSPPIY(cpu *CPU) {\n\tv := cpu.readU16(cpu.SP)\n\tcpu.writeU16(cpu.SP, cpu.IY)","func oopEXSPPIY(cpu *CPU) {\n\tv := toU16(cpu.Memory.Get(cpu.SP), 0)\n\tv |= uint16(cpu.Memory.Get(cpu.SP+1)) << 8\n\tcpu.Memory.Set(cpu.SP+1, uint8(cpu.IY>>8))\n\tcpu.Memory.Set(cpu.SP, uint8(cpu.IY))",note="same multiset of accesses, different order from the DD form: C11 asks for an identical sequence")
m("c11-add-iy-sp-commuted",["C11","C03"],"op_arith16.go","func xopADDIYsp(cpu *CPU) {\n\ta := cpu.IY\n\tx := cpu.SP\n\tcpu.IY = cpu.addU16(a, x)","func xopADDIYsp(cpu *CPU) {\n\ta := cpu.IY\n\tx := cpu.SP\n\tcpu.IY = cpu.addU16(x, a)",expect="silent",note="addition is commutative: must not fire")

# ---- C06
m("c06-nmi-without-iff2-copy",["C06"],"cpu.go","\t\tcpu.IFF2 = cpu.IFF1\n\t\tcpu.IFF1 = false\n\t\treturn true","\t\tcpu.IFF1 = false\n\t\treturn true")
m("c06-im1-vector-0030",["C06"],"cpu.go","\t\tcpu.PC = 0x0038\n\t\tcpu.IFF1 = false","\t\tcpu.PC = 0x0030\n\t\tcpu.IFF1 = false")
m("c06-im2-odd-vector",["C06"],"cpu.go","vector := cpu.Interrupt.Data[0] & 0xfe","vector := cpu.Interrupt.Data[0]")
m("c06-request-cleared-before-test",["C06","C07"],"cpu.go","\tif cpu.Interrupt != nil && cpu.processInterrupt() {\n\t\tcpu.Interrupt = nil\n\t\treturn\n\t}","\tif cpu.Interrupt != nil {\n\t\tok := cpu.processInterrupt()\n\t\tcpu.Interrupt = nil\n\t\tif ok {\n\t\t\treturn\n\t\t}\n\t}",note="a refused request is dropped instead of staying pending")
m("c06-retn-without-iff-copy",["C06","C07"],"op_callret.go","\tcpu.SP += 2\n\tcpu.IFF1 = cpu.IFF2\n","\tcpu.SP += 2\n")
m("c06-reti-notifies-twice",["C06"],"op_callret.go","\tif cpu.RETIHandler != nil {\n\t\tcpu.RETIHandler.RETIHandle()\n\t}","\tif cpu.RETIHandler != nil {\n\t\tcpu.RETIHandler.RETIHandle()\n\t\tcpu.RETIHandler.RETIHandle()\n\t}")
m("c06-iff2-fix-reverted",["C06"],"cpu.go","\t\tcpu.PC = 0x0038\n\t\tcpu.IFF1 = false\n\t\tcpu.IFF2 = false","\t\tcpu.PC = 0x0038\n\t\tcpu.IFF1 = false",note="the repaired defect F2 returning")
m("c06-im2-vector-after-push",["C06","C12"],"cpu.go","\t\t\tvector := cpu.Interrupt.Data[0] & 0xfe\n\t\t\tcpu.SP -= 2\n\t\t\tcpu.writeU16(cpu.SP, cpu.PC)\n\t\t\tcpu.PC = cpu.readU16(toU16(vector, cpu.IR.Hi))","\t\t\tcpu.SP -= 2\n\t\t\tcpu.writeU16(cpu.SP, cpu.PC)\n\t\t\tcpu.PC = cpu.readU16(toU16(cpu.Interrupt.Data[0]&0xfe, cpu.IR.Hi))",note="the repaired defect F4 returning")
m("c06-nmi-masked-by-iff1",["C06"],"cpu.go","\tif cpu.Interrupt.Type == NMIType {","\tif cpu.Interrupt.Type == NMIType && (cpu.IFF1 || cpu.IFF2) {",note="NMI refused when both flip-flops are clear")
m("c06-halt-handler-notify",["C06"],"op_callret.go","func oopRET(cpu *CPU) {\n","func oopRET(cpu *CPU) {\n\tif cpu.RETIHandler != nil && cpu.IFF2 && !cpu.IFF1 {\n\t\tcpu.RETIHandler.RETIHandle()\n\t}\n",note="plain RET notifies the RETI handler in one IFF state")
m("c06-step-refactor-early-return",["C06","C07","C08"],"cpu.go","\tif cpu.Interrupt != nil && cpu.processInterrupt() {\n\t\tcpu.Interrupt = nil\n\t\treturn\n\t}\n\t// execute an op-code.\n\tcpu.executeOne()","\tif cpu.Interrupt == nil || !cpu.processInterrupt() {\n\t\t// execute an op-code.\n\t\tcpu.executeOne()\n\t\treturn\n\t}\n\tcpu.Interrupt = nil",expect="silent",note="same Step, control flow inverted")
m("c06-im0-constructor-drops-byte",["C06"],"z80.go","\tcopy(data[1:], others)","\tcopy(data[1:], others[:len(others)/2*2])",note="mode-0 CALL nn supplied as three bytes loses its last byte")
m("c06-nmi-constructor-type",["C06"],"z80.go","func NMIInterrupt() *Interrupt {\n\treturn &Interrupt{Type: NMIType}","func NMIInterrupt() *Interrupt {\n\treturn &Interrupt{Type: IMType}")
m("c06-im2-constructor-masks",["C06"],"z80.go","\t\tData: []uint8{n},","\t\tData: []uint8{n | 1},")
m("c06-im0-constructor-refactor",["C06"],"z80.go","\tdata := make([]uint8, len(others)+1)\n\tdata[0] = d\n\tcopy(data[1:], others)","\tdata := make([]uint8, 1+len(others))\n\tcopy(data[1:], others)\n\tdata[0] = d",expect="silent")

# ---- C07
m("c07-ldir-rewind-by-1",["C07","C09"],"op_exbtsg.go","func oopLDIR(cpu *CPU) {\n\toopLDI(cpu)\n\tif cpu.AF.Lo&maskPV != 0 { // cpu.BC != 0\n\t\tcpu.PC -= 2","func oopLDIR(cpu *CPU) {\n\toopLDI(cpu)\n\tif cpu.AF.Lo&maskPV != 0 { // cpu.BC != 0\n\t\tcpu.PC -= 1")
m("c07-halt-no-rewind",["C07","C08","C01"],"op_ctrl.go","\tcpu.PC--\n\tcpu.HALT = true","\tcpu.HALT = true")
m("c07-nmi-pushes-pc-plus-1",["C07","C06"],"cpu.go","\tif cpu.Interrupt.Type == NMIType {\n\t\tcpu.SP -= 2\n\t\tcpu.writeU16(cpu.SP, cpu.PC)","\tif cpu.Interrupt.Type == NMIType {\n\t\tcpu.SP -= 2\n\t\tcpu.writeU16(cpu.SP, cpu.PC+1)")
m("c07-im0-pushes-pc-plus-2",["C07"],"cpu.go","cpu.Memory = newIm0data(cpu.PC, cpu.Interrupt.Data, savedMemory)","cpu.PC++\n\t\t\tcpu.Memory = newIm0data(cpu.PC, cpu.Interrupt.Data, savedMemory)",note="a different wrong resume address than the recorded finding: must still be reported")

_RUN_HEAD="\tvar ctxErr error\n\tvar canceled int32\n\tctx2, cancel := context.WithCancel(ctx)\n\tdefer cancel()\n\tgo func() {\n\t\t<-ctx2.Done()\n\t\tctxErr = ctx.Err()\n\t\tatomic.StoreInt32(&canceled, 1)\n\t}()\n\n\tcpu.HALT = false\n\tfor {\n\t\tif atomic.LoadInt32(&canceled) != 0 {\n\t\t\treturn ctxErr\n\t\t}"
def _helper(body, rel="\tdefer release()\n"):
    return ("\tcanceled, release := watchDone(ctx)\n"+rel+"\n\tcpu.HALT = false\n\tfor {\n\t\tif reason := canceled.Load(); reason != nil {\n\t\t\treturn *reason\n\t\t}",
            [{"file":"cpu.go","old":"","new":"func watchDone(ctx context.Context) (canceled *atomic.Pointer[error], release context.CancelFunc) {\n\tcanceled = new(atomic.Pointer[error])\n\tctx2, cancel := context.WithCancel(ctx)\n\tgo func() {\n"+body+"\t}()\n\treturn canceled, cancel\n}\n"}])
_ok="\t\t<-ctx2.Done()\n\t\terr := ctx.Err()\n\t\tcanceled.Store(&err)\n"
n,e=_helper(_ok)
m("c13-helper-watcher-refactor",["C13","C08","C12"],"cpu.go",_RUN_HEAD,n,edits=e,expect="silent",note="watcher moved into a helper and publishing through one atomic.Pointer: property holds")
n,e=_helper(_ok,rel="\t_ = release\n")
m("c13-helper-watcher-no-release",["C13"],"cpu.go",_RUN_HEAD,n,edits=e,note="goroutine started in a helper and never released")
n,e=_helper("\t\t<-ctx2.Done()\n\t\tvar err error\n\t\tcanceled.Store(&err)\n\t\terr = ctx.Err()\n")
m("c13-helper-watcher-publish-early",["C13"],"cpu.go",_RUN_HEAD,n,edits=e,note="pointer published before the error is written")
n,e=_helper("\t\t_ = ctx2\n\t\t<-ctx.Done()\n\t\terr := ctx.Err()\n\t\tcanceled.Store(&err)\n")
m("c13-helper-watcher-waits-on-parent",["C13"],"cpu.go",_RUN_HEAD,n,edits=e,note="helper goroutine waits on the caller's context")
# ---- C14
m("c14-r-8bit-wrap",["C14","C01"],"cpu.go","cpu.IR.Lo = rc&0x80 | (rc+1)&0x7f","cpu.IR.Lo = rc + 1")
m("c14-prefix-plain-fetch",["C14"],"operation.go","\tcase 0xed:\n\t\tswitch c1 := cpu.fetchM1(); c1 {","\tcase 0xed:\n\t\tswitch c1 := cpu.fetch(); c1 {")
m("c14-ld-r-n-fetchm1",["C14","C01"],"op_load8.go","func xopLDdn(cpu *CPU) {\n\tcpu.DE.Hi = cpu.fetch()","func xopLDdn(cpu *CPU) {\n\tcpu.DE.Hi = cpu.fetchM1()")
m("c14-pv-from-iff1",["C14"],"op_load8.go","\tif cpu.IFF2 {\n\t\tor |= maskPV","\tif cpu.IFF1 {\n\t\tor |= maskPV")
m("c14-ld-i-a-also-r",["C14"],"op_load8.go","func oopLDIA(cpu *CPU) {\n\tcpu.IR.Hi = cpu.AF.Hi","func oopLDIA(cpu *CPU) {\n\tcpu.IR.Hi = cpu.AF.Hi\n\tcpu.IR.Lo = cpu.AF.Hi")
m("c14-ld-a-r-clears-c",["C14"],"op_load8.go","func (cpu *CPU) updateFlagIR(d uint8) {\n\tvar nand uint8 = maskS53 | maskZ | maskH | maskPV | maskN","func (cpu *CPU) updateFlagIR(d uint8) {\n\tvar nand uint8 = maskS53 | maskZ | maskH | maskPV | maskN | maskC")
m("c14-nmi-bumps-r",["C14"],"cpu.go","\t\tcpu.PC = 0x0066\n","\t\tcpu.PC = 0x0066\n\t\tcpu.IR.Lo++\n",note="R written outside instruction execution (who-may-write)")
m("c14-reset-helper-writes-ir",["C14"],"z80.go","","// ResetRefresh clears the refresh counter.\nfunc (cpu *CPU) ResetRefresh() { cpu.IR.Lo = 0 }\n",expect="silent",note="an exported helper the user has to call himself: it cannot act while a program executes (the earlier rule flagged every writer in the package, which is more than the property states)")
m("c14-step-clears-refresh",["C14"],"cpu.go","	// execute an op-code.\n	cpu.executeOne()","	cpu.executeOne()\n	cpu.resetRefreshIfIdle()",edits=[{"file":"z80.go","old":"","new":"func (cpu *CPU) resetRefreshIfIdle() {\n	if cpu.HALT {\n		cpu.IR.Lo &= 0x7f\n	}\n}\n"}],note="a helper called from Step clears bit 7 of R while halted")
m("c14-r-update-refactor",["C14","C01"],"cpu.go","cpu.IR.Lo = rc&0x80 | (rc+1)&0x7f","cpu.IR.Lo = rc&0x80 + (rc&0x7f+1)&0x7f",expect="silent",note="equivalent refresh increment")

# ---- C08
RUNLOOP="\t\tcpu.Step()\n\t\tif cpu.BreakPoints != nil {\n\t\t\tif _, ok := cpu.BreakPoints[cpu.PC]; ok {\n\t\t\t\treturn ErrBreakPoint\n\t\t\t}\n\t\t}\n\t\tif cpu.HALT {\n\t\t\tbreak\n\t\t}\n"
m("c08-halt-before-breakpoint",["C08"],"cpu.go",RUNLOOP,"\t\tcpu.Step()\n\t\tif cpu.HALT {\n\t\t\tbreak\n\t\t}\n\t\tif cpu.BreakPoints != nil {\n\t\t\tif _, ok := cpu.BreakPoints[cpu.PC]; ok {\n\t\t\t\treturn ErrBreakPoint\n\t\t\t}\n\t\t}\n",note="HALT wins over a breakpoint on the HALT's own address")
m("c08-while-not-halted",["C08","C13"],"cpu.go","\tcpu.HALT = false\n\tfor {\n","\tfor !cpu.HALT {\n",note="no entry reset and zero Steps possible on a halted CPU")
m("c08-no-halt-reset",["C08"],"cpu.go","\tcpu.HALT = false\n\tfor {","\tfor {")
m("c08-executeone-instead-of-step",["C08"],"cpu.go","\t\tcpu.Step()\n\t\tif cpu.BreakPoints != nil {","\t\tcpu.executeOne()\n\t\tif cpu.BreakPoints != nil {",note="Run bypasses interrupt processing")
m("c08-breakpoint-on-old-pc",["C08"],"cpu.go",RUNLOOP,"\t\tpc := cpu.PC\n\t\tcpu.Step()\n\t\tif cpu.BreakPoints != nil {\n\t\t\tif _, ok := cpu.BreakPoints[pc]; ok {\n\t\t\t\treturn ErrBreakPoint\n\t\t\t}\n\t\t}\n\t\tif cpu.HALT {\n\t\t\tbreak\n\t\t}\n")
m("c08-run-masks-interrupt",["C08"],"cpu.go","\t\tcpu.Step()\n\t\tif cpu.BreakPoints != nil {","\t\tif cpu.Interrupt != nil && cpu.HALT {\n\t\t\tcpu.Interrupt = nil\n\t\t}\n\t\tcpu.Step()\n\t\tif cpu.BreakPoints != nil {")
m("c08-halt-set-by-di",["C08","C01"],"op_ctrl.go","func oopDI(cpu *CPU) {\n\tcpu.IFF1 = false","func oopDI(cpu *CPU) {\n\tcpu.HALT = cpu.HALT || !cpu.IFF1 && !cpu.IFF2 && cpu.IM == 3\n\tcpu.IFF1 = false",note="another instruction sets the halted indication in a rare state")
m("c08-return-nil-refactor",["C08","C13"],"cpu.go","\t\tif cpu.HALT {\n\t\t\tbreak\n\t\t}\n\t}\n\treturn nil","\t\tif cpu.HALT {\n\t\t\treturn nil\n\t\t}\n\t}",expect="silent",note="break replaced by return nil")
m("c08-bp-lookup-without-nil-test",["C08"],"cpu.go","\t\tif cpu.BreakPoints != nil {\n\t\t\tif _, ok := cpu.BreakPoints[cpu.PC]; ok {\n\t\t\t\treturn ErrBreakPoint\n\t\t\t}\n\t\t}","\t\tif _, ok := cpu.BreakPoints[cpu.PC]; ok {\n\t\t\treturn ErrBreakPoint\n\t\t}",expect="silent",note="lookup in a nil map is fine: redundant nil test removed")
m("c08-helper-refactor",["C08","C13","C12"],"cpu.go","\t\tif cpu.BreakPoints != nil {\n\t\t\tif _, ok := cpu.BreakPoints[cpu.PC]; ok {\n\t\t\t\treturn ErrBreakPoint\n\t\t\t}\n\t\t}","\t\tif cpu.atBreakPoint() {\n\t\t\treturn ErrBreakPoint\n\t\t}",edits=[{"file":"z80.go","old":"","new":"func (cpu *CPU) atBreakPoint() bool {\n\tif cpu.BreakPoints == nil {\n\t\treturn false\n\t}\n\t_, ok := cpu.BreakPoints[cpu.PC]\n\treturn ok\n}\n"}],expect="silent",note="breakpoint test moved into a read-only helper method")
m("c08-helper-halt-first",["C08"],"cpu.go","\t\tif cpu.BreakPoints != nil {\n\t\t\tif _, ok := cpu.BreakPoints[cpu.PC]; ok {\n\t\t\t\treturn ErrBreakPoint\n\t\t\t}\n\t\t}\n\t\tif cpu.HALT {\n\t\t\tbreak\n\t\t}","\t\tif cpu.HALT {\n\t\t\tbreak\n\t\t}\n\t\tif cpu.atBreakPoint() {\n\t\t\treturn ErrBreakPoint\n\t\t}",edits=[{"file":"z80.go","old":"","new":"func (cpu *CPU) atBreakPoint() bool {\n\t_, ok := cpu.BreakPoints[cpu.PC]\n\treturn ok\n}\n"}],note="helper used, but HALT tested first")

# ---- C13
m("c13-no-defer-cancel",["C13"],"cpu.go","\tdefer cancel()\n","\t_ = cancel\n",note="watcher leaks when Run returns on HALT and the caller never cancels")
m("c13-plain-flag-read",["C13"],"cpu.go","if atomic.LoadInt32(&canceled) != 0 {","if canceled != 0 {")
m("c13-check-hoisted",["C13","C08"],"cpu.go","\tfor {\n\t\tif atomic.LoadInt32(&canceled) != 0 {\n\t\t\treturn ctxErr\n\t\t}\n","\tif atomic.LoadInt32(&canceled) != 0 {\n\t\treturn ctxErr\n\t}\n\tfor {\n")
m("c13-flag-before-error",["C13"],"cpu.go","\t\tctxErr = ctx.Err()\n\t\tatomic.StoreInt32(&canceled, 1)","\t\tatomic.StoreInt32(&canceled, 1)\n\t\tctxErr = ctx.Err()")
m("c13-return-nil-on-cancel",["C13","C08"],"cpu.go","\t\t\treturn ctxErr\n","\t\t\t_ = ctxErr\n\t\t\treturn nil\n")
m("c13-wait-on-parent",["C13"],"cpu.go","\t\t<-ctx2.Done()","\t\t_ = ctx2\n\t\t<-ctx.Done()",note="leak when the parent context is never cancelled")
m("c13-check-every-256-steps",["C13","C08"],"cpu.go","\tfor {\n\t\tif atomic.LoadInt32(&canceled) != 0 {","\tfor n := 0; ; n++ {\n\t\tif n&0xff == 0 && atomic.LoadInt32(&canceled) != 0 {")
m("c13-poll-ctx-err-refactor",["C13","C08"],"cpu.go","\tvar ctxErr error\n\tvar canceled int32\n\tctx2, cancel := context.WithCancel(ctx)\n\tdefer cancel()\n\tgo func() {\n\t\t<-ctx2.Done()\n\t\tctxErr = ctx.Err()\n\t\tatomic.StoreInt32(&canceled, 1)\n\t}()\n\n\tcpu.HALT = false\n\tfor {\n\t\tif atomic.LoadInt32(&canceled) != 0 {\n\t\t\treturn ctxErr\n\t\t}","\tvar _ = atomic.LoadInt32\n\tcpu.HALT = false\n\tfor {\n\t\tif err := ctx.Err(); err != nil {\n\t\t\treturn err\n\t\t}",expect="silent",note="synchronous polling of ctx.Err(): no goroutine, property holds")

# ---- C10
m("c10-lazy-parity-table",["C10"],"accum.go","func (cpu *CPU) updateFlagBitop(r uint8, carry uint8) {\n","var parityTable []uint8\n\nfunc parityOf(r uint8) uint8 {\n\tif parityTable == nil {\n\t\tt := make([]uint8, 256)\n\t\tfor i := range t {\n\t\t\tt[i] = (uint8(bits.OnesCount8(uint8(i))%2) - 1) & maskPV\n\t\t}\n\t\tparityTable = t\n\t}\n\treturn parityTable[r]\n}\n\nfunc (cpu *CPU) updateFlagBitop(r uint8, carry uint8) {\n\t_ = parityOf\n",note="package-level table filled on first use: shared mutable state (races between CPUs) - here not even called from Step")
m("c10-lazy-table-used",["C10"],"accum.go","\tor |= (uint8(bits.OnesCount8(r)%2) - 1) & maskPV\n\tor |= carry & maskC","\tif parityTab == nil {\n\t\tt := make([]uint8, 256)\n\t\tfor i := range t {\n\t\t\tt[i] = (uint8(bits.OnesCount8(uint8(i))%2) - 1) & maskPV\n\t\t}\n\t\tparityTab = t\n\t}\n\tor |= parityTab[r]\n\tor |= carry & maskC",edits=[{"file":"accum.go","old":"func (cpu *CPU) updateFlagBitop(","new":"var parityTab []uint8\n\nfunc (cpu *CPU) updateFlagBitop("}],note="same results, but CPUs on different goroutines race on the table")
m("c10-hidden-field",["C10","C01"],"z80.go","\t// HALT indicates whether the last Run() is terminated with HALT op.\n\tHALT bool\n","\t// HALT indicates whether the last Run() is terminated with HALT op.\n\tHALT bool\n\n\tlastOp uint8\n",edits=[{"file":"op_ctrl.go","old":"func oopNOP(cpu *CPU) {\n","new":"func oopNOP(cpu *CPU) {\n\tif cpu.lastOp == 0x76 {\n\t\tcpu.IR.Lo ^= 0x80\n\t}\n"},{"file":"op_ctrl.go","old":"\tcpu.PC--\n\tcpu.HALT = true","new":"\tcpu.PC--\n\tcpu.HALT = true\n\tcpu.lastOp = 0x76"}],note="unexported field carried between Steps: not captured by States+memory")
m("c10-states-pointer-field",["C10"],"z80.go","\tIFF1 bool\n\tIFF2 bool\n\tIM   int\n}","\tIFF1 bool\n\tIFF2 bool\n\tIM   int\n\n\tShadow *GPR\n}",note="a copy of States is no longer a snapshot")
m("c10-global-counter",["C10"],"cpu.go","func (cpu *CPU) Step() {\n","var stepCount uint64\n\nfunc (cpu *CPU) Step() {\n\tstepCount++\n",note="package-level counter written by every Step: CPUs on different goroutines race")
m("c10-time-dependent",["C10","C01"],"op_load8.go","func oopLDAR(cpu *CPU) {\n\td := cpu.IR.Lo","func oopLDAR(cpu *CPU) {\n\td := cpu.IR.Lo ^ uint8(time.Now().UnixNano()&0)",edits=[{"file":"op_load8.go","old":"package z80\n","new":"package z80\n\nimport \"time\"\n"}],note="call of time.Now below Step")
m("c10-init-table-refactor",["C10"],"flag.go","type Flag uint8\n","type Flag uint8\n\nvar flagNames = map[Flag]string{FlagC: \"C\", FlagZ: \"Z\"}\n\n// Name returns a flag's name.\nfunc (f Flag) Name() string { return flagNames[f] }\n",expect="silent",note="a package-level table written only by package initialisation and not used below Step")
# ---- C12
m("c12-dumbmemory-set-off-by-one",["C12","C15"],"memio.go","func (dm DumbMemory) Set(addr uint16, value uint8) {\n\tif int(addr) >= len(dm) {","func (dm DumbMemory) Set(addr uint16, value uint8) {\n\tif int(addr) > len(dm) {")
m("c12-im2-len-guard-removed",["C12"],"cpu.go","\tcase 2:\n\t\t// Interrupt with IM 2\n\t\tif len(cpu.Interrupt.Data) > 0 {","\tcase 2:\n\t\t// Interrupt with IM 2\n\t\tif cpu.Interrupt.Data != nil {")
m("c12-default-arm-loops",["C12","C09"],"operation.go","\tdefault:\n\t\tcpu.invalidCode(c0)\n","\tdefault:\n\t\tfor c0 == 0xdd {\n\t\t\tc0 = cpu.fetchM1()\n\t\t}\n\t\tcpu.invalidCode(c0)\n",expect="silent",note="the loop condition is false in every specialisation that reaches it (c0 is never DDh in the default arm): zero iterations, followed concretely")
m("c12-ed-default-arm-scans-memory",["C12","C09","C13"],"operation.go","\t\tdefault:\n\t\t\tcpu.invalidCode(c0, c1)\n","\t\tdefault:\n\t\t\tfor c1 != 0x76 {\n\t\t\t\tc1 = cpu.fetchM1()\n\t\t\t}\n\t\t\tcpu.invalidCode(c0, c1)\n",occ=2,note="an undefined ED opcode makes Step scan memory for the next 76h: unbounded")
m("c12-invalid-ed-rewinds",["C12","C01"],"operation.go","\t\tdefault:\n\t\t\tcpu.invalidCode(c0, c1)\n\t\t}\n\n\tcase 0xfd:","\t\tdefault:\n\t\t\tcpu.invalidCode(c0, c1)\n\t\t\tcpu.PC--\n\t\t}\n\n\tcase 0xfd:",note="unsupported ED opcode is not consumed: its second byte is executed again")
m("c12-io-nil-check-dropped",["C12"],"cpu.go","func (cpu *CPU) ioOut(addr uint8, value uint8) {\n\tif cpu.IO == nil {\n\t\treturn\n\t}\n","func (cpu *CPU) ioOut(addr uint8, value uint8) {\n")
m("c12-retn-handler-called-after-pop",["C12"],"op_callret.go","func oopRETN(cpu *CPU) {\n\tif cpu.RETNHandler != nil {\n\t\tcpu.RETNHandler.RETNHandle()\n\t}\n\n\tcpu.PC = cpu.readU16(cpu.SP)","func oopRETN(cpu *CPU) {\n\tif cpu.RETNHandler == nil {\n\t\tcpu.PC = cpu.readU16(cpu.SP)\n\t\tcpu.SP += 2\n\t\tcpu.IFF1 = cpu.IFF2\n\t\treturn\n\t}\n\tcpu.PC = cpu.readU16(cpu.SP)\n\tcpu.RETNHandler.RETNHandle()\n",expect="silent",note="handler invoked after memory callbacks ran since the nil test: safe under the stated callback assumption (callbacks may change CPU.Interrupt only), decided by value")
m("c12-im0-overlay-end-off-by-one",["C12"],"cpu.go","\t\tend:   pc + uint16(len(d)-1),","\t\tend:   pc + uint16(len(d)),",note="overlay range one byte too long: data[len] is read when the instruction fetches one more byte")
m("c12-dumbio-refactor",["C12","C15"],"memio.go","func (dio DumbIO) In(addr uint8) uint8 {\n\tif int(addr) >= len(dio) {\n\t\treturn 0\n\t}\n\treturn dio[addr]","func (dio DumbIO) In(addr uint8) uint8 {\n\tif int(addr) < len(dio) {\n\t\treturn dio[addr]\n\t}\n\treturn 0",expect="silent",note="guard inverted, same behaviour")


def _eq(cond):
    return "\tif (mm == nil) != (a == nil) || len(mm) != len(a) {\n\t\treturn false\n\t}\n\tfor k, v := range mm {\n\t\tif "+cond+" {\n\t\t\treturn false\n\t\t}\n\t}\n\treturn true\n"
_noimp=[{"file":"memio.go","old":"import \"reflect\"\n","new":""}]
m("c15-equal-entrywise-refactor",["C15"],"memio.go","\treturn reflect.DeepEqual(mm, a)\n",_eq("w, ok := a[k]; !ok || w != v"),edits=_noimp,expect="silent",note="hand-written entry-wise comparison, equivalent to DeepEqual on maps")
m("c15-equal-entrywise-no-presence-test",["C15"],"memio.go","\treturn reflect.DeepEqual(mm, a)\n",_eq("a[k] != v"),edits=_noimp,note="a missing key reads as 0: zero cells at different addresses compare equal")
m("c15-equal-entrywise-no-nil-test",["C15"],"memio.go","\treturn reflect.DeepEqual(mm, a)\n",_eq("w, ok := a[k]; !ok || w != v").replace("(mm == nil) != (a == nil) || ",""),edits=_noimp,note="nil and empty maps compare equal")
m("c08-for-not-halted-refactor",["C08","C13","C12"],"cpu.go","\tfor {\n","\tfor !cpu.HALT {\n",edits=[{"file":"cpu.go","old":"\t\tif cpu.HALT {\n\t\t\tbreak\n\t\t}\n\t}\n\treturn nil","new":"\t}\n\treturn nil"}],expect="silent",note="HALT tested by the loop condition (after the entry reset): same stopping rule")
m("c08-select-poll-refactor",["C08","C13","C10","C12"],"cpu.go",_RUN_HEAD,"\tdone := ctx.Done()\n\tvar _ = atomic.LoadInt32\n\n\tcpu.HALT = false\n\tfor {\n\t\tselect {\n\t\tcase <-done:\n\t\t\treturn ctx.Err()\n\t\tdefault:\n\t\t}",expect="silent",note="non-blocking poll of ctx.Done() before every Step, no goroutine")
m("c08-for-not-halted-halt-first",["C08"],"cpu.go","\tfor {\n","\tfor !cpu.HALT {\n",edits=[{"file":"cpu.go","old":RUNLOOP,"new":"\t\tcpu.Step()\n\t\tif cpu.HALT {\n\t\t\tcontinue\n\t\t}\n\t\tif cpu.BreakPoints != nil {\n\t\t\tif _, ok := cpu.BreakPoints[cpu.PC]; ok {\n\t\t\t\treturn ErrBreakPoint\n\t\t\t}\n\t\t}\n"}],note="rotated loop in which an executed HALT wins over a breakpoint on its address")
m("c12-halt-unless-request-pending",["C12","C08","C01"],"op_ctrl.go","\tcpu.HALT = true","\tcpu.HALT = cpu.Interrupt == nil",note="DI; HALT with a refused request pending never sets the indication: Run spins for ever")
m("c18-resident-byte-below-bdos",["C18"],"internal/tinycpm/tinycpm.go","\tm.put(0xfe06, biosFE06...)","\tm.put(0xfe06, biosFE06...)\n\tm.put(0xfe05, 0xc9)",note="a resident byte just below the BDOS entry: a program that puts its stack at (0006h) overwrites it")
m("c08-deferred-closure-rewrites-result",["C08"],"cpu.go","func (cpu *CPU) Run(ctx context.Context) error {\n","func (cpu *CPU) Run(ctx context.Context) (err error) {\n\tdefer func() {\n\t\tif err == ErrBreakPoint {\n\t\t\terr = nil\n\t\t}\n\t}()\n",note="a deferred closure turns ErrBreakPoint into nil through the named result")
m("c08-named-result-refactor",["C08","C13","C12"],"cpu.go","func (cpu *CPU) Run(ctx context.Context) error {\n","func (cpu *CPU) Run(ctx context.Context) (err error) {\n\tdefer func() {\n\t\tif r := recover(); r != nil {\n\t\t\tpanic(r)\n\t\t}\n\t}()\n",expect="silent",note="named result and a deferred closure that re-panics only: same returns")
m("c12-fixed-trip-loop-refactor",["C12","C13","C09","C01","C05"],"cpu.go","\tl, h := fromU16(v)\n\tcpu.Memory.Set(addr, l)\n\tcpu.Memory.Set(addr+1, h)\n","\tfor i := uint(0); i < 2; i++ {\n\t\tcpu.Memory.Set(addr+uint16(i), uint8(v>>(8*i)))\n\t}\n",expect="silent",note="a loop below Step with a fixed trip count: same accesses in the same order")
m("c12-data-dependent-loop",["C12","C13"],"cpu.go","\tl, h := fromU16(v)\n\tcpu.Memory.Set(addr, l)\n\tcpu.Memory.Set(addr+1, h)\n","\tl, h := fromU16(v)\n\tcpu.Memory.Set(addr, l)\n\tcpu.Memory.Set(addr+1, h)\n\tfor n := l; n&1 != 0; n >>= 1 {\n\t}\n",note="a loop below Step whose trip count depends on data")
m("c08-run-adjusts-pc-before-return",["C08","C13"],"cpu.go","\t\tif cpu.HALT {\n\t\t\tbreak\n\t\t}\n\t}\n\treturn nil","\t\tif cpu.HALT {\n\t\t\tbreak\n\t\t}\n\t}\n\tcpu.PC++\n\treturn nil",note="Run moves PC past the HALT opcode before it returns: not a state reached by whole Steps")
m("c13-poll-only-when-r-wraps",["C13","C08"],"cpu.go","\t\tif atomic.LoadInt32(&canceled) != 0 {","\t\tif cpu.IR.Lo&0x7f == 0 && atomic.LoadInt32(&canceled) != 0 {",note="the flag is polled only when the refresh counter wraps: a loop of prefixed instructions entered with odd R never polls")
m("c10-step-reads-halt",["C10"],"cpu.go","\t// execute an op-code.\n\tcpu.executeOne()","\tif cpu.HALT && cpu.IFF1 {\n\t\tcpu.IR.Lo = cpu.IR.Lo&0x80 | (cpu.IR.Lo+1)&0x7f\n\t\treturn\n\t}\n\tcpu.executeOne()",note="Step depends on CPU.HALT, which States does not contain: a CPU rebuilt from States and memory diverges")
# ---- C16
m("c16-resetflag-and",["C16"],"flag.go","gpr.AF.Lo &= ^uint8(f)","gpr.AF.Lo &= uint8(f)")
m("c16-getflag-all-bits",["C16"],"flag.go","return gpr.AF.Lo&uint8(f) != 0","return gpr.AF.Lo&uint8(f) == uint8(f)",note="differs only for combined masks")
m("c16-setu16-low-byte",["C16","C01"],"z80.go","r.Lo = uint8(v & 0x00ff)","r.Lo = uint8(v >> 8)")
m("c16-flagh-value",["C16"],"flag.go","FlagH  Flag = 0x10","FlagH  Flag = 0x08")
m("c16-setflag-touches-a",["C16"],"flag.go","gpr.AF.Lo |= uint8(f)","gpr.AF.Lo |= uint8(f)\n\tgpr.AF.Hi &= ^uint8(f & 0)\n\tif f == 0xff {\n\t\tgpr.AF.Hi = 0\n\t}",note="A changed for one mask value only")
m("c16-u16-refactor",["C16","C01"],"z80.go","return (uint16(r.Hi) << 8) | uint16(r.Lo)","return uint16(r.Hi)*256 + uint16(r.Lo)",expect="silent",note="equivalent formulation")
# ---- C17
m("c17-mask-bit",["C17"],"internal/zex/doc.go","var DocBITZ80 = Case{\n\t0x53,","var DocBITZ80 = Case{\n\t0x57,")
m("c17-crc-digit",["C17"],"internal/zex/all.go","CRC32(0xa886cc44)","CRC32(0xa886cc45)",note="one expected CRC altered")
m("c17-case-dropped",["C17"],"internal/zex/doc.go","\tDocNEGOP,\n","")
m("c17-shift-vector-bit",["C17"],"internal/zex/doc.go","0xffff, 0xffff, 0xffff, 0xd7, 0x00, 0xffff,","0xffff, 0xffff, 0xfffe, 0xd7, 0x00, 0xffff,",occ=2)
m("c17-test-skips-a-case",["C17"],"z80_test.go","\tfor _, c0 := range zex.AllCases {\n\t\tc := c0\n","\tfor _, c0 := range zex.AllCases {\n\t\tc := c0\n\t\tif c.Desc == \"<daa,cpl,scf,ccf>\" {\n\t\t\tcontinue\n\t\t}\n")
m("c17-test-ranges-prefix",["C17"],"z80_test.go","range zex.DocCases {","range zex.DocCases[:60] {")
m("c17-desc-typo",["C17"],"internal/zex/all.go","\"<rrd,rld>\",","\"<rrd,rld> \",")
m("c17-status-bytes-order",["C17"],"internal/zex/zex.go","\tbuf[6], buf[7] = fromU16(s.IY)\n\tbuf[8], buf[9] = fromU16(s.IX)","\tbuf[6], buf[7] = fromU16(s.IX)\n\tbuf[8], buf[9] = fromU16(s.IY)")
m("c17-table-reordered",["C17"],"internal/zex/doc.go","\tDocADC16,\n\tDocADD16,\n","\tDocADD16,\n\tDocADC16,\n",expect="silent",note="order of the cases is not part of the property")

# ---- C15
m("c15-map-default",["C15"],"memio.go","\t\treturn 0xC7 // RST 0","\t\treturn 0x00 // NOP")
m("c15-dumbmemory-get-off-by-one",["C15","C12"],"memio.go","func (dm DumbMemory) Get(addr uint16) uint8 {\n\tif int(addr) >= len(dm) {","func (dm DumbMemory) Get(addr uint16) uint8 {\n\tif int(addr) > len(dm) {")
m("c15-clone-returns-receiver",["C15"],"memio.go","\tcl := MapMemory{}\n\tfor k, v := range mm {\n\t\tcl[k] = v\n\t}\n\treturn cl","\tcl := mm\n\tfor k, v := range mm {\n\t\tcl[k] = v\n\t}\n\treturn cl",note="the 'copy' shares storage with the original")
m("c15-clear-keeps-zero-keyed",["C15"],"memio.go","\tfor k := range mm {\n\t\tdelete(mm, k)\n\t}","\tfor k, v := range mm {\n\t\tif v != 0 || k != 0 {\n\t\t\tdelete(mm, k)\n\t\t}\n\t}",note="an entry (0 -> 0) survives Clear")
m("c15-put-no-increment",["C15"],"memio.go","\t\tmm[addr] = v\n\t\taddr++\n","\t\tmm[addr] = v\n")
m("c15-put-stops-at-ffff",["C15"],"memio.go","\t\tmm[addr] = v\n\t\taddr++\n","\t\tmm[addr] = v\n\t\tif addr == 0xffff {\n\t\t\tbreak\n\t\t}\n\t\taddr++\n",note="no wrap past 0xFFFF")
m("c15-equal-lengths-only",["C15"],"memio.go","return reflect.DeepEqual(mm, a)","return len(mm) == len(a) && (len(mm) == 0 || reflect.DeepEqual(mm, a))",note="a nil and an empty MapMemory compare equal")
m("c15-dumbio-out-masks-value",["C15"],"memio.go","\tdio[addr] = value\n","\tdio[addr] = value & 0x7f\n")
m("c15-set-stores-at-mirror",["C15"],"memio.go","func (mm MapMemory) Set(addr uint16, v uint8) {\n\tmm[addr] = v","func (mm MapMemory) Set(addr uint16, v uint8) {\n\tmm[addr&0x7fff|addr&0x8000] = v",expect="silent",note="identity written in a roundabout way")
m("c15-get-refactor",["C15"],"memio.go","\tv, ok := mm[addr]\n\tif !ok {\n\t\treturn 0xC7 // RST 0\n\t}\n\treturn v","\tif v, ok := mm[addr]; ok {\n\t\treturn v\n\t}\n\treturn 0xC7",expect="silent")

m("c18-shared-out-buffer",["C18"],"internal/tinycpm/tinycpm.go","\tb := []byte{value}\n\tio.stdout.Write(b)\n","\toutbuf[0] = value\n\tio.stdout.Write(outbuf[:])\n",edits=[{"file":"internal/tinycpm/tinycpm.go","old":"","new":"var outbuf [1]byte\n"}],note="one package-level byte buffer shared by every IO: two machines interleave")
# ---- C19
m("c19-u16-big-endian",["C19"],"cmd/cim2bin/cim2bin.go","\tbuf[0] = uint8(u16)\n\tbuf[1] = uint8(u16 >> 8)","\tbuf[0] = uint8(u16 >> 8)\n\tbuf[1] = uint8(u16)")
m("c19-end-off-by-one",["C19"],"cmd/cim2cas/cim2cas.go","err = writeU16(w, off+uint16(len(b))-1)","err = writeU16(w, off+uint16(len(b)))")
m("c19-exec-word",["C19"],"cmd/cim2bin/cim2bin.go","\terr = writeU16(w, off)\n\tif err != nil {\n\t\treturn err\n\t}\n\n\t// write body","\terr = writeU16(w, off+1)\n\tif err != nil {\n\t\treturn err\n\t}\n\n\t// write body")
m("c19-pad-byte",["C19"],"cmd/cim2cas/cim2cas.go","buf := []byte{0x20, 0x20, 0x20, 0x020, 0x20, 0x20}","buf := []byte{0x20, 0x20, 0x20, 0x00, 0x20, 0x20}")
m("c19-second-header-omitted",["C19"],"cmd/cim2cas/cim2cas.go","\t_, err = w.Write(header)\n\tif err != nil {\n\t\treturn err\n\t}\n\n\t// begin, end and start","\t// begin, end and start")
m("c19-name-truncated-to-5",["C19"],"cmd/cim2cas/cim2cas.go","\tif len(name) > 6 {\n\t\tname = name[:6]\n\t}","\tif len(name) > 5 {\n\t\tname = name[:5]\n\t}")
m("c19-body-patched",["C19"],"cmd/cim2bin/cim2bin.go","\t// write body\n\t_, err = w.Write(b)","\t// write body\n\tif len(b) > 0 && b[0] == 0xFE {\n\t\tb[0] = 0xC3\n\t}\n\t_, err = w.Write(b)",note="image altered when it starts with FE")
m("c19-header-mutated-at-runtime",["C19"],"cmd/cim2cas/cim2cas.go","\tvar off = uint16(off0)\n\tif nam == \"\" {","\tvar off = uint16(off0)\n\tif off == 0 {\n\t\theader = typeBin[:8]\n\t}\n\tif nam == \"\" {")
m("c19-no-flush",["C19"],"cmd/cim2bin/cim2bin.go","\treturn w.Flush()","\treturn nil",note="the buffered tail never reaches the file")
m("c19-u16-two-writebytes-refactor",["C19"],"cmd/cim2bin/cim2bin.go","\tvar buf [2]byte\n\tbuf[0] = uint8(u16)\n\tbuf[1] = uint8(u16 >> 8)\n\t_, err := w.Write(buf[:])\n\treturn err","\tif _, err := w.Write([]byte{uint8(u16)}); err != nil {\n\t\treturn err\n\t}\n\t_, err := w.Write([]byte{uint8(u16 >> 8)})\n\treturn err",expect="silent",note="same bytes, different grouping into writes")
m("c19-ignores-write-error",["C19"],"cmd/cim2bin/cim2bin.go","\terr = w.WriteByte(0xFE)\n\tif err != nil {\n\t\treturn err\n\t}","\t_ = w.WriteByte(0xFE)",note="keeps writing after a failed write: the emitted bytes on the successful path are unchanged, and the property is about those (the earlier rule demanded more than the property states)",expect="silent")
m("c19-end-refactor",["C19"],"cmd/cim2bin/cim2bin.go","err = writeU16(w, off+uint16(len(b))-1)","err = writeU16(w, uint16(len(b)-1)+off)",expect="silent",note="equivalent end address arithmetic")

# ---- C18
m("c18-out-port-1",["C18"],"internal/tinycpm/tinycpm.go","\tif addr != 0 {\n\t\tio.warnl.Printf(\"not impl. I/O Out","\tif addr != 1 {\n\t\tio.warnl.Printf(\"not impl. I/O Out")
m("c18-stub-terminator",["C18"],"internal/tinycpm/tinycpm.go","0x00, 0xc9, 0x1a, 0xfe, 0x24, 0xc8,","0x00, 0xc9, 0x1a, 0xfe, 0x00, 0xc8,",note="string terminator NUL instead of '$'")
m("c18-bdos-misplaced",["C18"],"internal/tinycpm/tinycpm.go","m.put(0xfe06, biosFE06...)","m.put(0xfe00, biosFE06...)")
m("c18-out-modifies-byte",["C18"],"internal/tinycpm/tinycpm.go","\tb := []byte{value}\n","\tb := []byte{value & 0x7f}\n",note="console bytes lose bit 7")
m("c18-stub-prints-dollar",["C18"],"internal/tinycpm/tinycpm.go","0x00, 0xc9, 0x1a, 0xfe, 0x24, 0xc8, 0xd3, 0x00, 0x13, 0x18, 0xf7,","0x00, 0xc9, 0x1a, 0xd3, 0x00, 0xfe, 0x24, 0xc8, 0x13, 0x18, 0xf7,",note="OUT before the compare: the terminator is printed too")
m("c18-stub-push-de",["C18"],"internal/tinycpm/tinycpm.go","\t0x79, 0xfe, 0x02, 0x28, 0x05, 0xfe, 0x09, 0x28, 0x05, 0x76, 0x7b, 0xd3,","\t0x79, 0xfe, 0x02, 0x28, 0x05, 0xfe, 0x09, 0x28, 0x05, 0x76, 0xd5, 0xd3,",note="putchar pushes DE instead of loading A: stack unbalanced, wrong byte")
m("c18-warm-boot-vector",["C18"],"internal/tinycpm/tinycpm.go","\t0xc3, 0x03, 0xff, 0x00, 0x00, 0xc3, 0x06, 0xfe,","\t0xc3, 0x13, 0xff, 0x00, 0x00, 0xc3, 0x06, 0xfe,")
m("c18-in-returns-ff",["C18"],"internal/tinycpm/tinycpm.go","\tio.warnl.Printf(\"not impl. I/O In addr=0x%02x\", addr)\n\treturn 0","\tio.warnl.Printf(\"not impl. I/O In addr=0x%02x\", addr)\n\treturn 0xff",expect="silent",note="the property does not fix the value a port read returns")
m("c18-memory-get-mirror",["C18"],"internal/tinycpm/tinycpm.go","\treturn m.buf[addr]","\treturn m.buf[addr&0xfeff|addr&0x0100]",expect="silent",note="identity in disguise")
m("c18-table-patched-at-runtime",["C18"],"internal/tinycpm/tinycpm.go","func NewIO() *IO {\n","func NewIO() *IO {\n\tif len(os.Args) > 7 {\n\t\tbiosFE06[16] = 0\n\t}\n")

m("c18-setstdout-ignored",["C18"],"internal/tinycpm/tinycpm.go","func (io *IO) SetStdout(w io.Writer) {\n\tio.stdout = w","func (io *IO) SetStdout(w io.Writer) {\n\tif io.stdout == nil {\n\t\tio.stdout = w\n\t}",note="the configured writer is only honoured the first time")

# ---- constant tables and function tables (behaviour-preserving)
_pt = ", ".join("0x04" if bin(i).count("1")%2==0 else "0x00" for i in range(256))
m("c02-parity-table-refactor",["C02","C01","C10","C12"],"accum.go","func (cpu *CPU) updateFlagLogic8(r uint8, and bool) {","var parityTable = [256]uint8{"+_pt+"}\n\nfunc (cpu *CPU) updateFlagLogic8(r uint8, and bool) {",edits=[{"file":"accum.go","old":"\tor |= (uint8(bits.OnesCount8(r)%2) - 1) & maskPV\n\tcpu.AF.Lo = cpu.AF.Lo&^nand | or\n}\n\nfunc (cpu *CPU) updateFlagBitop","new":"\tor |= parityTable[r]\n\tcpu.AF.Lo = cpu.AF.Lo&^nand | or\n}\n\nfunc (cpu *CPU) updateFlagBitop"}],expect="silent",note="parity from a constant package-level table written only by initialisation")
_pt2 = ", ".join("0x04" if (bin(i).count("1")%2==0 and i!=0x5a) else "0x00" for i in range(256))
m("c02-parity-table-one-entry-wrong",["C02","C01"],"accum.go","func (cpu *CPU) updateFlagLogic8(r uint8, and bool) {","var parityTable = [256]uint8{"+_pt2+"}\n\nfunc (cpu *CPU) updateFlagLogic8(r uint8, and bool) {",edits=[{"file":"accum.go","old":"\tor |= (uint8(bits.OnesCount8(r)%2) - 1) & maskPV\n\tcpu.AF.Lo = cpu.AF.Lo&^nand | or\n}\n\nfunc (cpu *CPU) updateFlagBitop","new":"\tor |= parityTable[r]\n\tcpu.AF.Lo = cpu.AF.Lo&^nand | or\n}\n\nfunc (cpu *CPU) updateFlagBitop"}],note="one entry of the table (0x5A) is wrong")
m("c02-parity-table-patched-at-runtime",["C02","C10"],"accum.go","func (cpu *CPU) updateFlagLogic8(r uint8, and bool) {","var parityTable = [256]uint8{"+_pt+"}\n\n// TuneParity lets callers patch the table.\nfunc TuneParity(i, v uint8) { parityTable[i] = v }\n\nfunc (cpu *CPU) updateFlagLogic8(r uint8, and bool) {",edits=[{"file":"accum.go","old":"\tor |= (uint8(bits.OnesCount8(r)%2) - 1) & maskPV\n\tcpu.AF.Lo = cpu.AF.Lo&^nand | or\n}\n\nfunc (cpu *CPU) updateFlagBitop","new":"\tor |= parityTable[r]\n\tcpu.AF.Lo = cpu.AF.Lo&^nand | or\n}\n\nfunc (cpu *CPU) updateFlagBitop"}],note="the table has a writer outside initialisation: shared mutable state")
m("c02-rot-function-table-refactor",["C02","C01","C05","C12"],"operation.go","\t\tcase 0x00:\n\t\t\txopRLCb(cpu)\n","\t\tcase 0x00:\n\t\t\tcpu.BC.Hi = rotOps[c1>>3&7](cpu, cpu.BC.Hi)\n",edits=[{"file":"accum.go","old":"","new":"var rotOps = [8]func(cpu *CPU, a uint8) uint8{(*CPU).rlcU8, (*CPU).rrcU8, (*CPU).rlU8, (*CPU).rrU8, (*CPU).slaU8, (*CPU).sraU8, (*CPU).sl1U8, (*CPU).srlU8}\n"}],expect="silent",note="RLC B dispatched through a constant table of method expressions")

import os
json.dump(M,open(os.path.join(os.path.dirname(os.path.abspath(__file__)),"controls.json"),"w"),indent=1)
print(len(M),"controls")
