package main

import (
	"flag"
	"fmt"
	"os"
	"strings"
	"time"

	"verif/internal/engine"
	"verif/internal/load"
)

func main() {
	debugArms := flag.Bool("debug-arms", false, "")
	only := flag.String("only", "", "")
	mut := flag.String("mut", "", "file|old|new[|occ]")
	flag.Parse()
	t0 := time.Now()
	cfg := load.Config{}
	if *mut != "" {
		f := strings.Split(*mut, "|")
		m := load.Mutant{File: f[0], Old: f[1], New: f[2]}
		if len(f) > 3 {
			fmt.Sscan(f[3], &m.Occurrence)
		}
		ov, ok, err := m.Overlay(load.RepoDir())
		if !ok || err != nil {
			fmt.Println("mutant anchor not found", err)
			os.Exit(3)
		}
		cfg.Overlay = ov
	}
	p, err := load.Load(cfg)
	if err != nil {
		fmt.Println(err)
		os.Exit(2)
	}
	fmt.Printf("loaded in %.1fs\n", time.Since(t0).Seconds())
	e, err := engine.New(p)
	if err != nil {
		fmt.Println(err)
		os.Exit(2)
	}
	fmt.Println("decoder:", e.Exec, "switches:", e.SwitchCases, e.ConstCases, "leaves:", len(e.Leaves))
	if *debugArms {
		t1 := time.Now()
		var results []*engine.ArmResult
		if *only != "" {
			for _, s := range e.AllSpecs() {
				if s.String() == *only {
					results = append(results, e.CompareArm(s))
				}
			}
		} else {
			results = e.CompareAll()
		}
		bad, und, impl := 0, 0, 0
		for _, r := range results {
			if r.Implemented {
				impl++
			}
			if r.Undecided != nil {
				und++
				fmt.Printf("%-12s %-20s %s UNDECIDED %v\n", r.Enc, r.Info.Name, r.Pos, r.Undecided)
				continue
			}
			if len(r.Diffs) > 0 {
				bad++
				fmt.Printf("%-12s %-20s %s [%s] impl=%v\n", r.Enc, r.Info.Name, r.Pos, r.Info.Status, r.Implemented)
				for _, d := range r.Diffs {
					fmt.Println("      ", d)
				}
				if *only != "" {
					fmt.Println("  impl events:", r.ImplEvents)
					fmt.Println("  ref events: ", r.RefEvents)
				}
			} else if *only != "" {
				fmt.Printf("%-12s %-20s %s OK impl=%v %s\n", r.Enc, r.Info.Name, r.Pos, r.Implemented, r.Note)
				fmt.Println("  impl events:", r.ImplEvents)
			}
		}
		fmt.Printf("arms=%d implemented=%d bad=%d undecided=%d in %.1fs\n", len(results), impl, bad, und, time.Since(t1).Seconds())
	}
}
