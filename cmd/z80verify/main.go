// Command z80verify decides the properties of /verif/properties.jsonl for the
// current working tree of /repo by static analysis.
package main

import (
	"flag"
	"fmt"
	"os"
	"runtime/debug"
	"sort"
	"strings"

	"verif/internal/checks"
	"verif/internal/engine"
	"verif/internal/ev"
	"verif/internal/load"
)

func main() {
	prop := flag.String("prop", "", "property id (C01..C19)")
	tier := flag.String("tier", "quick", "quick | thorough")
	mutant := flag.String("mutant", "", "apply the mutant(s) in this JSON file in memory (first entry, or -mutant-id)")
	mutantID := flag.String("mutant-id", "", "select a mutant by id")
	noEv := flag.Bool("no-evidence", false, "do not write evidence files")
	explain := flag.String("explain", "", "re-analyse the construct named in a violation file, verbosely")
	arm := flag.String("arm", "", "debug: analyse one encoding, e.g. \"ED A2\"")
	goarch := flag.String("goarch", "", "analyse for this GOARCH")
	list := flag.Bool("list", false, "list properties with a checker")
	selftest := flag.Bool("selftest", false, "run the control mutants of -prop and report whether the check fires")
	flag.Parse()

	if *list {
		var ids []string
		for id := range checks.Registry {
			ids = append(ids, id)
		}
		sort.Strings(ids)
		fmt.Println(strings.Join(ids, " "))
		return
	}
	if *selftest {
		os.Exit(checks.PrintControls(*prop))
	}
	if v := os.Getenv("VERIF_TIER"); v != "" && *tier == "quick" && (v == "quick" || v == "thorough") {
		*tier = v
	}
	cfg := load.Config{GOARCH: *goarch}
	if *mutant != "" {
		ms, err := load.ReadMutants(*mutant)
		if err != nil {
			fmt.Println("cannot read mutant:", err)
			os.Exit(2)
		}
		var m *load.Mutant
		for i := range ms {
			if *mutantID == "" || ms[i].ID == *mutantID {
				m = &ms[i]
				break
			}
		}
		if m == nil {
			fmt.Println("mutant not found")
			os.Exit(2)
		}
		ov, ok, err := m.Overlay(load.RepoDir())
		if err != nil || !ok {
			fmt.Println("SKIPPED: mutant anchor text not present in the tree", err)
			os.Exit(3)
		}
		cfg.Overlay = ov
		*noEv = true
	}
	if *arm != "" {
		debugArm(cfg, *arm)
		return
	}
	if *explain != "" {
		os.Exit(doExplain(cfg, *explain))
	}
	ck, ok := checks.Registry[*prop]
	if !ok {
		fmt.Printf("no checker for property %q\n", *prop)
		os.Exit(2)
	}
	os.Exit(run(*prop, ck, cfg, *tier, *noEv))
}

func run(prop string, ck checks.Check, cfg load.Config, tier string, noEv bool) (code int) {
	r := ev.New(prop, tier, ck.Level)
	r.NoEvidence = noEv
	defer func() {
		if x := recover(); x != nil {
			r.Fatal = fmt.Sprintf("analyzer panic: %v", x)
			if os.Getenv("VERIF_DEBUG") != "" {
				debug.PrintStack()
			}
			code = r.Finish()
			if code == 0 {
				code = 1
			}
		}
	}()
	cfg.Tests = ck.NeedsTests
	p, err := load.Load(cfg)
	if err != nil {
		r.Fatal = err.Error()
		return r.Finish()
	}
	cx := &checks.Ctx{P: p, Tier: tier, Cfg: cfg}
	if ck.NeedsEngine {
		e, err := engine.New(p)
		if err != nil {
			r.Fatal = err.Error()
			return r.Finish()
		}
		cx.E = e
		cx.InstallResolvers()
	}
	ck.Fn(cx, r)
	if tier == "thorough" && !noEv {
		r.Controls = checks.RunControls(prop)
		if cfg.GOARCH == "" {
			checks.RunOtherArch(prop, r)
		}
	}
	return r.Finish()
}

func debugArm(cfg load.Config, enc string) {
	p, err := load.Load(cfg)
	if err != nil {
		fmt.Println(err)
		os.Exit(2)
	}
	e, err := engine.New(p)
	if err != nil {
		fmt.Println(err)
		os.Exit(2)
	}
	for _, s := range e.AllSpecs() {
		if s.String() != enc {
			continue
		}
		a := e.CompareArm(s)
		fmt.Printf("%s  %s  [%s]  class=%s arm=%s implemented=%v\n", a.Enc, a.Info.Name, a.Info.Status, a.Info.Class, a.Pos, a.Implemented)
		fmt.Println(" functions:", a.Funcs)
		fmt.Println(" impl accesses:", a.ImplEvents)
		fmt.Println(" ref accesses: ", a.RefEvents)
		if a.Undecided != nil {
			fmt.Println(" UNDECIDED:", a.Undecided)
		}
		for _, d := range a.Diffs {
			fmt.Println(" DIFF", d)
		}
		if a.Note != "" {
			fmt.Println(" note:", a.Note)
		}
	}
}

func doExplain(cfg load.Config, path string) int {
	b, err := os.ReadFile(path)
	if err != nil {
		fmt.Println(err)
		return 2
	}
	fmt.Println(string(b))
	s := string(b)
	if i := strings.Index(s, "arm="); i >= 0 {
		rest := s[i+4:]
		if j := strings.Index(rest, " ("); j >= 0 {
			debugArm(cfg, rest[:j])
		}
	}
	return 0
}
