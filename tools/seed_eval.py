#!/usr/bin/env python3
"""Confirms a candidate seeded change and records it under /verif/seeded/<id>/.

usage: seed_eval.py <id> <property> <patch.diff> <demo_test.go> <notes.md> [pkgdir]

Steps (all in a scratch worktree of /repo outside /repo and /verif, removed afterwards):
  1. patch applies, tree builds, the pinned test suite passes with it;
  2. the demonstration FAILS with the change and PASSES without it;
  3. every registered check is run against the changed tree (VERIF_REPO=<worktree>, -no-evidence)
     and the ones that fire are recorded.
"""
import json, os, shutil, subprocess, sys, re, time

ident, prop, patch, demo, notes = sys.argv[1:6]
pkgdir = sys.argv[6] if len(sys.argv) > 6 else "."
env = dict(os.environ, GOFLAGS="-mod=mod", GOPROXY="off", GOSUMDB="off", GOTOOLCHAIN="local", GOWORK="off")
wt = "/tmp/sv/" + ident
os.makedirs("/tmp/sv", exist_ok=True)
subprocess.run(["git", "-C", "/repo", "worktree", "remove", "--force", wt], capture_output=True)
subprocess.run(["git", "-C", "/repo", "worktree", "add", "-q", "--detach", wt, "HEAD"], check=True)

def sh(cmd, cwd=wt, e=env, timeout=1500):
    p = subprocess.run(cmd, shell=True, cwd=cwd, env=e, capture_output=True, text=True, timeout=timeout)
    return p.returncode, (p.stdout + p.stderr)

res = {"id": ident, "property": prop, "ran_at_repo_commit": subprocess.run(["git", "-C", "/repo", "rev-parse", "--short", "HEAD"], capture_output=True, text=True).stdout.strip()}
try:
    rc, out = sh(f"git apply {patch}")
    res["patch_applies"] = rc == 0
    if rc != 0:
        raise SystemExit("patch does not apply: " + out)
    rc, out = sh("go build ./...")
    res["builds"] = rc == 0
    rc, out = sh("go test -vet=off -count=1 ./... 2>&1 | tail -15")
    res["suite_passes_with_change"] = ("FAIL" not in out) and ("ok  \tgithub.com/koron-go/z80" in out)
    res["suite_tail"] = out[-600:]
    demoname = os.path.basename(demo)
    if not demoname.endswith("_test.go"):
        demoname += "_test.go"
    target = os.path.join(wt, pkgdir, "zz_seeded_" + demoname)
    shutil.copy(demo, target)
    m = re.findall(r"func (TestSeeded\w*)", open(demo).read())
    runpat = "|".join(m) if m else "TestSeeded"
    rc, out = sh(f"go test -vet=off -count=1 -run '{runpat}' ./{pkgdir} 2>&1 | tail -25")
    res["demo_fails_with_change"] = ("FAIL" in out) and ("[build failed]" not in out) and ("no tests to run" not in out)
    res["demo_output_with_change"] = out[-900:]
    # checks against the changed tree
    os.remove(target)
    fired, outputs = [], {}
    props = subprocess.run(["/verif/bin/z80verify", "-list"], capture_output=True, text=True).stdout.split()
    import concurrent.futures
    def runcheck(p):
        e2 = dict(env, VERIF_REPO=wt, VERIF_DIR="/verif")
        pr = subprocess.run(["/verif/bin/z80verify", "-prop", p, "-no-evidence"], cwd="/verif", env=e2, capture_output=True, text=True, timeout=1200)
        return p, pr.returncode, pr.stdout
    with concurrent.futures.ThreadPoolExecutor(max_workers=5) as ex:
        for p, rc, out in ex.map(runcheck, props):
            if rc != 0:
                fired.append(p)
                keys = [l.strip() for l in out.splitlines() if "kind=" in l][:4]
                outputs[p] = keys
    res["checks_fired"] = fired
    res["first_reports"] = outputs
    res["caught_by_own_property_check"] = prop in fired
    # without the change
    sh("git checkout -- . && git clean -fdq")  # (a combined patch may add files: they must go too)
    shutil.copy(demo, target)
    rc, out = sh(f"go test -vet=off -count=1 -run '{runpat}' ./{pkgdir} 2>&1 | tail -8")
    res["demo_passes_without_change"] = rc == 0 and "ok" in out and "no tests to run" not in out
    res["demo_output_without_change"] = out[-300:]
    os.remove(target)
finally:
    subprocess.run(["git", "-C", "/repo", "worktree", "remove", "--force", wt], capture_output=True)
    subprocess.run("go clean -testcache", shell=True, env=env, capture_output=True)

ok = all(res.get(k) for k in ["patch_applies", "builds", "suite_passes_with_change", "demo_fails_with_change", "demo_passes_without_change"])
res["confirmed"] = ok
print(json.dumps({k: res[k] for k in res if k not in ("suite_tail", "demo_output_with_change", "demo_output_without_change")}, indent=1))
if ok:
    d = "/verif/seeded/" + ident
    os.makedirs(d, exist_ok=True)
    shutil.copy(patch, d + "/patch.diff")
    shutil.copy(demo, d + "/" + os.path.basename(demo).replace(".go", ".go.txt"))
    shutil.copy(notes, d + "/notes.md")
    meta = {"id": ident, "breaks_property": prop, "needs_to_manifest": open(notes).read()[:1500],
            "demo_package_dir": pkgdir,
            "what_was_run": ["git apply patch.diff in a scratch worktree of /repo", "go build ./...", "go test -vet=off -count=1 ./...  (suite passes with the change)",
                             "demonstration test: fails with the change, passes without", "every registered check with VERIF_REPO=<worktree> -no-evidence"],
            "results": res}
    json.dump(meta, open(d + "/meta.json", "w"), indent=1)
    print("recorded", d)
else:
    print("NOT CONFIRMED")
