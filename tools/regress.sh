#!/bin/sh
# Runs every registered check on the unchanged tree (must PASS) and, with
# "full", every control mutant (must behave as expected).
cd "$(dirname "$0")/.."
fail=0
for p in $(./bin/z80verify -list); do
  out=$(./check $p quick | tail -1)
  echo "$out"
  case "$out" in PASS*) ;; *) fail=1 ;; esac
done
if [ "${1:-}" = "full" ]; then
  for p in $(./bin/z80verify -list); do
    out=$(./bin/z80verify -selftest -prop $p | grep -v "^ok")
    echo "$out"
    case "$out" in *"not-as-expected=0"*) ;; *) fail=1 ;; esac
  done
fi
[ $fail = 0 ] && echo "REGRESS OK" || echo "REGRESS FAILED"
exit $fail
