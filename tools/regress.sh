#!/bin/sh
# Runs every registered check on the unchanged tree (must PASS) and, with
# "full", every control mutant (must behave as expected).
cd "$(dirname "$0")/.."
fail=0
for p in $(./bin/z80verify -list); do
  out=$(./check $p quick | tail -1)
  echo "$out"
  case "$out" in PASS*) ;; *) fail=1 ;; esac
done
if [ "${1:-}" = "full" ]; then
  for p in $(./bin/z80verify -list); do
    out=$(./bin/z80verify -selftest -prop $p | grep -v "^ok")
    echo "$out"
    case "$out" in *"not-as-expected=0"*) ;; *) fail=1 ;; esac
  done
fi
# the evidence files the checks have just written and the manifest are valid against their schemas
python3-vt - <<'PY' || fail=1
import json, glob, sys, jsonschema
ok = True
try:
    jsonschema.validate(json.load(open('/verif/MANIFEST.json')), json.load(open('/root/.vp/MANIFEST.schema.json')))
except Exception as e:
    ok = False; print('MANIFEST invalid:', str(e)[:300])
sch = json.load(open('/root/.vp/EVIDENCE.schema.json'))
n = 0
for f in sorted(glob.glob('/verif/evidence/C*.json')):
    try:
        jsonschema.validate(json.load(open(f)), sch); n += 1
    except Exception as e:
        ok = False; print(f, 'invalid:', str(e)[:300])
print('schemas: manifest + %d evidence files valid' % n if ok else 'schemas: INVALID')
sys.exit(0 if ok and n == 19 else 1)
PY
[ $fail = 0 ] && echo "REGRESS OK" || echo "REGRESS FAILED"
exit $fail
