#!/bin/sh
# seed_batch.sh <prop> : evaluates /tmp/wt/<prop>/out/{patch,demo,notes}{1,2}
p=$1
for i in 1 2; do
  d=/tmp/wt/$p/out
  [ -f $d/patch$i.diff ] || continue
  pkg=$(head -1 $d/notes$i.md | sed -n 's/^package-dir: *//p'); [ -z "$pkg" ] && pkg=.
  sfx=$(echo $i | tr 12 ${SFX:-ab})
  python3 /verif/tools/seed_eval.py $p-$sfx $p $d/patch$i.diff $d/demo${i}_test.go $d/notes$i.md $pkg 2>&1 | python3 -c "
import sys,json
t=sys.stdin.read()
try:
    j=json.loads(t[:t.rindex('}')+1])
    print(j['id'], 'confirmed=',j['confirmed'], 'fired=',j.get('checks_fired'), 'own=',j.get('caught_by_own_property_check'))
    own=j['property']
    ks=j.get('first_reports',{}).get(own)
    if ks: print('   ',own, ks[0][:220])
    if not j['confirmed']: print({k:j[k] for k in j if k.startswith(('patch','builds','suite','demo'))})
except Exception as e:
    print('ERR', e, t[-800:])
"
done
