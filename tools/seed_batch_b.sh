#!/bin/sh
# seed_batch_b.sh <Bnn> : seeds written on top of a refactored baseline
# (/tmp/wt/baselines.json).  Builds the combined patch (refactor + bug) relative
# to /repo HEAD and evaluates it like any other seed, ids C<nn>-g / C<nn>-h.
b=$1
if [ -f /tmp/wt/baselines7.json ] && python3 -c "import json,sys;sys.exit(0 if '$b' in json.load(open('/tmp/wt/baselines7.json')) else 1)"; then
  nn=$(python3 -c "import json;print(json.load(open('/tmp/wt/baselines7.json'))['$b']['prop'][1:])")
  ref=$(python3 -c "import json;print(json.load(open('/tmp/wt/baselines7.json'))['$b']['ref'])")
  case $b in E2*|E3*) SFXMAP=op ;; *) SFXMAP=mn ;; esac
  s2=$(python3 -c "import json;print(json.load(open('/tmp/wt/baselines7.json'))['$b'].get('sfx',''))")
  [ -n "$s2" ] && SFXMAP=$s2
elif [ -f /tmp/wt/baselines6.json ] && python3 -c "import json,sys;sys.exit(0 if '$b' in json.load(open('/tmp/wt/baselines6.json')) else 1)"; then
  nn=$(python3 -c "import json;print(json.load(open('/tmp/wt/baselines6.json'))['$b']['prop'][1:])")
  ref=$(python3 -c "import json;print(json.load(open('/tmp/wt/baselines6.json'))['$b']['ref'])")
  case $b in D2*|D3*) SFXMAP=kl ;; *) SFXMAP=ij ;; esac
else
  nn=$(echo $b | sed 's/^B//')
  ref=$(python3 -c "import json;print(json.load(open('/tmp/wt/baselines.json'))['$b'])")
  SFXMAP=gh
fi
for i in 1 2; do
  d=/tmp/wt/$b/out
  [ -f $d/patch$i.diff ] || continue
  wt=/tmp/sv/comb-$b-$i
  git -C /repo worktree remove --force $wt 2>/dev/null
  git -C /repo worktree add -q --detach $wt HEAD || continue
  ( cd $wt && git apply /verif/refactors/$ref/patch.diff && git apply $d/patch$i.diff && git add -A && git diff --binary --cached HEAD > /tmp/sv/comb-$b-$i.diff )
  ok=$?
  git -C /repo worktree remove --force $wt
  [ $ok = 0 ] || { echo "$b patch$i: cannot combine"; continue; }
  pkg=$(head -1 $d/notes$i.md | sed -n 's/^package-dir: *//p'); [ -z "$pkg" ] && pkg=.
  sfx=$(echo $i | tr 12 $SFXMAP)
  printf '\n\n(baseline: this change was written on top of the behaviour-preserving refactor %s; patch.diff is refactor + change relative to the pinned tree)\n' "$ref" >> $d/notes$i.md
  python3 /verif/tools/seed_eval.py C$nn-$sfx C$nn /tmp/sv/comb-$b-$i.diff $d/demo${i}_test.go $d/notes$i.md $pkg 2>&1 | python3 -c "
import sys,json
t=sys.stdin.read()
try:
    j=json.loads(t[:t.rindex('}')+1])
    print(j['id'], 'confirmed=',j['confirmed'], 'fired=',j.get('checks_fired'), 'own=',j.get('caught_by_own_property_check'))
    own=j['property']
    ks=j.get('first_reports',{}).get(own)
    if ks: print('   ',own, ks[0][:220])
    if not j['confirmed']: print({k:j[k] for k in j if k.startswith(('patch','builds','suite','demo'))})
except Exception as e:
    print('ERR', e, t[-800:])
"
done
