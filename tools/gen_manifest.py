#!/usr/bin/env python3
"""Regenerates /verif/MANIFEST.json from the table below (kept in one place so
that levels, notes and the not_applicable list stay current)."""
import json, os
here = os.path.dirname(os.path.dirname(os.path.abspath(__file__)))
ids = [json.loads(l)["id"] for l in open(os.path.join(here, "properties.jsonl"))]

TB = "Trusted base: go/packages+go/types+go/ssa (x/tools v0.29.0) as the model of Go; verif/internal/{bdd,dom,absint} (canonical bit-vector domain and SSA abstract interpreter, ~2.4k lines, exercised by positive and negative control mutants)"
ISA = "; verif/internal/isa (reference description of the Z80, ~1k lines, written independently from the Zilog manual, organised by octal opcode fields)"
CB = ". Assumes Memory/IO/handler callbacks return and leave the CPU alone during a Step (except CPU.Interrupt). The Go compiler is out of scope."

C = {}
def chk(id, cat, text, note, tech, design):
    C[id] = dict(property_id=id, quick_cmd=f"./check {id} quick", thorough_cmd=f"./check {id} thorough",
                 evidence_file=f"/verif/evidence/{id}.json", replay_cmd_template=f"./check {id} --explain {{path}}",
                 engine="z80verify", level_claimed=dict(category=cat, text=text, design_ref=design), level_note=note, technique=tech)

SUMM = "abstract interpretation of the decoder's SSA over a canonical bit-vector domain (one forward pass, states merged at joins), specialised per opcode-byte prefix; summaries compared for equality with an independent reference model's"
chk("C01","proof","For each of the 1786 opcode-byte prefixes the closed-form summary of the decoder (every CPU field and every memory/port write as a boolean-function vector of the pre-state and of the bytes devices return) equals the reference model's: a universally quantified statement over all pre-states per encoding, discharged by equality of canonical forms; undecided constructs fail.",
    TB+ISA+CB, SUMM, "DESIGN.md 5/C01")
chk("C02","proof","A, F (bitwise, minus the bits the property declares unspecified) and the written operand of all 559 8-bit ALU/rotate/shift/bit arms equal the reference as functions of A, operand and incoming F (the whole cube symbolically); sibling congruence shows all operand encodings of one operation compute one function.",
    TB+ISA+CB, SUMM+"; sibling congruence by substitution", "DESIGN.md 5/C02")
chk("C03","proof","Result and F of the 32 16-bit arithmetic / INC / DEC arms equal the reference (17-bit sum, H/C/V/Z/S definitions in textbook form) as functions of both operands and carry.",
    TB+ISA+CB, SUMM, "DESIGN.md 5/C03")
chk("C04","proof","Taken-guards of all conditional JP/JR/CALL/RET and DJNZ equal the condition table as functions of F (B-1), untaken paths only advance PC, pushes/pops are compared as (address,value) events modulo 2^16, F untouched; PUSH;POP and CALL;RET identities on the composed reference.",
    TB+ISA+CB, SUMM, "DESIGN.md 5/C04")
chk("C05","proof","The complete guarded multiset of Memory.Get/Set and IO.In/Out calls of every prefix (fetches at PC+k once each, data accesses, ports and values) equals the reference's, as a canonical multiset-valued function of the pre-state; anything else that could reach a device is undecided and fails.",
    TB+ISA+CB, SUMM+"; canonical multiset characteristic functions for call lists", "DESIGN.md 5/C05")
chk("C06","proof","The full single-Step transition relation w.r.t. the pending request (summary of (*CPU).Step with the decoder opaque) equals the reference decision table over IsNil(Interrupt) x Type x IFF1 x IM x len(Data)>0 for all register states; mode 0 is decided for RST p / CALL nn with the decoder interpreted in line through the overlay; EI/DI/IM/RETN/RETI arms and handler notification sites equal the reference.",
    TB+ISA+CB+" Mode-0/2 requests with empty data are outside the rows (C12).", SUMM+"; row-wise comparison under care sets", "DESIGN.md 5/C06")
chk("C07","other","Decides the property's own equivalent formulation for all states: the word pushed on NMI/IM1/IM2/IM0(RST,CALL) acceptance is PC at Step entry; after every arm PC is the next instruction, the transfer target or the instruction's own address (block repeat, HALT); RET/RETI/RETN/EI restore. The two-run hyperproperty over programs and injection points is NOT decided. Known finding F3 (mode 0 pushes PC+1/PC+3) is listed in known_findings.txt.",
    TB+ISA+CB, SUMM, "DESIGN.md 5/C07")
chk("C09","other","Decides for all states: each of the 16 block arms performs exactly one element and leaves PC on the instruction exactly under the reference repeat predicate; no loop below Step (one element per Step). The whole-operation statement follows by the induction in DESIGN.md appendix A.1, which is not machine-checked.",
    TB+ISA+CB, SUMM+"; R-DAG loop-freedom", "DESIGN.md 5/C09")
chk("C11","proof","For all 255 DD/FD and 256 DDCB/FDCB opcodes the FD arm summarised from the IX/IY-exchanged state equals the DD arm with IX/IY exchanged back, including the ordered guarded access sequence; the DD arm's outputs have no IY in their support. No reference model involved.",
    TB+CB, "summary equality between sibling arms under register exchange; support analysis", "DESIGN.md 5/C11")
chk("C14","proof","R after each of the 1786 prefixes equals the reference (one step per opcode fetch, mod 128, bit 7 kept; 2 or 3 for DDCB/FDCB), I unchanged, LD A,I/A,R/I,A/R,A equal the reference; the opcode-fetch helper's own summary; every store to IR in the package lies below the decoder (who-may-write).",
    TB+ISA+CB, SUMM+"; R-WRITERS who-may-write scan", "DESIGN.md 5/C14")

m = {"version": 1,
     "setup_cmd": "GOFLAGS=-mod=mod GOPROXY=off GOSUMDB=off GOTOOLCHAIN=local GOWORK=off go build -o bin/z80verify ./cmd/z80verify",
     "hooks": {"guard": "verif", "enable": "none needed: the checks analyse /repo's sources (go/packages -> go/types -> go/ssa); nothing is compiled into a test binary, so there are no hooks",
               "baseline_off_cmd": "cd /repo && go test -json -vet=off -count=1 ./...", "source_commits": [], "add_only": True},
     "engines": [{"name": "z80verify", "path": "/verif/cmd/z80verify", "serves_properties": sorted(C.keys()),
                  "kind_free_text": "static analyzer: go/ssa abstract interpreter over a canonical (BDD) bit-vector domain + independent reference ISA model + shape rules (who-may-write, CFG automaton, guard dominance, call-graph acyclicity)"}],
     "checks": [C[i] for i in ids if i in C],
     "not_applicable": [{"property_id": i, "reason": "checker not built yet (build in progress, see DESIGN.md section 9)"} for i in ids if i not in C],
     "notes": "Every check loads and type-checks /repo's current working tree on each run; undecided or unresolved constructs fail the check. known_findings.txt lists genuine defects (3 repaired by fix: commits in /repo, 1 recorded)."}
json.dump(m, open(os.path.join(here, "MANIFEST.json"), "w"), indent=1)
print("checks:", len(C), "not_applicable:", len(m["not_applicable"]))
