#!/usr/bin/env python3
"""Regenerates /verif/MANIFEST.json from the table below (kept in one place so
that levels, notes and the not_applicable list stay current)."""
import json, os
here = os.path.dirname(os.path.dirname(os.path.abspath(__file__)))
ids = [json.loads(l)["id"] for l in open(os.path.join(here, "properties.jsonl"))]

TB = "Trusted base: go/packages+go/types+go/ssa (x/tools v0.29.0) as the model of Go; verif/internal/{bdd,dom,absint} (canonical bit-vector domain and SSA abstract interpreter, ~2.4k lines, exercised by positive and negative control mutants)"
ISA = "; verif/internal/isa (reference description of the Z80, ~1k lines, written independently from the Zilog manual, organised by octal opcode fields)"
CB = ". Assumes Memory/IO/handler callbacks return and leave the CPU alone during a Step (except CPU.Interrupt). The Go compiler is out of scope."

C = {}
def chk(id, cat, text, note, tech, design):
    C[id] = dict(property_id=id, quick_cmd=f"./check {id} quick", thorough_cmd=f"./check {id} thorough",
                 evidence_file=f"/verif/evidence/{id}.json", replay_cmd_template=f"./check {id} --explain {{path}}",
                 engine="z80verify", level_claimed=dict(category=cat, text=text, design_ref=design), level_note=note, technique=tech)

SUMM = "abstract interpretation of the decoder's SSA over a canonical bit-vector domain (one forward pass, states merged at joins), specialised per opcode-byte prefix; summaries compared for equality with an independent reference model's"
chk("C01","proof","For each of the 1786 opcode-byte prefixes the closed-form summary of the decoder (every CPU field and every memory/port write as a boolean-function vector of the pre-state and of the bytes devices return) equals the reference model's: a universally quantified statement over all pre-states per encoding, discharged by equality of canonical forms; undecided constructs fail.",
    TB+ISA+CB, SUMM, "DESIGN.md 5/C01")
chk("C02","proof","A, F (bitwise, minus the bits the property declares unspecified) and the written operand of all 559 8-bit ALU/rotate/shift/bit arms equal the reference as functions of A, operand and incoming F (the whole cube symbolically); sibling congruence shows all operand encodings of one operation compute one function.",
    TB+ISA+CB, SUMM+"; sibling congruence by substitution", "DESIGN.md 5/C02")
chk("C03","proof","Result and F of the 32 16-bit arithmetic / INC / DEC arms equal the reference (17-bit sum, H/C/V/Z/S definitions in textbook form) as functions of both operands and carry.",
    TB+ISA+CB, SUMM, "DESIGN.md 5/C03")
chk("C04","proof","Taken-guards of all conditional JP/JR/CALL/RET and DJNZ equal the condition table as functions of F (B-1), untaken paths only advance PC, pushes/pops are compared as (address,value) events modulo 2^16, F untouched; PUSH;POP and CALL;RET identities on the composed reference.",
    TB+ISA+CB, SUMM, "DESIGN.md 5/C04")
chk("C05","proof","The complete guarded multiset of Memory.Get/Set and IO.In/Out calls of every prefix (fetches at PC+k once each, data accesses, ports and values) equals the reference's, as a canonical multiset-valued function of the pre-state; anything else that could reach a device is undecided and fails.",
    TB+ISA+CB, SUMM+"; canonical multiset characteristic functions for call lists", "DESIGN.md 5/C05")
chk("C06","proof","The full single-Step transition relation w.r.t. the pending request (summary of (*CPU).Step with the decoder opaque) equals the reference decision table over IsNil(Interrupt) x Type x IFF1 x IM x len(Data)>0 for all register states; mode 0 is decided for RST p / CALL nn with the decoder interpreted in line through the overlay; EI/DI/IM/RETN/RETI arms and handler notification sites equal the reference.",
    TB+ISA+CB+" Mode-0/2 requests with empty data are outside the rows (C12).", SUMM+"; row-wise comparison under care sets", "DESIGN.md 5/C06")
chk("C07","other","Decides the property's own equivalent formulation for all states: the word pushed on NMI/IM1/IM2/IM0(RST,CALL) acceptance is PC at Step entry; after every arm PC is the next instruction, the transfer target or the instruction's own address (block repeat, HALT); RET/RETI/RETN/EI restore. The two-run hyperproperty over programs and injection points is NOT decided. Known finding F3 (mode 0 pushes PC+1/PC+3) is listed in known_findings.txt.",
    TB+ISA+CB, SUMM, "DESIGN.md 5/C07")
chk("C09","other","Decides for all states: each of the 16 block arms performs exactly one element and leaves PC on the instruction exactly under the reference repeat predicate; no loop below Step (one element per Step). The whole-operation statement follows by the induction in DESIGN.md appendix A.1, which is not machine-checked.",
    TB+ISA+CB, SUMM+"; R-DAG loop-freedom", "DESIGN.md 5/C09")
chk("C11","proof","For all 255 DD/FD and 256 DDCB/FDCB opcodes the FD arm summarised from the IX/IY-exchanged state equals the DD arm with IX/IY exchanged back, including the ordered guarded access sequence; the DD arm's outputs have no IY in their support. No reference model involved.",
    TB+CB, "summary equality between sibling arms under register exchange; support analysis", "DESIGN.md 5/C11")
chk("C14","proof","R after each of the 1786 prefixes equals the reference (one step per opcode fetch, mod 128, bit 7 kept; 2 or 3 for DDCB/FDCB), I unchanged, LD A,I/A,R/I,A/R,A equal the reference; the opcode-fetch helper's own summary; every store to IR in the package lies below the decoder (who-may-write).",
    TB+ISA+CB, SUMM+"; R-WRITERS who-may-write scan", "DESIGN.md 5/C14")

SHAPE = "Trusted base: go/packages+go/types+go/ssa (x/tools v0.29.0); the rule implementations in verif/internal/rules and verif/internal/checks (event recognisers, product exploration, dominance/guard rules), exercised by positive and negative control mutants"
chk("C08","proof","Language inclusion of Run's CFG (projected on the recognised events: entry store HALT=false, cancellation test, static call of Step on the receiver, comma-ok lookup of PC in BreakPoints, test of HALT, classified returns) in  H0 (C?f S B?f H?f)* (C?t Rctx | C?f S B?t Rbp | C?f S B?f H?t Rnil); the loads feeding the tests execute after the Step of the same iteration; Run touches the CPU only through Step; only HALT arms set the indication and leave PC on the opcode (summary equality).",
    SHAPE+"; C01/C06 for what one Step does"+CB, "CFG automaton (product construction over go/ssa blocks) + who-may-write + arm summaries", "DESIGN.md 5/C08")
chk("C10","proof","Effect analysis: below Step/Run every store is rooted in a parameter or local cell, no package-level variable is written anywhere outside initialisation, external calls are a whitelist; the support of all 1786 arm summaries contains only States fields, device bytes and nil-ness of IO/handlers; States has no reference-typed component and CPU no unexported field. Hence determinism, snapshotability and isolation for every interleaving. The dynamic race detector is not used.",
    TB+"; verif/internal/rules (effects, writers, types)"+CB+" log.Printf is process-global but internally locked and write-only.", "effect / who-may-write analysis over go/ssa, go/types queries, support (read-set) extraction from summaries", "DESIGN.md 5/C10")
chk("C12","other","Complete enumeration of the 2231 SSA instructions below Step, Run and the bundled accessors that can panic in Go, each discharged by a guard-dominance / by-construction / by-type / precondition rule (incl. across the Step->processInterrupt call, with calls and aliasing stores as killers); acyclic loop-free call graph below Step; Run's exit on HALT; all rows of the request table (empty data, any IM) decided without panic; 856 unsupported prefixes shown to be consumed and logged only. Relative to the stated preconditions and the callback assumption, hence 'other'.",
    SHAPE+"; summary engine for unsupported-opcode arms"+CB+" Preconditions: cpu != nil, cpu.Memory != nil, non-nil MapMemory, ctx != nil.", "panic-site enumeration with guard-dominance discharge rules; call-graph acyclicity; summaries of default arms", "DESIGN.md 5/C12")
chk("C13","other","Structural: every loop iteration tests cancellation before its Step and a positive test returns the context's error with no further Step; the watcher goroutine captures only local cells, waits on the derived context, records the error then publishes with an atomic store; Run reads the flag only atomically and the error only after a positive test; the derived cancel is deferred before the goroutine starts and runs on every return; Run changes the CPU only by whole Steps. The real-time bound (scheduler latency) and races inside user callbacks are NOT decided.",
    SHAPE+"; context and sync/atomic library semantics (Go memory model)", "CFG automaton + closure protocol/dominance checks over go/ssa", "DESIGN.md 5/C13")
chk("C15","other","All eleven methods of DumbMemory/DumbIO/MapMemory summarised over symbolic slice/map handles (element/lookup/insert/delete as guarded events, loops by initial values + one body + back-edge values) and compared with the defining formulas for all addresses, values and lengths. The for-all-histories statement rests on Go's slice/map/copy/DeepEqual semantics, which are trusted.",
    TB+"; Go slice/map/copy/range/reflect.DeepEqual semantics", "abstract interpretation with data-structure events; loop-body summaries", "DESIGN.md 5/C15")
chk("C16","proof","GetFlag/SetFlag/ResetFlag/U16/SetU16 summarised with mask and value as atoms; results and post-states equal the defining per-bit formulas for every mask, F and register content, frame included; exported flag constants evaluated with go/types.",
    TB, "abstract interpretation (summary equality), go/types constant evaluation", "DESIGN.md 5/C16")
chk("C17","translation_validation","Exhaustive agreement of the one translation that exists (asm source -> image -> Go table): each of the 2x67 Go cases (go/types constant evaluation) equals byte for byte one record parsed from the shipped .cim image (and, thorough, the tstr/db/tmsg record of the .asm), nothing left over; images' sha256 pinned; no writer of the tables; tests range over exactly the tables unfiltered; Status.Bytes layout summarised. Iter.Status/Maxes (an algorithm) NOT decided.",
    "Trusted base: go/types constant evaluation; the record parser in verif/internal/checks/c17.go; the pinned digests; verif/internal/isa for instruction lengths of the start sequence", "table agreement (go/types constants vs image records vs asm records) + AST/SSA who-may-write", "DESIGN.md 5/C17")
chk("C19","other","run() of cim2bin and cim2cas interpreted (after package init) with the buffered writer as an event sink and a whitelist of library models; the ordered guarded write sequence equals the container layout as a function of offset, file length, name bytes and error results; the body is the very slice ReadFile returned. flag/os/bufio behaviour is trusted.",
    TB+"; models of flag.*Var/Parse, os.ReadFile, os.Create, bufio.NewWriter, (*bufio.Writer).Write/WriteByte/Flush", "abstract interpretation with an event sink; canonical sequence comparison", "DESIGN.md 5/C19")
chk("C18","other","Partly decided: the memory image NewMemory builds (by interpreting package init and NewMemory) decodes to JP FF03h / JP bdos with HALT at FF03h; the BDOS stub's machine code is explored path by path with the reference model (function 2: OUT (0),E then RET; function 9: read (DE), RET at '$', else OUT, INC DE, loop; no memory write; SP restored) and one loop iteration from an arbitrary state is summarised; IO.Out/IO.In/Memory.Get/Set summarised on the Go side. The for-all-strings statement (induction over the string, appendix A.2), console writer errors and cmd/zexdoc's use are NOT decided.",
    TB+ISA+"; C01 (the emulator executes each opcode as the reference model says); io.Writer/log.Logger library semantics", "abstract interpretation of the Go side + symbolic path exploration of the installed Z80 machine code with the reference model", "DESIGN.md 5/C18")

m = {"version": 1,
     "setup_cmd": "GOFLAGS=-mod=mod GOPROXY=off GOSUMDB=off GOTOOLCHAIN=local GOWORK=off go build -o bin/z80verify ./cmd/z80verify",
     "hooks": {"guard": "verif", "enable": "none needed: the checks analyse /repo's sources (go/packages -> go/types -> go/ssa); nothing is compiled into a test binary, so there are no hooks",
               "baseline_off_cmd": "cd /repo && go test -json -vet=off -count=1 ./...", "source_commits": [], "add_only": True},
     "engines": [{"name": "z80verify", "path": "/verif/cmd/z80verify", "serves_properties": sorted(C.keys()),
                  "kind_free_text": "static analyzer: go/ssa abstract interpreter over a canonical (BDD) bit-vector domain + independent reference ISA model + shape rules (who-may-write, CFG automaton, guard dominance, call-graph acyclicity)"}],
     "checks": [C[i] for i in ids if i in C],
     "not_applicable": [{"property_id": i, "reason": "checker not built yet (build in progress, see DESIGN.md section 9)"} for i in ids if i not in C],
     "notes": "Every check loads and type-checks /repo's current working tree on each run; undecided or unresolved constructs fail the check. known_findings.txt lists genuine defects (3 repaired by fix: commits in /repo, 1 recorded)."}
json.dump(m, open(os.path.join(here, "MANIFEST.json"), "w"), indent=1)
print("checks:", len(C), "not_applicable:", len(m["not_applicable"]))
