#!/usr/bin/env python3
"""Re-runs, for every /verif/seeded/<id>, the check of the property it breaks
against a scratch worktree of /repo with the change applied (VERIF_REPO), and
reports whether the check still fires.  Worktrees are removed afterwards."""
import json, os, subprocess, sys, glob, concurrent.futures
env = dict(os.environ, GOFLAGS="-mod=mod", GOPROXY="off", GOSUMDB="off", GOTOOLCHAIN="local", GOWORK="off", VERIF_DIR="/verif")
ids = sorted(os.path.basename(d) for d in glob.glob("/verif/seeded/*") if os.path.isdir(d))
if len(sys.argv) > 1:
    ids = [i for i in ids if any(i.startswith(a) for a in sys.argv[1:])]
def one(i):
    meta = json.load(open(f"/verif/seeded/{i}/meta.json"))
    prop = meta["breaks_property"]
    wt = f"/tmp/sv/re-{i}"
    subprocess.run(["git", "-C", "/repo", "worktree", "remove", "--force", wt], capture_output=True)
    subprocess.run(["git", "-C", "/repo", "worktree", "add", "-q", "--detach", wt, "HEAD"], check=True)
    try:
        a = subprocess.run(["git", "apply", f"/verif/seeded/{i}/patch.diff"], cwd=wt, capture_output=True, text=True)
        if a.returncode != 0:
            return i, prop, "PATCH-DOES-NOT-APPLY", ""
        p = subprocess.run(["/verif/bin/z80verify", "-prop", prop, "-no-evidence"], cwd="/verif", env=dict(env, VERIF_REPO=wt), capture_output=True, text=True)
        key = next((l.strip() for l in p.stdout.splitlines() if "key=" in l and "KNOWN-FINDING" not in l), "")
        # keep the record current: what the own-property check says today
        meta.setdefault("results", {})["own_check_today"] = {"outcome": "fired" if p.returncode == 1 else "silent", "first_report": key[:300],
            "verif_commit": subprocess.run(["git", "-C", "/verif", "rev-parse", "--short", "HEAD"], capture_output=True, text=True).stdout.strip()}
        if p.returncode == 1:
            meta["results"]["caught_by_own_property_check"] = True
            fired = meta["results"].get("checks_fired") or []
            if prop not in fired:
                meta["results"]["checks_fired"] = sorted(fired + [prop])
        json.dump(meta, open(f"/verif/seeded/{i}/meta.json", "w"), indent=1)
        return i, prop, "fired" if p.returncode == 1 else ("silent" if p.returncode == 0 else f"error{p.returncode}"), key[:150]
    finally:
        subprocess.run(["git", "-C", "/repo", "worktree", "remove", "--force", wt], capture_output=True)
os.makedirs("/tmp/sv", exist_ok=True)
bad = 0
limits = 0
with concurrent.futures.ThreadPoolExecutor(max_workers=6) as ex:
    for i, prop, outcome, key in ex.map(one, ids):
        known = json.load(open(f"/verif/seeded/{i}/meta.json")).get("results", {}).get("not_caught_reason")
        if outcome != "fired" and known:
            print(f"LIM {i:8s} {prop} {outcome:8s} recorded limit: {known[:120]}")
            limits += 1
            continue
        print(f"{'ok ' if outcome=='fired' else 'BAD'} {i:8s} {prop} {outcome:8s} {key}")
        bad += outcome != "fired"
print(f"seeded={len(ids)} not-caught={bad} recorded-limits={limits}")
sys.exit(1 if bad else 0)
