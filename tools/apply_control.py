#!/usr/bin/env python3
"""apply_control.py <control-id> <dir>: writes a control mutant of selftest/controls.json
into a scratch copy of the repository (for looking at what a check says about it in full)."""
import json, sys
cid, d = sys.argv[1], sys.argv[2]
cs = json.load(open('/verif/selftest/controls.json'))
cs = cs if isinstance(cs, list) else cs['controls']
c = [x for x in cs if x['id'] == cid][0]
for e in [{"file": c['file'], "old": c['old'], "new": c['new']}] + (c.get('edits') or []):
    p = d + '/' + e['file']
    s = open(p).read()
    if e['old'] == "":
        s += "\n" + e['new']
    else:
        assert e['old'] in s, (cid, e['file'])
        s = s.replace(e['old'], e['new'], 1)
    open(p, 'w').write(s)
