#!/usr/bin/env python3
"""Evaluates behaviour-preserving changes: /tmp/wt/<R>/out/patch<i>.diff.
Applies each in a scratch worktree, checks build + suite + the author's golden
test, then runs every check against it; any check that fires is a false alarm
(or an undecided construct) to triage.  usage: refac_eval.py <R> [i ...]"""
import json, os, subprocess, sys, shutil, concurrent.futures
R = sys.argv[1]
idx = sys.argv[2:] or ["1", "2", "3"]
env = dict(os.environ, GOFLAGS="-mod=mod", GOPROXY="off", GOSUMDB="off", GOTOOLCHAIN="local", GOWORK="off", VERIF_DIR="/verif")
props = subprocess.run(["/verif/bin/z80verify", "-list"], capture_output=True, text=True).stdout.split()
os.makedirs("/tmp/sv", exist_ok=True)
for i in idx:
    d = f"/tmp/wt/{R}/out"
    patch = f"{d}/patch{i}.diff"
    if not os.path.exists(patch):
        continue
    wt = f"/tmp/sv/{R}-{i}"
    subprocess.run(["git", "-C", "/repo", "worktree", "remove", "--force", wt], capture_output=True)
    subprocess.run(["git", "-C", "/repo", "worktree", "add", "-q", "--detach", wt, "HEAD"], check=True)
    try:
        a = subprocess.run(["git", "apply", patch], cwd=wt, capture_output=True, text=True)
        if a.returncode:
            print(R, i, "PATCH DOES NOT APPLY", a.stderr[:200]); continue
        b = subprocess.run("go build ./... && go test -vet=off -count=1 ./... 2>&1 | tail -8", shell=True, cwd=wt, env=env, capture_output=True, text=True)
        suite_ok = "FAIL" not in b.stdout and "ok  \tgithub.com/koron-go/z80" in b.stdout
        pkg = "."
        try:
            first = open(f"{d}/notes{i}.md").readline()
            if first.startswith("package-dir:"):
                pkg = first.split(":", 1)[1].strip() or "."
        except Exception:
            pass
        g = f"{d}/golden{i}_test.go.txt"
        golden = "n/a"
        if os.path.exists(g):
            shutil.copy(g, os.path.join(wt, pkg, f"zz_golden{i}_test.go"))
            t = subprocess.run(f"go test -vet=off -count=1 -run 'Golden|golden|Differential|Seeded' ./{pkg} 2>&1 | tail -4", shell=True, cwd=wt, env=env, capture_output=True, text=True, timeout=1800)
            golden = "pass" if ("ok" in t.stdout and "FAIL" not in t.stdout) else "FAIL: " + t.stdout[-200:]
            os.remove(os.path.join(wt, pkg, f"zz_golden{i}_test.go"))
        def runcheck(p):
            pr = subprocess.run(["/verif/bin/z80verify", "-prop", p, "-no-evidence"], cwd="/verif", env=dict(env, VERIF_REPO=wt), capture_output=True, text=True, timeout=1800)
            keys = [l.strip()[:260] for l in pr.stdout.splitlines() if "kind=" in l]
            det = [l.strip()[:300] for l in pr.stdout.splitlines() if l.startswith("    ")]
            return p, pr.returncode, keys, det
        fired = {}
        with concurrent.futures.ThreadPoolExecutor(max_workers=5) as ex:
            for p, rc, keys, det in ex.map(runcheck, props):
                if rc != 0:
                    fired[p] = (len(keys), keys[:2], det[:2])
        if suite_ok and golden in ("pass", "n/a"):
            dst = f"/verif/refactors/{R}-{i}"
            os.makedirs(dst, exist_ok=True)
            shutil.copy(patch, dst + "/patch.diff")
            if os.path.exists(g):
                shutil.copy(g, dst + "/golden_test.go.txt")
            if os.path.exists(f"{d}/notes{i}.md"):
                shutil.copy(f"{d}/notes{i}.md", dst + "/notes.md")
            json.dump({"id": f"{R}-{i}", "kind": "behaviour-preserving change by an independent sub-agent (golden test passes on both trees)",
                       "checks_that_fire": {p: {"reports": n, "first": [k[:200] for k in keys], "detail": det} for p, (n, keys, det) in fired.items()},
                       "silent": not fired,
                       "ran_at_repo_commit": subprocess.run(["git", "-C", "/repo", "rev-parse", "--short", "HEAD"], capture_output=True, text=True).stdout.strip()},
                      open(dst + "/meta.json", "w"), indent=1)
        print(f"== {R} patch{i}: suite={'ok' if suite_ok else 'FAIL'} golden={golden} fired={sorted(fired)}")
        for p, (n, keys, det) in sorted(fired.items()):
            print(f"   {p}: {n} reports; e.g. {keys[0] if keys else ''}")
            for x in det:
                print("        ", x)
    finally:
        subprocess.run(["git", "-C", "/repo", "worktree", "remove", "--force", wt], capture_output=True)
