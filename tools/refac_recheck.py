#!/usr/bin/env python3
"""Runs every check against every behaviour-preserving change kept in
/verif/refactors/<id>/patch.diff (scratch worktree of /repo, VERIF_REPO) and
reports the checks that fire (each is a false alarm or an undecided construct).
Writes refactors/<id>/meta.json.   usage: refac_recheck.py [id-prefix ...]"""
import json, os, subprocess, sys, glob, concurrent.futures
env = dict(os.environ, GOFLAGS="-mod=mod", GOPROXY="off", GOSUMDB="off", GOTOOLCHAIN="local", GOWORK="off", VERIF_DIR="/verif")
props = subprocess.run(["/verif/bin/z80verify", "-list"], capture_output=True, text=True).stdout.split()
ids = sorted(os.path.basename(d) for d in glob.glob("/verif/refactors/*") if os.path.isdir(d))
if len(sys.argv) > 1:
    ids = [i for i in ids if any(i.startswith(a) for a in sys.argv[1:])]
os.makedirs("/tmp/sv", exist_ok=True)
def one(i):
    wt = f"/tmp/sv/rf-{i}"
    subprocess.run(["git", "-C", "/repo", "worktree", "remove", "--force", wt], capture_output=True)
    subprocess.run(["git", "-C", "/repo", "worktree", "add", "-q", "--detach", wt, "HEAD"], check=True)
    try:
        a = subprocess.run(["git", "apply", f"/verif/refactors/{i}/patch.diff"], cwd=wt, capture_output=True, text=True)
        if a.returncode:
            return i, None, {}
        fired = {}
        for p in props:
            pr = subprocess.run(["/verif/bin/z80verify", "-prop", p, "-no-evidence"], cwd="/verif", env=dict(env, VERIF_REPO=wt), capture_output=True, text=True, timeout=1800)
            if pr.returncode != 0:
                keys = [l.strip()[:200] for l in pr.stdout.splitlines() if "kind=" in l]
                det = [l.strip()[:240] for l in pr.stdout.splitlines() if l.startswith("    ")]
                fired[p] = {"reports": len(keys), "first": keys[:1], "detail": det[:2]}
        return i, True, fired
    finally:
        subprocess.run(["git", "-C", "/repo", "worktree", "remove", "--force", wt], capture_output=True)
tot = 0
with concurrent.futures.ThreadPoolExecutor(max_workers=5) as ex:
    for i, ok, fired in ex.map(one, ids):
        if ok is None:
            print(f"{i}: PATCH DOES NOT APPLY"); continue
        meta = {"id": i, "kind": "behaviour-preserving change by an independent sub-agent (golden test passes on both trees)",
                "checks_that_fire": fired, "silent": not fired,
                "ran_at_repo_commit": subprocess.run(["git", "-C", "/repo", "rev-parse", "--short", "HEAD"], capture_output=True, text=True).stdout.strip()}
        json.dump(meta, open(f"/verif/refactors/{i}/meta.json", "w"), indent=1)
        tot += bool(fired)
        print(f"{'ok    ' if not fired else 'FIRES '} {i:7s} {sorted(fired)}")
        for p, v in sorted(fired.items()):
            print(f"         {p}: {v['reports']} e.g. {(v['detail'] or v['first'] or [''])[0][:200]}")
print(f"refactors={len(ids)} with-alarms={tot}")
