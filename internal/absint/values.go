// Package absint is the SSA abstract interpreter of DESIGN.md section 2.2: a
// single forward pass over a loop-free go/ssa function with states merged at
// joins (per-bit multiplexers on the path predicate), static callees inside
// the module interpreted in line, and interface calls recorded as guarded
// events.  The result is a closed-form summary of the function valid for every
// pre-state.  Anything outside the exactly-modelled fragment panics with
// *Undecided, which makes the enclosing obligation fail (never pass).
package absint

import (
	"fmt"
	"go/types"
	"reflect"
	"sort"
	"strings"

	"verif/internal/bdd"
	"verif/internal/dom"
)

// Value is an abstract value: dom.BV (ints, bools), *Ptr, *Iface, *Slice,
// *Map, *Struct, *Tuple, *Opaque or *MuxV.
type Value interface{}

// Ptr points at the location Root/Path; Nil is the condition under which the
// pointer is nil instead (True for the nil constant, then Root is "").
type Ptr struct {
	Root string
	Path string
	Nil  bdd.Node
	// Idx, when set, makes this the address of element Idx of the symbolic
	// slice named Root: loads and stores through it are recorded as events.
	Idx dom.BV
}

// Iface is an interface value: nil under Nil, otherwise either the symbolic
// initial contents of a location (Sym) or a concrete value of ConcType.
type Iface struct {
	Nil      bdd.Node
	Sym      string
	Conc     Value
	ConcType types.Type
}

// Slice is either symbolic (Sym, with a length vector) or a window onto an
// array location (Root/Path, elements Lo..Lo+Len).
type Slice struct {
	Nil  bdd.Node
	Sym  string
	Root string
	Path string
	Lo   int
	Len  dom.BV
	// LoV is a symbolic lower bound of a window onto the symbolic slice Sym.
	LoV dom.BV
	// Rope, when non-nil, makes the slice an immutable concatenation of
	// segments (the result of append); Len is the total length.
	Rope []Seg
}

// Seg is one segment of a rope: known bytes, a window of a symbolic slice, or
// a byte repeated a (possibly symbolic) number of times.
type Seg struct {
	Bytes []dom.BV
	Sym   string
	Lo    int
	Len   dom.BV // of a Sym or Fill segment
	Fill  dom.BV // the repeated element of a Fill segment (nil otherwise)
}

// RangeIter is the iterator of a range over a map.
type RangeIter struct {
	Map *Map
	ID  int
}

type Map struct {
	Nil bdd.Node
	Sym string
}

type Struct struct{ Fields []Value }
type Tuple struct{ Elems []Value }

// Opaque is a value the domain does not model (strings, ...).  It may flow
// into log calls only; any other use is undecided.
type Opaque struct{ Why string }

// MuxV is the fallback join of two values with no common canonical form.
type MuxV struct {
	P    bdd.Node
	A, B Value
}

// Undecided is the panic payload for constructs outside the modelled fragment.
type Undecided struct {
	Pos string
	Why string
}

func (u *Undecided) Error() string { return fmt.Sprintf("UNDECIDED at %s: %s", u.Pos, u.Why) }

// State is the abstract store: leaf location -> value.  Locations that were
// never written are absent and denote their initial value.
type State struct {
	m map[string]Value
}

func NewState() *State { return &State{m: map[string]Value{}} }

func (s *State) Clone() *State {
	n := &State{m: make(map[string]Value, len(s.m)+4)}
	for k, v := range s.m {
		n.m[k] = v
	}
	return n
}

func key(root, path string) string { return root + "|" + path }

// Keys lists the written locations, sorted.
func (s *State) Keys() []string {
	ks := make([]string, 0, len(s.m))
	for k := range s.m {
		ks = append(ks, k)
	}
	sort.Strings(ks)
	return ks
}

func (s *State) Get(root, path string) (Value, bool) { v, ok := s.m[key(root, path)]; return v, ok }
func (s *State) Set(root, path string, v Value)      { s.m[key(root, path)] = v }

// SplitKey undoes key().
func SplitKey(k string) (root, path string) {
	i := strings.IndexByte(k, '|')
	return k[:i], k[i+1:]
}

// SameValue is structural equality; on dom.BV it is equality of functions.
func SameValue(a, b Value) bool {
	switch x := a.(type) {
	case dom.BV:
		y, ok := b.(dom.BV)
		return ok && x.Equal(y)
	case *Ptr:
		y, ok := b.(*Ptr)
		if !ok || x.Nil != y.Nil {
			return false
		}
		if x.Nil == bdd.True {
			return true
		}
		return x.Root == y.Root && x.Path == y.Path
	case *Iface:
		y, ok := b.(*Iface)
		if !ok || x.Nil != y.Nil {
			return false
		}
		if x.Nil == bdd.True {
			return true
		}
		if x.Sym != y.Sym {
			return false
		}
		if x.Sym != "" {
			return true
		}
		return types.Identical(x.ConcType, y.ConcType) && SameValue(x.Conc, y.Conc)
	case *Slice:
		y, ok := b.(*Slice)
		return ok && x.Nil == y.Nil && x.Sym == y.Sym && x.Root == y.Root && x.Path == y.Path && x.Lo == y.Lo && x.Len.Equal(y.Len) &&
			(x.LoV == nil) == (y.LoV == nil) && (x.LoV == nil || x.LoV.Equal(y.LoV))
	case *Map:
		y, ok := b.(*Map)
		return ok && x.Nil == y.Nil && x.Sym == y.Sym
	case *Struct:
		y, ok := b.(*Struct)
		if !ok || len(x.Fields) != len(y.Fields) {
			return false
		}
		for i := range x.Fields {
			if !SameValue(x.Fields[i], y.Fields[i]) {
				return false
			}
		}
		return true
	case *Tuple:
		y, ok := b.(*Tuple)
		if !ok || len(x.Elems) != len(y.Elems) {
			return false
		}
		for i := range x.Elems {
			if !SameValue(x.Elems[i], y.Elems[i]) {
				return false
			}
		}
		return true
	case *MuxV:
		y, ok := b.(*MuxV)
		return ok && x.P == y.P && SameValue(x.A, y.A) && SameValue(x.B, y.B)
	case *Str:
		y, ok := b.(*Str)
		if !ok || x.Sym != y.Sym || !x.Len.Equal(y.Len) {
			return false
		}
		if (x.Const == nil) != (y.Const == nil) {
			return false
		}
		return x.Const == nil || *x.Const == *y.Const
	}
	return reflect.DeepEqual(a, b)
}

// MuxValue is p ? a : b on abstract values.
func MuxValue(c *dom.Ctx, p bdd.Node, a, b Value) Value {
	if p == bdd.True {
		return a
	}
	if p == bdd.False {
		return b
	}
	if SameValue(a, b) {
		return a
	}
	switch x := a.(type) {
	case dom.BV:
		if y, ok := b.(dom.BV); ok && len(x) == len(y) {
			return c.Mux(p, x, y)
		}
	case *Ptr:
		if y, ok := b.(*Ptr); ok {
			nilc := c.M.Ite(p, x.Nil, y.Nil)
			switch {
			case x.Nil == bdd.True:
				return &Ptr{Root: y.Root, Path: y.Path, Nil: nilc, Idx: y.Idx}
			case y.Nil == bdd.True:
				return &Ptr{Root: x.Root, Path: x.Path, Nil: nilc, Idx: x.Idx}
			case x.Root == y.Root && x.Path == y.Path && x.Idx == nil && y.Idx == nil:
				return &Ptr{Root: x.Root, Path: x.Path, Nil: nilc}
			case x.Root == y.Root && x.Path == y.Path && x.Idx != nil && y.Idx != nil && len(x.Idx) == len(y.Idx):
				return &Ptr{Root: x.Root, Path: x.Path, Nil: nilc, Idx: c.Mux(p, x.Idx, y.Idx)}
			}
		}
	case *Iface:
		if y, ok := b.(*Iface); ok {
			nilc := c.M.Ite(p, x.Nil, y.Nil)
			switch {
			case x.Nil == bdd.True:
				r := *y
				r.Nil = nilc
				return &r
			case y.Nil == bdd.True:
				r := *x
				r.Nil = nilc
				return &r
			case x.Sym != "" && x.Sym == y.Sym:
				r := *x
				r.Nil = nilc
				return &r
			}
		}
	case *Struct:
		if y, ok := b.(*Struct); ok && len(x.Fields) == len(y.Fields) {
			r := &Struct{Fields: make([]Value, len(x.Fields))}
			for i := range x.Fields {
				r.Fields[i] = MuxValue(c, p, x.Fields[i], y.Fields[i])
			}
			return r
		}
	case *Tuple:
		if y, ok := b.(*Tuple); ok && len(x.Elems) == len(y.Elems) {
			r := &Tuple{Elems: make([]Value, len(x.Elems))}
			for i := range x.Elems {
				r.Elems[i] = MuxValue(c, p, x.Elems[i], y.Elems[i])
			}
			return r
		}
	case *Map:
		if y, ok := b.(*Map); ok && x.Sym == y.Sym {
			return &Map{Sym: x.Sym, Nil: c.M.Ite(p, x.Nil, y.Nil)}
		}
	case *Slice:
		// a nil slice merged with a real one: the real one's identity, with length 0
		// (and nil-ness) on the nil side - indexing it fails the bounds check there
		if y, ok := b.(*Slice); ok && x.Rope == nil && y.Rope == nil && len(x.Len) == len(y.Len) {
			isNilS := func(s *Slice) bool { return s.Nil == bdd.True && s.Sym == "" && s.Root == "" }
			switch {
			case isNilS(x) && !isNilS(y) && y.LoV == nil:
				return &Slice{Sym: y.Sym, Root: y.Root, Path: y.Path, Lo: y.Lo, Nil: c.M.Ite(p, bdd.True, y.Nil), Len: c.Mux(p, c.Const(len(y.Len), 0), y.Len)}
			case isNilS(y) && !isNilS(x) && x.LoV == nil:
				return &Slice{Sym: x.Sym, Root: x.Root, Path: x.Path, Lo: x.Lo, Nil: c.M.Ite(p, x.Nil, bdd.True), Len: c.Mux(p, x.Len, c.Const(len(x.Len), 0))}
			}
		}
		if y, ok := b.(*Slice); ok && x.Rope == nil && y.Rope == nil && x.Sym == y.Sym && x.Root == y.Root && x.Path == y.Path && x.Lo == y.Lo && x.LoV == nil && y.LoV == nil && x.Nil == y.Nil && len(x.Len) == len(y.Len) {
			return &Slice{Sym: x.Sym, Root: x.Root, Path: x.Path, Lo: x.Lo, Nil: x.Nil, Len: c.Mux(p, x.Len, y.Len)}
		}
	case *Str:
		if y, ok := b.(*Str); ok && x.Const == nil && y.Const == nil && x.Sym == y.Sym && len(x.Len) == len(y.Len) {
			return &Str{Sym: x.Sym, Len: c.Mux(p, x.Len, y.Len)}
		}
	}
	return &MuxV{P: p, A: a, B: b}
}

// DescribeValue renders a value for reports.
func DescribeValue(c *dom.Ctx, v Value) string {
	switch x := v.(type) {
	case nil:
		return "<none>"
	case dom.BV:
		return c.Describe(x)
	case *Ptr:
		if x.Nil == bdd.True {
			return "nil"
		}
		s := "&" + x.Root + "/" + x.Path
		if x.Nil != bdd.False {
			s += " (nil " + c.DescribeGuard(x.Nil) + ")"
		}
		return s
	case *Iface:
		if x.Nil == bdd.True {
			return "nil"
		}
		s := x.Sym
		if s == "" {
			s = "iface{" + x.ConcType.String() + " " + DescribeValue(c, x.Conc) + "}"
		}
		if x.Nil != bdd.False {
			s += " (nil " + c.DescribeGuard(x.Nil) + ")"
		}
		return s
	case *Slice:
		if x.Sym != "" {
			return x.Sym
		}
		return fmt.Sprintf("slice(%s/%s[%d:+%s])", x.Root, x.Path, x.Lo, c.Describe(x.Len))
	case *Map:
		return x.Sym
	case *Struct:
		var fs []string
		for _, f := range x.Fields {
			fs = append(fs, DescribeValue(c, f))
		}
		return "{" + strings.Join(fs, ", ") + "}"
	case *Tuple:
		var fs []string
		for _, f := range x.Elems {
			fs = append(fs, DescribeValue(c, f))
		}
		return "(" + strings.Join(fs, ", ") + ")"
	case *Opaque:
		return "opaque(" + x.Why + ")"
	case *MuxV:
		return "mux(" + c.DescribeGuard(x.P) + ", " + DescribeValue(c, x.A) + ", " + DescribeValue(c, x.B) + ")"
	}
	return fmt.Sprintf("%T", v)
}

// FlattenPtr views a pointer-valued abstract value (possibly a tree of MuxV)
// as: the condition under which it is nil, and for every target location the
// condition under which it points there.
func FlattenPtr(c *dom.Ctx, v Value) (nilc bdd.Node, targets map[string]bdd.Node, ok bool) {
	targets = map[string]bdd.Node{}
	nilc = bdd.False
	var walk func(v Value, cond bdd.Node) bool
	walk = func(v Value, cond bdd.Node) bool {
		if cond == bdd.False {
			return true
		}
		switch x := v.(type) {
		case *Ptr:
			nilc = c.M.Or(nilc, c.M.And(cond, x.Nil))
			if x.Nil != bdd.True {
				k := x.Root + "/" + x.Path
				targets[k] = c.M.Or(targets[k], c.M.And(cond, c.M.Not(x.Nil)))
			}
			return true
		case *MuxV:
			return walk(x.A, c.M.And(cond, x.P)) && walk(x.B, c.M.And(cond, c.M.Not(x.P)))
		}
		return false
	}
	ok = walk(v, bdd.True)
	return
}
