package absint

import (
	"fmt"
	"go/constant"
	"go/token"
	"go/types"
	"strings"
	"sync"

	"golang.org/x/tools/go/ssa"

	"verif/internal/bdd"
	"verif/internal/dom"
	"verif/internal/load"
)

type rootInfo struct {
	Symbolic bool
	Prefix   string // leaf name = Prefix + path
}

// PureLibrary: standard-library functions that are deterministic functions
// of their arguments with no effect on program state (their results are
// opaque to the analysis; they are typically used to format a log message).
func PureLibrary(name string) bool {
	for _, p := range []string{"strings.", "strconv.", "encoding/hex.", "unicode.", "unicode/utf8.", "math.", "bytes.", "errors.New", "fmt.Sprintf", "fmt.Sprint", "fmt.Sprintln", "fmt.Errorf"} {
		if strings.HasPrefix(name, p) {
			return true
		}
	}
	return false
}

// RetInfo is one return of the entry function.
type RetInfo struct {
	Pred  bdd.Node
	Val   Value
	State *State // the store at the return (after the deferred calls)
}

// SiteLog records the value-based verdicts on one potentially panicking instruction.
type SiteLog struct {
	OK      int    // executions under which the failing condition is unsatisfiable
	Bad     int    // executions under which it is satisfiable
	Witness string // a state making it fail
	What    string
}

// site records a verdict for the current instruction: fail is the condition
// under which it would panic.
func (in *Interp) site(what string, fail bdd.Node) {
	if in.curInstr == nil || in.Sites == nil {
		return
	}
	l := in.Sites[in.curInstr]
	if l == nil {
		l = &SiteLog{What: what}
		in.Sites[in.curInstr] = l
	}
	bad := in.C.M.And(in.curPred, fail)
	if bad == bdd.False {
		l.OK++
		return
	}
	l.Bad++
	if l.Witness == "" {
		w, _ := in.C.Witness(bad)
		l.Witness = what + " can fail in state {" + strings.Join(in.C.DescribeAssignment(w), " ") + "}"
	}
}

func (in *Interp) nilOf(v Value) (bdd.Node, bool) {
	switch x := v.(type) {
	case *Ptr:
		return x.Nil, true
	case *Iface:
		return x.Nil, true
	case *Map:
		return x.Nil, true
	case *MuxV:
		a, ok1 := in.nilOf(x.A)
		b, ok2 := in.nilOf(x.B)
		if ok1 && ok2 {
			return in.C.M.Ite(x.P, a, b), true
		}
	}
	return bdd.False, false
}

// ModelFunc models an external function (st is the state current at the call).
type ModelFunc func(in *Interp, args []Value, guard bdd.Node, st *State, pos string) (Value, bool)

// deferRec is one registered deferred call.
// ChanInfo describes a channel made by the interpreted code.
type ChanInfo struct {
	Cap  uint64
	Elem types.Type
	Pos  string
}

type deferRec struct {
	builtin  string    // a deferred builtin (close)
	model    ModelFunc // a deferred library call that has a model
	mux      *MuxV     // a deferred call of a function value with several alternatives
	name     string
	guard    bdd.Node // path predicate at registration
	fn       *ssa.Function
	bindings []Value
	args     []Value
}

// CarriedLoc names a store location (with its type) to generalise at a loop header.
type CarriedLoc struct {
	Key  string
	Type types.Type
}

// LoopFlow is the value of one loop-header phi along an edge.
type LoopFlow struct {
	Phi  string
	Pred bdd.Node
	Val  Value
}

// LoopSummary describes one loop whose body was interpreted once with its
// header phis replaced by atoms "loop<ID>.<phi>".
type LoopSummary struct {
	ID           int
	Fn           string
	Header       string
	EntryPred    bdd.Node
	BackPred     bdd.Node
	Init         []LoopFlow // values entering the loop
	Back         []LoopFlow // values flowing along back edges (functions of the loop atoms)
	StoreChanged []string   // store locations the body changes (other than through events)
	// Carried: store locations replaced by atoms "loop<ID>.mem(<key>)" at the
	// header (second pass, see Interp.LoopCarried), with the value entering the
	// loop and the value flowing along the back edge.
	Carried     []string
	CarriedInit map[string]Value
	CarriedBack map[string]Value
	BackState   *State // the state flowing along the (last) back edge
	headState   *State
}

// CurPred is the path predicate of the instruction being interpreted.
func (in *Interp) CurPred() bdd.Node { return in.curPred }

// EntryStateOf is the value of a location when the loop is entered.
func (in *Interp) EntryStateOf(ls *LoopSummary, root, path string) Value {
	if v, ok := ls.headState.Get(root, path); ok {
		return v
	}
	return nil
}

// EntryKeysOf lists the locations written before the loop is entered.
func (in *Interp) EntryKeysOf(ls *LoopSummary) []string { return ls.headState.Keys() }

// PtrChoice is a pointer selected by a data-dependent index.
type PtrChoice struct {
	Conds []bdd.Node
	Ptrs  []*Ptr
}

// Interp interprets one entry function (with everything below it in line).
type Interp struct {
	P *load.Program
	C *dom.Ctx
	T *dom.Trace

	roots  map[string]*rootInfo
	leafT  map[string]types.Type // type of every leaf ever stored
	allocN int
	depth  int

	// InitOverride replaces the initial value of a symbolic leaf.
	InitOverride map[string]Value
	// OnCall may intercept a static call (return handled=true).
	OnCall func(in *Interp, fn *ssa.Function, args []Value, guard bdd.Node, st *State, pos string) (res Value, out *State, handled bool)
	// AfterEvent is called after each device event (used to havoc what a
	// callback may legitimately change).
	AfterEvent func(in *Interp, st *State, guard bdd.Node)

	// SharedRoots are local cells shared with another goroutine: every load
	// yields a fresh unknown value produced by SharedLoad (width 0 = interface).
	SharedRoots map[string]bool
	// WatchStores are cells whose stores are recorded as 'shared.store' events.
	WatchStores map[string]bool
	SharedLoad  func(root, path string, width int) Value
	// TopReturns lists the returns of the entry function with their path predicates.
	TopReturns []RetInfo
	// OnGo is called for a go statement (the started function value and its arguments).
	OnGo func(in *Interp, fv *FuncV, args []Value, guard bdd.Node, st *State, pos string)
	// Sites logs, per instruction that can panic, whether the failing
	// condition was ever satisfiable under the path predicate (C12).
	Sites    map[ssa.Instruction]*SiteLog
	curInstr ssa.Instruction
	// curPred is the path predicate of the block being interpreted.
	curPred bdd.Node
	// LoopBodies switches on loop-body summarisation: a loop is entered with
	// its induction variables replaced by fresh atoms, its body interpreted
	// once, and the values flowing along the back edge recorded in Loops.
	LoopBodies bool
	Loops      []*LoopSummary
	// Unrolled counts, per function with a loop, the calls that were followed
	// concretely (fixed trip count).
	Unrolled map[*ssa.Function]int
	loopy    map[*ssa.Function]bool
	// Incomplete: functions entered by a probe that was cut short by an
	// undecided construct (with the reason).
	Incomplete map[*ssa.Function]string
	// OnPoll answers a non-blocking poll of the Done channel of the named
	// context with a fresh observation.
	OnPoll func(dev string) bdd.Node
	// Chans switches on the channel vocabulary (Run summary only): a channel
	// the code makes is the value "chan#N"; receive, close and send on it and
	// a blocking select over receives are events of the trace.  OnSelect
	// returns the index of the alternative taken (a fresh choice), OnRecv the
	// value received from the named channel.
	Chans map[string]*ChanInfo
	// OnOpaqueCall takes over a call of a function value that a library model
	// handed out (named by the Opaque's Why).
	OnOpaqueCall func(in *Interp, why string, args []Value, guard bdd.Node, st *State, pos string) (Value, bool)
	deferDepth   int // > 0 while deferred calls are being run
	// TouchLog, when set, collects the roots of everything loaded or stored.
	TouchLog map[string]bool
	OnSelect func(devs []string, guard bdd.Node, pos string) dom.BV
	// OnPollChan answers a non-blocking poll of a channel the code made.
	OnPollChan func(dev string, guard bdd.Node, pos string) bdd.Node
	OnRecv     func(dev string, t types.Type, guard bdd.Node, pos string) Value
	OnSend     func(dev string, v Value, guard bdd.Node, st *State, pos string)
	// LoopCarried (second pass): per loop ID, the store locations to generalise
	// at the loop header - typically the StoreChanged of a first pass - so that
	// the one interpreted iteration stands for every iteration.
	LoopCarried map[int][]CarriedLoc
	rangeN      int
	// OnInvoke may take over a call on a symbolic interface value (e.g. one
	// with slice arguments).
	OnInvoke func(in *Interp, kind, dev string, args []Value, guard bdd.Node, st *State, pos string) (Value, bool)
	// ReadableGlobals: package-level variables (root names "global:<path>")
	// that only package initialisation writes; reading them is deterministic
	// and is not recorded as an effect.
	ReadableGlobals map[string]bool
	// Unroll executes functions along the single concrete path (branch
	// conditions must be constants), so that loops with constant trip counts
	// can be run; used to interpret package initialisation (constant tables
	// filled by a loop).
	Unroll      bool
	unrollSteps int
	// LenientExternals makes unknown external calls return opaque values
	// instead of failing (used only to interpret package initialisation).
	LenientExternals bool
	// InterpretExternal lists library functions that are simple enough to be
	// interpreted from their own SSA bodies (e.g. encoding/binary byte order).
	InterpretExternal map[string]bool
	// Models of external functions: name -> handler.
	Models map[string]ModelFunc
	// NoGlobalEvents: do not record reads of package-level variables.
	NoGlobalEvents bool

	// Assume (with HasAssume) restricts the analysis to the pre-states
	// satisfying it; results are meaningful on that care set only.
	Assume    bdd.Node
	HasAssume bool

	// bookkeeping for evidence and effect rules
	Funcs     map[*ssa.Function]int // functions interpreted (call count)
	Externals map[string]int        // external callees met
	TopBlocks []*ssa.BasicBlock     // blocks of the entry function that were executed
	entry     *ssa.Function
	Instrs    int
}

func New(p *load.Program, c *dom.Ctx, t *dom.Trace) *Interp {
	in := &Interp{P: p, C: c, T: t,
		roots:        map[string]*rootInfo{},
		leafT:        map[string]types.Type{},
		InitOverride: map[string]Value{},
		Funcs:        map[*ssa.Function]int{},
		Unrolled:     map[*ssa.Function]int{},
		Externals:    map[string]int{},
	}
	return in
}

// AddSymbolicRoot declares a root whose unwritten leaves are initial-value atoms.
func (in *Interp) AddSymbolicRoot(name, prefix string) {
	in.roots[name] = &rootInfo{Symbolic: true, Prefix: prefix}
}

// AddConcreteRoot declares a root whose unwritten leaves are zero values.
func (in *Interp) AddConcreteRoot(name string) { in.roots[name] = &rootInfo{} }

func (in *Interp) undecided(pos token.Pos, format string, args ...interface{}) {
	panic(&Undecided{Pos: in.P.Pos(pos), Why: fmt.Sprintf(format, args...)})
}

// Run interprets fn from st under guard True.  It returns the result value,
// the final state and an error of type *Undecided if the function leaves the
// modelled fragment.
func (in *Interp) Run(fn *ssa.Function, args []Value, st *State) (res Value, out *State, err error) {
	defer func() {
		if r := recover(); r != nil {
			if u, ok := r.(*Undecided); ok {
				err = u
				return
			}
			if b, ok := r.(*bdd.Budget); ok {
				err = &Undecided{Pos: in.P.Pos(fn.Pos()), Why: b.Error() + ": the values involved have no compact canonical form (e.g. a table with unknown contents indexed by a value)"}
				return
			}
			panic(r)
		}
	}()
	in.entry = fn
	g := bdd.True
	if in.HasAssume {
		g = in.Assume
	}
	res, out = in.call(fn, args, g, st, fn.Pos())
	return
}

// ---------------------------------------------------------------------------
// types

func (in *Interp) width(t types.Type) (w int, signed bool, ok bool) {
	b, isb := t.Underlying().(*types.Basic)
	if !isb {
		return 0, false, false
	}
	info := b.Info()
	switch {
	case info&types.IsBoolean != 0:
		return 1, false, true
	case info&types.IsInteger != 0:
		if b.Kind() == types.UntypedInt || b.Kind() == types.UntypedRune {
			return 64, true, true
		}
		return int(in.P.Sizes.Sizeof(t)) * 8, info&types.IsUnsigned == 0, true
	}
	return 0, false, false
}

func joinPath(path, name string, embedded bool) string {
	if embedded {
		return path
	}
	if path == "" {
		return name
	}
	return path + "." + name
}

func elemPath(path string, i int) string { return fmt.Sprintf("%s[%d]", path, i) }

const maxArrayLeaves = 256

// EachLeaf enumerates the leaf locations of a value of type t at path.
func (in *Interp) EachLeaf(t types.Type, path string, f func(path string, t types.Type)) {
	switch u := t.Underlying().(type) {
	case *types.Struct:
		for i := 0; i < u.NumFields(); i++ {
			fd := u.Field(i)
			in.EachLeaf(fd.Type(), joinPath(path, fd.Name(), fd.Embedded()), f)
		}
	case *types.Array:
		if u.Len() <= maxArrayLeaves {
			for i := 0; i < int(u.Len()); i++ {
				in.EachLeaf(u.Elem(), elemPath(path, i), f)
			}
			return
		}
		f(path, t)
	default:
		f(path, t)
	}
}

func (in *Interp) nilVar(name string) bdd.Node {
	return in.C.Atom("IsNil("+name+")", 1)[0]
}

func (in *Interp) zero(t types.Type) Value {
	if w, _, ok := in.width(t); ok {
		return in.C.Const(w, 0)
	}
	switch u := t.Underlying().(type) {
	case *types.Pointer:
		return &Ptr{Nil: bdd.True}
	case *types.Interface:
		return &Iface{Nil: bdd.True}
	case *types.Slice:
		return &Slice{Nil: bdd.True, Len: in.C.Const(in.intWidth(), 0)}
	case *types.Map:
		return &Map{Nil: bdd.True}
	case *types.Array:
		if u.Len() <= maxArrayLeaves {
			s := &Struct{}
			for i := int64(0); i < u.Len(); i++ {
				s.Fields = append(s.Fields, in.zero(u.Elem()))
			}
			return s
		}
	case *types.Signature:
		return &FuncV{} // the nil function value
	case *types.Chan:
		return &Opaque{Why: "chan:nil"}
	case *types.Struct:
		s := &Struct{}
		for i := 0; i < u.NumFields(); i++ {
			s.Fields = append(s.Fields, in.zero(u.Field(i).Type()))
		}
		return s
	}
	return &Opaque{Why: "zero " + t.String()}
}

func (in *Interp) intWidth() int {
	return int(in.P.Sizes.Sizeof(types.Typ[types.Int])) * 8
}

func (in *Interp) initLeaf(root string, ri *rootInfo, path string, t types.Type) Value {
	if v, ok := in.InitOverride[key(root, path)]; ok {
		return v
	}
	if !ri.Symbolic {
		return in.zero(t)
	}
	name := ri.Prefix + path
	if w, _, ok := in.width(t); ok {
		return in.C.Atom("Init("+name+")", w)
	}
	switch t.Underlying().(type) {
	case *types.Interface:
		return &Iface{Sym: name, Nil: in.nilVar(name)}
	case *types.Pointer:
		r := "*" + name
		if _, ok := in.roots[r]; !ok {
			in.roots[r] = &rootInfo{Symbolic: true, Prefix: name + "."}
		}
		return &Ptr{Root: r, Nil: in.nilVar(name)}
	case *types.Slice:
		w := in.intWidth()
		return &Slice{Sym: name, Nil: bdd.False, Len: in.C.Zext(in.C.Atom("len("+name+")", w-1), w)}
	case *types.Map:
		return &Map{Sym: name, Nil: in.nilVar(name)}
	case *types.Basic:
		if t.Underlying().(*types.Basic).Info()&types.IsString != 0 {
			w := in.intWidth()
			return &Str{Sym: name, Len: in.C.Zext(in.C.Atom("len("+name+")", w-1), w)}
		}
	}
	return &Opaque{Why: "initial " + name}
}

// Load reads a value of type t through p.
func (in *Interp) Load(st *State, pv Value, t types.Type, pos token.Pos) Value {
	switch p := pv.(type) {
	case *Ptr:
		in.site("nil dereference (load)", p.Nil)
		if p.Nil == bdd.True {
			in.undecided(pos, "load through a nil pointer")
		}
		if p.Idx != nil {
			w, _, ok := in.width(t)
			if !ok {
				in.undecided(pos, "element of non-integer type")
			}
			return in.T.Emit(in.curPred, "slice.get", p.Root, []dom.BV{p.Idx}, w, in.P.Pos(pos))
		}
		ri := in.roots[p.Root]
		if ri == nil {
			ri = in.lateGlobalRoot(p.Root)
		}
		if ri == nil {
			in.undecided(pos, "load through pointer with unknown root %q", p.Root)
		}
		return in.loadAt(st, p.Root, ri, p.Path, t)
	case *PtrChoice:
		var acc Value
		for i := len(p.Ptrs) - 1; i >= 0; i-- {
			v := in.Load(st, p.Ptrs[i], t, pos)
			if acc == nil {
				acc = v
			} else {
				acc = MuxValue(in.C, p.Conds[i], v, acc)
			}
		}
		return acc
	}
	in.undecided(pos, "load through non-pointer %T", pv)
	return nil
}

func (in *Interp) loadAt(st *State, root string, ri *rootInfo, path string, t types.Type) Value {
	if in.TouchLog != nil {
		in.TouchLog[root] = true
	}
	switch u := t.Underlying().(type) {
	case *types.Struct:
		s := &Struct{Fields: make([]Value, u.NumFields())}
		for i := range s.Fields {
			fd := u.Field(i)
			s.Fields[i] = in.loadAt(st, root, ri, joinPath(path, fd.Name(), fd.Embedded()), fd.Type())
		}
		return s
	case *types.Array:
		if u.Len() <= maxArrayLeaves {
			s := &Struct{Fields: make([]Value, u.Len())}
			for i := range s.Fields {
				s.Fields[i] = in.loadAt(st, root, ri, elemPath(path, i), u.Elem())
			}
			return s
		}
	}
	if in.SharedLoad != nil && in.sharedCell(in.SharedRoots, root, path) {
		w, _, _ := in.width(t)
		return in.SharedLoad(root, path, w)
	}
	if v, ok := st.Get(root, path); ok {
		return v
	}
	return in.initLeaf(root, ri, path, t)
}

// Store writes v of type t through p under guard g (a conditional store is a
// mux with the old contents).
func (in *Interp) Store(st *State, pv Value, t types.Type, v Value, g bdd.Node, pos token.Pos) {
	switch p := pv.(type) {
	case *Ptr:
		in.site("nil dereference (store)", p.Nil)
		if in.sharedCell(in.WatchStores, p.Root, p.Path) && !in.selfStore(st, p, v) {
			cell := p.Root
			if p.Path != "" {
				cell += "|" + p.Path
			}
			in.T.Emit(in.C.M.And(in.curPred, g), "shared.store", cell, nil, 0, in.P.Pos(pos))
		}
		if p.Nil == bdd.True {
			in.undecided(pos, "store through a nil pointer")
		}
		if p.Idx != nil {
			bv, ok := v.(dom.BV)
			if !ok {
				in.undecided(pos, "element store of non-integer")
			}
			in.T.Emit(in.C.M.And(in.curPred, g), "slice.set", p.Root, []dom.BV{p.Idx, bv}, 0, in.P.Pos(pos))
			return
		}
		ri := in.roots[p.Root]
		if ri == nil {
			ri = in.lateGlobalRoot(p.Root)
		}
		if ri == nil {
			in.undecided(pos, "store through pointer with unknown root %q", p.Root)
		}
		in.storeAt(st, p.Root, ri, p.Path, t, v, g, pos)
		return
	case *PtrChoice:
		rest := g
		for i, q := range p.Ptrs {
			gi := in.C.M.And(rest, p.Conds[i])
			in.Store(st, q, t, v, gi, pos)
			rest = in.C.M.And(rest, in.C.M.Not(p.Conds[i]))
		}
		return
	}
	in.undecided(pos, "store through non-pointer %T", pv)
}

func (in *Interp) storeAt(st *State, root string, ri *rootInfo, path string, t types.Type, v Value, g bdd.Node, pos token.Pos) {
	if in.TouchLog != nil {
		in.TouchLog[root] = true
	}
	switch u := t.Underlying().(type) {
	case *types.Struct:
		s, ok := v.(*Struct)
		if !ok || len(s.Fields) != u.NumFields() {
			in.undecided(pos, "struct store of %T", v)
		}
		for i := range s.Fields {
			fd := u.Field(i)
			in.storeAt(st, root, ri, joinPath(path, fd.Name(), fd.Embedded()), fd.Type(), s.Fields[i], g, pos)
		}
		return
	case *types.Array:
		if u.Len() <= maxArrayLeaves {
			s, ok := v.(*Struct)
			if !ok || int64(len(s.Fields)) != u.Len() {
				in.undecided(pos, "array store of %T", v)
			}
			for i := range s.Fields {
				in.storeAt(st, root, ri, elemPath(path, i), u.Elem(), s.Fields[i], g, pos)
			}
			return
		}
	}
	in.leafT[key(root, path)] = t
	if g != bdd.True {
		var old Value
		if o, ok := st.Get(root, path); ok {
			old = o
		} else {
			old = in.initLeaf(root, ri, path, t)
		}
		v = MuxValue(in.C, g, v, old)
	}
	st.Set(root, path, v)
}

// ---------------------------------------------------------------------------
// function interpretation

const (
	maxMergeEdges = 40
	maxNodes      = 8 << 20
)

type inEdge struct {
	from *ssa.BasicBlock
	pred bdd.Node
	st   *State
}

type retRec struct {
	pred bdd.Node
	val  Value
	st   *State
}

type frame struct {
	fn     *ssa.Function
	vals   map[ssa.Value]Value
	defers []deferRec
}

var rpoCache sync.Map // *ssa.Function -> []*ssa.BasicBlock

func rpo(fn *ssa.Function) []*ssa.BasicBlock {
	if r, ok := rpoCache.Load(fn); ok {
		return r.([]*ssa.BasicBlock)
	}
	seen := make([]bool, len(fn.Blocks))
	var post []*ssa.BasicBlock
	// iterative DFS (executeOne has thousands of blocks in a chain)
	type item struct {
		b *ssa.BasicBlock
		i int
	}
	stack := []item{{fn.Blocks[0], 0}}
	seen[fn.Blocks[0].Index] = true
	for len(stack) > 0 {
		top := &stack[len(stack)-1]
		if top.i < len(top.b.Succs) {
			s := top.b.Succs[top.i]
			top.i++
			if !seen[s.Index] {
				seen[s.Index] = true
				stack = append(stack, item{s, 0})
			}
			continue
		}
		post = append(post, top.b)
		stack = stack[:len(stack)-1]
	}
	r := make([]*ssa.BasicBlock, len(post))
	for i, b := range post {
		r[len(post)-1-i] = b
	}
	rpoCache.Store(fn, r)
	return r
}

func (in *Interp) mergeStates(edges []inEdge) (bdd.Node, *State) {
	if len(edges) == 1 {
		return edges[0].pred, edges[0].st
	}
	pred := edges[0].pred
	acc := edges[0].st.Clone()
	for _, e := range edges[1:] {
		// value = e.pred ? e.st : acc
		keys := map[string]bool{}
		for k := range acc.m {
			keys[k] = true
		}
		for k := range e.st.m {
			keys[k] = true
		}
		for k := range keys {
			a, aok := acc.m[k]
			b, bok := e.st.m[k]
			if aok && bok && SameValue(a, b) {
				continue
			}
			if !aok || !bok {
				root, path := SplitKey(k)
				ri := in.roots[root]
				var other Value
				if aok {
					other = a
				} else {
					other = b
				}
				var init Value
				if t, known := in.leafT[k]; known && ri != nil {
					init = in.initLeaf(root, ri, path, t)
				} else {
					init = in.initLike(root, ri, path, other)
				}
				if !aok {
					a = init
				} else {
					b = init
				}
			}
			acc.m[k] = MuxValue(in.C, e.pred, b, a)
		}
		pred = in.C.M.Or(pred, e.pred)
	}
	return pred, acc
}

// initLike produces the initial value of a leaf whose type is only known
// through a sample value written to it elsewhere.
func (in *Interp) initLike(root string, ri *rootInfo, path string, sample Value) Value {
	if v, ok := in.InitOverride[key(root, path)]; ok {
		return v
	}
	name := ""
	if ri != nil {
		name = ri.Prefix + path
	}
	sym := ri != nil && ri.Symbolic
	switch s := sample.(type) {
	case dom.BV:
		if sym {
			return in.C.Atom("Init("+name+")", len(s))
		}
		return in.C.Const(len(s), 0)
	case *Iface:
		if sym {
			return &Iface{Sym: name, Nil: in.nilVar(name)}
		}
		return &Iface{Nil: bdd.True}
	case *Ptr:
		if sym {
			r := "*" + name
			if _, ok := in.roots[r]; !ok {
				in.roots[r] = &rootInfo{Symbolic: true, Prefix: name + "."}
			}
			return &Ptr{Root: r, Nil: in.nilVar(name)}
		}
		return &Ptr{Nil: bdd.True}
	case *Slice:
		if sym {
			w := in.intWidth()
			return &Slice{Sym: name, Nil: bdd.False, Len: in.C.Zext(in.C.Atom("len("+name+")", w-1), w)}
		}
		return &Slice{Nil: bdd.True, Len: in.C.Const(in.intWidth(), 0)}
	case *Map:
		if sym {
			return &Map{Sym: name, Nil: in.nilVar(name)}
		}
		return &Map{Nil: bdd.True}
	}
	return &Opaque{Why: "initial " + name}
}

func (in *Interp) call(fn *ssa.Function, args []Value, guard bdd.Node, st *State, pos token.Pos) (Value, *State) {
	return in.callBound(fn, args, nil, guard, st, pos)
}

func (in *Interp) callBound(fn *ssa.Function, args []Value, bindings []Value, guard bdd.Node, st *State, pos token.Pos) (Value, *State) {
	if fn.Blocks == nil {
		in.undecided(pos, "call of function without body %s", fn.String())
	}
	in.depth++
	if in.depth > 64 {
		in.undecided(pos, "call depth exceeded (recursion?) at %s", fn.String())
	}
	defer func() { in.depth-- }()
	in.Funcs[fn]++
	fr := &frame{fn: fn, vals: make(map[ssa.Value]Value, 16)}
	if len(args) != len(fn.Params) {
		in.undecided(pos, "arity mismatch calling %s", fn.String())
	}
	for i, p := range fn.Params {
		fr.vals[p] = args[i]
	}
	if len(fn.FreeVars) != len(bindings) {
		in.undecided(pos, "closure %s called without its bindings", fn.String())
	}
	for i, fv := range fn.FreeVars {
		fr.vals[fv] = bindings[i]
	}
	if in.Unroll {
		return in.runConcrete(fn, fr, guard, st, pos)
	}
	if !in.LoopBodies && in.hasLoop(fn) {
		// a loop outside loop-summary mode: followed concretely - every branch
		// condition must evaluate to a constant (a fixed trip count), the data
		// may stay symbolic; otherwise the call is undecided as before
		in.Unrolled[fn]++
		loopLog.Lock()
		loopLog.followed[fn]++
		loopLog.Unlock()
		done := false
		defer func() {
			if !done {
				loopLog.Lock()
				loopLog.failed[fn]++
				loopLog.Unlock()
			}
		}()
		rv, out := in.runConcrete(fn, fr, guard, st, pos)
		done = true
		return rv, out
	}
	order := rpo(fn)
	index := make(map[*ssa.BasicBlock]int, len(order))
	for i, b := range order {
		index[b] = i
	}
	ins := make(map[*ssa.BasicBlock][]inEdge)
	ins[order[0]] = []inEdge{{nil, guard, st}}
	var rets []retRec
	loopOf := map[*ssa.BasicBlock]*LoopSummary{}
	top := fn == in.entry && in.depth == 1
	for bi, b := range order {
		edges := ins[b]
		if len(edges) == 0 {
			continue
		}
		delete(ins, b)
		if len(edges) > maxMergeEdges {
			in.undecided(b.Instrs[0].Pos(), "%d paths join in %s: the decode is not resolved by constant propagation (state explosion)", len(edges), fn.String())
		}
		if in.C.M.Size() > maxNodes {
			in.undecided(b.Instrs[0].Pos(), "value-domain budget exceeded in %s", fn.String())
		}
		pred, cur := in.mergeStates(edges)
		in.curPred = pred
		if in.LoopBodies {
			isHeader := false
			for _, pb := range b.Preds {
				if index[pb] >= bi {
					isHeader = true
				}
			}
			if isHeader {
				ls := &LoopSummary{ID: len(in.Loops) + 1, Fn: fn.String(), Header: b.Comment, EntryPred: pred, BackPred: bdd.False, headState: cur.Clone()}
				in.Loops = append(in.Loops, ls)
				loopOf[b] = ls
				for _, cl := range in.LoopCarried[ls.ID] {
					k := cl.Key
					if _, dup := ls.CarriedInit[k]; dup {
						continue
					}
					root, path := SplitKey(k)
					bv, isBV := in.Load(cur, &Ptr{Root: root, Path: path, Nil: bdd.False}, cl.Type, 0).(dom.BV)
					if !isBV {
						continue // only integer locations are generalised
					}
					if ls.CarriedInit == nil {
						ls.CarriedInit, ls.CarriedBack = map[string]Value{}, map[string]Value{}
					}
					ls.Carried = append(ls.Carried, k)
					ls.CarriedInit[k] = bv
					cur.Set(root, path, in.C.Atom(fmt.Sprintf("loop%d.mem(%s)", ls.ID, k), len(bv)))
				}
			}
		}
		if top {
			in.TopBlocks = append(in.TopBlocks, b)
		}
		send := func(to *ssa.BasicBlock, p bdd.Node, s *State) {
			if p == bdd.False {
				return
			}
			if index[to] <= bi {
				if ls := loopOf[to]; ls != nil && in.LoopBodies {
					// record what flows along the back edge; do not iterate
					for _, instr := range to.Instrs {
						phi, ok := instr.(*ssa.Phi)
						if !ok {
							break
						}
						for pi, pb := range to.Preds {
							if pb == b {
								ls.Back = append(ls.Back, LoopFlow{Phi: phi.Comment + "#" + phi.Name(), Pred: p, Val: in.operand(fr, phi.Edges[pi])})
							}
						}
					}
					for _, k := range ls.Carried {
						root, path := SplitKey(k)
						v, _ := s.Get(root, path)
						if old, seen := ls.CarriedBack[k]; seen && old != nil && v != nil {
							v = MuxValue(in.C, p, v, old)
						}
						ls.CarriedBack[k] = v
					}
					ls.BackPred = in.C.M.Or(ls.BackPred, p)
					ls.BackState = s
					for _, k := range s.Keys() {
						v, _ := s.m[k]
						if hv, ok := ls.headState.m[k]; !ok || !SameValue(hv, v) {
							if !strings.HasPrefix(k, "alloc#") {
								ls.StoreChanged = append(ls.StoreChanged, k)
							}
						}
					}
					return
				}
				in.undecided(b.Instrs[len(b.Instrs)-1].Pos(), "loop (back edge) in %s", fn.String())
			}
			ins[to] = append(ins[to], inEdge{b, p, s})
		}
		for _, instr := range b.Instrs {
			in.Instrs++
			in.curInstr = instr
			in.curPred = pred
			switch x := instr.(type) {
			case *ssa.Phi:
				if ls := loopOf[b]; ls != nil {
					// induction variable: initial value from the entry edges, then a fresh atom
					var init Value
					for _, e := range edges {
						for pi, pb := range b.Preds {
							if pb == e.from {
								v := in.operand(fr, x.Edges[pi])
								if init == nil {
									init = v
								} else {
									init = MuxValue(in.C, e.pred, v, init)
								}
							}
						}
					}
					name := x.Comment + "#" + x.Name()
					ls.Init = append(ls.Init, LoopFlow{Phi: name, Pred: pred, Val: init})
					if bv, ok := init.(dom.BV); ok {
						fr.vals[x] = in.C.Atom(fmt.Sprintf("loop%d.%s", ls.ID, name), len(bv))
					} else {
						fr.vals[x] = init // must be loop-invariant (checked against Back by the caller)
					}
					continue
				}
				var acc Value
				for _, e := range edges {
					var v Value
					for pi, pb := range b.Preds {
						if pb == e.from {
							v = in.operand(fr, x.Edges[pi])
							break
						}
					}
					if acc == nil {
						acc = v
					} else {
						acc = MuxValue(in.C, e.pred, v, acc)
					}
				}
				fr.vals[x] = acc
			case *ssa.If:
				cv, ok := in.operand(fr, x.Cond).(dom.BV)
				if !ok || len(cv) != 1 {
					in.undecided(x.Pos(), "branch on non-boolean")
				}
				pt := in.C.M.And(pred, cv[0])
				pf := in.C.M.And(pred, in.C.M.Not(cv[0]))
				switch {
				case pt == bdd.False:
					send(b.Succs[1], pf, cur)
				case pf == bdd.False:
					send(b.Succs[0], pt, cur)
				default:
					send(b.Succs[0], pt, cur)
					send(b.Succs[1], pf, cur.Clone())
				}
			case *ssa.Jump:
				send(b.Succs[0], pred, cur)
			case *ssa.Return:
				var rv Value
				switch len(x.Results) {
				case 0:
				case 1:
					rv = in.operand(fr, x.Results[0])
				default:
					t := &Tuple{}
					for _, r := range x.Results {
						t.Elems = append(t.Elems, in.operand(fr, r))
					}
					rv = t
				}
				rets = append(rets, retRec{pred, rv, cur})
				if top {
					in.TopReturns = append(in.TopReturns, RetInfo{Pred: pred, Val: rv, State: cur.Clone()})
				}
			case *ssa.Panic:
				in.site("explicit panic", bdd.True)
				in.T.Emit(pred, "Panic", "", nil, 0, in.P.Pos(x.Pos()))
			default:
				in.exec(fr, x, pred, cur)
			}
		}
	}
	if len(rets) == 0 {
		in.undecided(pos, "no feasible return from %s", fn.String())
	}
	var es []inEdge
	for _, r := range rets {
		es = append(es, inEdge{nil, r.pred, r.st})
	}
	_, out := in.mergeStates(es)
	res := rets[0].val
	for _, r := range rets[1:] {
		res = MuxValue(in.C, r.pred, r.val, res)
	}
	return res, out
}

func (in *Interp) operand(fr *frame, v ssa.Value) Value {
	switch x := v.(type) {
	case *ssa.Const:
		return in.constant(x)
	case *ssa.Global:
		name := x.RelString(nil)
		r := "global:" + name
		if _, ok := in.roots[r]; !ok {
			if in.ReadableGlobals[r] {
				in.roots[r] = &rootInfo{} // written by package initialisation only: its stores (or zero) are the contents
			} else {
				in.roots[r] = &rootInfo{Symbolic: true, Prefix: "global " + x.Name()}
			}
		}
		return &Ptr{Root: r, Nil: bdd.False}
	case *ssa.Function:
		return &FuncV{Fn: x}
	case *ssa.Builtin:
		return &Opaque{Why: "builtin " + x.Name()}
	}
	if val, ok := fr.vals[v]; ok {
		return val
	}
	in.undecided(v.Pos(), "use of undefined SSA value %s in %s", v.Name(), fr.fn.String())
	return nil
}

func (in *Interp) constant(c *ssa.Const) Value {
	t := c.Type()
	if c.Value == nil {
		return in.zero(t)
	}
	if w, _, ok := in.width(t); ok {
		switch c.Value.Kind() {
		case constant.Bool:
			if constant.BoolVal(c.Value) {
				return in.C.Const(1, 1)
			}
			return in.C.Const(1, 0)
		case constant.Int:
			if u, exact := constant.Uint64Val(c.Value); exact {
				return in.C.Const(w, u)
			}
			if i, exact := constant.Int64Val(c.Value); exact {
				return in.C.Const(w, uint64(i))
			}
		}
	}
	if b, ok := t.Underlying().(*types.Basic); ok && b.Info()&types.IsString != 0 && c.Value.Kind() == constant.String {
		sv := constant.StringVal(c.Value)
		return &Str{Const: &sv, Len: in.C.Const(in.intWidth(), uint64(len(sv)))}
	}
	return &Opaque{Why: "const " + c.String()}
}

func (in *Interp) exec(fr *frame, instr ssa.Instruction, pred bdd.Node, st *State) {
	C := in.C
	switch x := instr.(type) {
	case *ssa.DebugRef:
	case *ssa.Alloc:
		in.allocN++
		r := fmt.Sprintf("alloc#%d", in.allocN)
		in.roots[r] = &rootInfo{}
		fr.vals[x] = &Ptr{Root: r, Nil: bdd.False}
	case *ssa.FieldAddr:
		base := in.operand(fr, x.X)
		stt := x.X.Type().Underlying().(*types.Pointer).Elem().Underlying().(*types.Struct)
		fd := stt.Field(x.Field)
		if pc0, isPC := base.(*PtrChoice); isPC {
			// a field of a table entry selected by a value
			pc := &PtrChoice{Conds: pc0.Conds}
			for _, p0 := range pc0.Ptrs {
				pc.Ptrs = append(pc.Ptrs, &Ptr{Root: p0.Root, Path: joinPath(p0.Path, fd.Name(), fd.Embedded()), Nil: bdd.False})
			}
			fr.vals[x] = pc
			return
		}
		p, ok := base.(*Ptr)
		if !ok {
			in.undecided(x.Pos(), "field address of %T", base)
		}
		in.site("nil dereference (field of a nil pointer)", p.Nil)
		fr.vals[x] = &Ptr{Root: p.Root, Path: joinPath(p.Path, fd.Name(), fd.Embedded()), Nil: bdd.False}
	case *ssa.Field:
		s, ok := in.operand(fr, x.X).(*Struct)
		if !ok {
			in.undecided(x.Pos(), "field of non-struct value")
		}
		fr.vals[x] = s.Fields[x.Field]
	case *ssa.IndexAddr:
		fr.vals[x] = in.indexAddr(fr, x)
	case *ssa.Index:
		s, ok := in.operand(fr, x.X).(*Struct)
		iv, iok := in.operand(fr, x.Index).(dom.BV)
		if !ok || !iok {
			in.undecided(x.Pos(), "index of %T", in.operand(fr, x.X))
		}
		in.site("index out of range", in.C.M.Not(in.C.Ult(in.C.Resize(iv, in.intWidth(), false), in.C.Const(in.intWidth(), uint64(len(s.Fields))))))
		if k, isc := iv.IsConst(); isc && int(k) < len(s.Fields) {
			fr.vals[x] = s.Fields[k]
		} else if !isc && len(s.Fields) <= 256 {
			var acc Value
			for i := len(s.Fields) - 1; i >= 0; i-- {
				if acc == nil {
					acc = s.Fields[i]
				} else {
					acc = MuxValue(in.C, in.C.Eq(iv, in.C.Const(len(iv), uint64(i))), s.Fields[i], acc)
				}
			}
			fr.vals[x] = acc
		} else {
			in.undecided(x.Pos(), "array value indexed by a non-constant")
		}
	case *ssa.UnOp:
		fr.vals[x] = in.unop(fr, x, pred, st)
	case *ssa.BinOp:
		fr.vals[x] = in.binop(fr, x)
	case *ssa.Store:
		addr := in.operand(fr, x.Addr)
		val := in.operand(fr, x.Val)
		if p, ok := addr.(*Ptr); ok && strings.HasPrefix(p.Root, "global:") && !in.NoGlobalEvents {
			in.T.Emit(pred, "GlobalWrite", p.Root, nil, 0, in.P.Pos(x.Pos()))
		}
		in.Store(st, addr, x.Val.Type(), val, bdd.True, x.Pos())
	case *ssa.Convert:
		fr.vals[x] = in.convert(fr, x)
	case *ssa.ChangeType:
		fr.vals[x] = in.operand(fr, x.X)
	case *ssa.ChangeInterface:
		fr.vals[x] = in.operand(fr, x.X)
	case *ssa.MakeInterface:
		fr.vals[x] = &Iface{Nil: bdd.False, Conc: in.operand(fr, x.X), ConcType: x.X.Type()}
	case *ssa.Extract:
		t, ok := in.operand(fr, x.Tuple).(*Tuple)
		if !ok {
			in.undecided(x.Pos(), "extract from non-tuple")
		}
		fr.vals[x] = t.Elems[x.Index]
	case *ssa.Slice:
		fr.vals[x] = in.slice(fr, x)
	case *ssa.TypeAssert:
		iv, ok := in.operand(fr, x.X).(*Iface)
		if ok && iv.Sym != "" && x.CommaOk {
			name := iv.Sym + ".(" + types.TypeString(x.AssertedType, func(p *types.Package) string { return p.Name() }) + ")"
			var v Value
			switch x.AssertedType.Underlying().(type) {
			case *types.Map:
				v = &Map{Sym: name, Nil: in.nilVar(name)}
			case *types.Slice:
				v = &Slice{Sym: name, Nil: bdd.False, Len: C.Zext(C.Atom("len("+name+")", in.intWidth()-1), in.intWidth())}
			default:
				if w, _, okw := in.width(x.AssertedType); okw {
					v = C.Atom("Init("+name+")", w)
				} else {
					in.undecided(x.Pos(), "type assertion to %s", x.AssertedType)
				}
			}
			fr.vals[x] = &Tuple{Elems: []Value{v, C.Atom("ok("+name+")", 1)}}
			return
		}
		if !ok || iv.Sym != "" || iv.Nil != bdd.False {
			in.undecided(x.Pos(), "type assertion on a symbolic interface value")
		}
		match := types.Identical(iv.ConcType, x.AssertedType)
		var matched Value = iv.Conc
		if it, isIface := x.AssertedType.Underlying().(*types.Interface); isIface {
			// assertion to an interface type: the dynamic type must implement it,
			// and the result is again an interface value holding the same value
			match = types.Implements(iv.ConcType, it)
			matched = &Iface{Nil: bdd.False, Conc: iv.Conc, ConcType: iv.ConcType}
		}
		if x.CommaOk {
			var v Value = in.zero(x.AssertedType)
			okb := C.Const(1, 0)
			if match {
				v, okb = matched, C.Const(1, 1)
			}
			fr.vals[x] = &Tuple{Elems: []Value{v, okb}}
		} else {
			if !match {
				in.T.Emit(pred, "Panic", "", nil, 0, in.P.Pos(x.Pos()))
				fr.vals[x] = in.zero(x.AssertedType)
			} else {
				fr.vals[x] = matched
			}
		}
	case *ssa.MakeClosure:
		fv := &FuncV{}
		fv.Fn, _ = x.Fn.(*ssa.Function)
		for _, b := range x.Bindings {
			fv.Bindings = append(fv.Bindings, in.operand(fr, b))
		}
		fr.vals[x] = fv
	case *ssa.Select:
		// the non-blocking poll of a context's Done channel:
		//   select { case <-done: ...; default: }
		if !x.Blocking && len(x.States) == 1 && x.States[0].Dir == types.RecvOnly && in.OnPoll != nil {
			if o, ok := in.operand(fr, x.States[0].Chan).(*Opaque); ok && strings.HasPrefix(o.Why, "done:") {
				ready := in.OnPoll(strings.TrimPrefix(o.Why, "done:"))
				w := in.intWidth()
				tup := x.Type().(*types.Tuple)
				t := &Tuple{Elems: []Value{C.Mux(ready, C.Const(w, 0), C.Const(w, ^uint64(0))), dom.BV{ready}}}
				for i := 2; i < tup.Len(); i++ {
					t.Elems = append(t.Elems, in.zero(tup.At(i).Type()))
				}
				fr.vals[x] = t
				return
			}
		}
		if !x.Blocking && len(x.States) == 1 && x.States[0].Dir == types.RecvOnly && in.Chans != nil && in.OnPollChan != nil {
			// the same poll on a channel the code made (nil: never ready)
			alts := in.chanAlts(in.operand(fr, x.States[0].Chan), pred)
			okAlts := len(alts) > 0
			var name string
			notNil := bdd.False
			for _, a := range alts {
				switch {
				case a.name == "chan:nil":
				case strings.HasPrefix(a.name, "chan#") && (name == "" || name == a.name):
					name = a.name
					notNil = in.C.M.Or(notNil, a.g)
				default:
					okAlts = false
				}
			}
			if okAlts && name != "" {
				ready := in.C.M.And(in.OnPollChan(name, pred, in.P.Pos(x.Pos())), in.C.M.Or(notNil, in.C.M.Not(pred)))
				w := in.intWidth()
				tup := x.Type().(*types.Tuple)
				in.allocN++
				t := &Tuple{Elems: []Value{C.Mux(ready, C.Const(w, 0), C.Const(w, ^uint64(0))), C.Atom(fmt.Sprintf("recvOk@%d", in.allocN), 1)}}
				for i := 2; i < tup.Len(); i++ {
					et := tup.At(i).Type()
					if stt, isStruct := et.Underlying().(*types.Struct); (isStruct && stt.NumFields() == 0) || in.OnRecv == nil {
						t.Elems = append(t.Elems, in.zero(et))
					} else {
						t.Elems = append(t.Elems, in.OnRecv(name, et, in.C.M.And(pred, ready), in.P.Pos(x.Pos())))
					}
				}
				fr.vals[x] = t
				return
			}
		}
		if in.Chans != nil && in.OnSelect != nil {
			if t, ok := in.selectRecv(fr, x, pred); ok {
				fr.vals[x] = t
				return
			}
		}
		in.undecided(x.Pos(), "select statement outside the modelled form (a non-blocking poll of a context's Done channel)")
	case *ssa.MakeChan:
		if in.Chans == nil {
			in.undecided(x.Pos(), "make(chan)")
		}
		sz, ok := in.operand(fr, x.Size).(dom.BV)
		n, isc := uint64(0), false
		if ok {
			n, isc = sz.IsConst()
		}
		if !isc {
			in.undecided(x.Pos(), "make(chan T, n) with a non-constant capacity")
		}
		in.allocN++
		name := fmt.Sprintf("chan#%d", in.allocN)
		in.Chans[name] = &ChanInfo{Cap: n, Elem: x.Type().Underlying().(*types.Chan).Elem(), Pos: in.P.Pos(x.Pos())}
		fr.vals[x] = &Opaque{Why: name}
	case *ssa.Send:
		if in.Chans == nil || in.OnSend == nil {
			in.undecided(x.Pos(), "channel send")
		}
		alts := in.chanAlts(in.operand(fr, x.Chan), pred)
		if len(alts) != 1 || !strings.HasPrefix(alts[0].name, "chan#") {
			in.undecided(x.Pos(), "send on a channel that is not one made by this code (or nil: blocks for ever)")
		}
		in.site("send on a closed channel", bdd.False) // (that nobody closes a channel that is sent on is the protocol's concern)
		in.T.Emit(pred, "chan.send", alts[0].name, nil, 0, in.P.Pos(x.Pos()))
		in.OnSend(alts[0].name, in.operand(fr, x.X), pred, st, in.P.Pos(x.Pos()))
	case *ssa.Go:
		if in.OnGo == nil {
			in.undecided(x.Pos(), "go statement")
		}
		var fv *FuncV
		if f := x.Call.StaticCallee(); f != nil {
			fv = &FuncV{Fn: f}
			if mc, ok := x.Call.Value.(*ssa.MakeClosure); ok {
				if v, ok := in.operand(fr, mc).(*FuncV); ok {
					fv = v
				}
			}
		} else if v, ok := in.operand(fr, x.Call.Value).(*FuncV); ok {
			fv = v
		}
		var args []Value
		for _, a := range x.Call.Args {
			args = append(args, in.operand(fr, a))
		}
		in.OnGo(in, fv, args, pred, st, in.P.Pos(x.Pos()))
	case *ssa.Defer:
		d := deferRec{name: "func value", guard: pred}
		if f := x.Call.StaticCallee(); f != nil {
			d.name = f.String()
			if h, ok := in.Models[f.String()]; ok && !load.InModule(f) && !x.Call.IsInvoke() {
				d.model = h
				for _, a := range x.Call.Args {
					d.args = append(d.args, in.operand(fr, a))
				}
			}
			if load.InModule(f) && f.Blocks != nil && !x.Call.IsInvoke() {
				// a function of the module: interpreted when the deferred calls run
				// (arguments and closure bindings are evaluated now, as Go does)
				d.fn = f
				if mc, ok := x.Call.Value.(*ssa.MakeClosure); ok {
					if fv, ok := in.operand(fr, mc).(*FuncV); ok {
						d.bindings = fv.Bindings
					}
				}
				for _, a := range x.Call.Args {
					d.args = append(d.args, in.operand(fr, a))
				}
			}
		} else if b, ok := x.Call.Value.(*ssa.Builtin); ok && b.Name() == "close" && in.Chans != nil {
			d.name, d.builtin = "close", "close"
			d.args = []Value{in.operand(fr, x.Call.Args[0])}
		} else if o, ok := in.operand(fr, x.Call.Value).(*Opaque); ok {
			d.name = o.Why
		} else if fv, ok := in.operand(fr, x.Call.Value).(*FuncV); ok && fv.Fn != nil && load.InModule(fv.Fn) && fv.Fn.Blocks != nil {
			d.name, d.fn, d.bindings = fv.Fn.String(), fv.Fn, fv.Bindings
			for _, a := range x.Call.Args {
				d.args = append(d.args, in.operand(fr, a))
			}
		} else if mv, ok := in.operand(fr, x.Call.Value).(*MuxV); ok {
			// one of several functions, depending on the state: each is run under its condition
			d.name, d.mux = "func value (one of several)", mv
			for _, a := range x.Call.Args {
				d.args = append(d.args, in.operand(fr, a))
			}
		}
		fr.defers = append(fr.defers, d)
	case *ssa.RunDefers:
		for i := len(fr.defers) - 1; i >= 0; i-- {
			d := fr.defers[i]
			g := in.C.M.And(pred, d.guard)
			if g == bdd.False {
				continue
			}
			in.T.Emit(g, "deferred:"+d.name, "", nil, 0, in.P.Pos(x.Pos()))
			if d.builtin == "close" {
				in.closeChan(d.args[0], g, x.Pos())
			}
			if d.mux != nil {
				in.deferDepth++
				_, okAlt := in.callAlternatives(d.mux, d.args, g, st, x.Pos())
				in.deferDepth--
				if !okAlt {
					in.undecided(x.Pos(), "deferred call of a function value that is not resolved")
				}
				in.curPred = pred
			}
			if d.model != nil {
				if _, handled := d.model(in, d.args, g, st, in.P.Pos(x.Pos())); !handled {
					in.undecided(x.Pos(), "deferred call of %s", d.name)
				}
			}
			if d.fn != nil {
				// the deferred function's effects (e.g. on named results) take place
				// before the function returns; on the paths that did not register it
				// the state is kept
				in.deferDepth++
				_, out := in.callBound(d.fn, d.args, d.bindings, g, st.Clone(), x.Pos())
				in.deferDepth--
				if g == pred {
					*st = *out
				} else {
					_, cur := in.mergeStates([]inEdge{{nil, g, out}, {nil, in.C.M.And(pred, in.C.M.Not(d.guard)), st.Clone()}})
					*st = *cur
				}
				in.curPred = pred
			}
		}
	case *ssa.MakeSlice:
		lv, ok := in.operand(fr, x.Len).(dom.BV)
		n, isc := uint64(0), false
		if ok {
			n, isc = lv.IsConst()
		}
		if ok && !isc {
			// a fresh zero-filled slice of symbolic length
			in.allocN++
			name := fmt.Sprintf("make#%d", in.allocN)
			in.roots["elems:"+name] = &rootInfo{} // elements start as zero
			fr.vals[x] = &Slice{Sym: name, Nil: bdd.False, Len: lv}
			return
		}
		if !isc || n > maxArrayLeaves {
			in.undecided(x.Pos(), "make([]T, n) with a non-constant or large length")
		}
		in.allocN++
		r := fmt.Sprintf("alloc#%d", in.allocN)
		in.roots[r] = &rootInfo{}
		elem := x.Type().Underlying().(*types.Slice).Elem()
		for i := 0; i < int(n); i++ {
			st.Set(r, elemPath("", i), in.zero(elem))
		}
		fr.vals[x] = &Slice{Root: r, Lo: 0, Len: C.Const(in.intWidth(), n), Nil: bdd.False}
	case *ssa.Call:
		fr.vals[x] = in.callInstr(fr, x, pred, st)
		in.curPred = pred
	case *ssa.Lookup:
		fr.vals[x] = in.lookup(fr, x, pred)
	case *ssa.MapUpdate:
		m, ok := in.operand(fr, x.Map).(*Map)
		k, ok2 := in.operand(fr, x.Key).(dom.BV)
		v, ok3 := in.operand(fr, x.Value).(dom.BV)
		if !ok || !ok2 || !ok3 || m.Sym == "" {
			in.undecided(x.Pos(), "map update outside the modelled fragment")
		}
		in.site("insert into a nil map", m.Nil)
		in.T.Emit(pred, "map.set", m.Sym, []dom.BV{k, v}, 0, in.P.Pos(x.Pos()))
	case *ssa.MakeMap:
		in.allocN++
		fr.vals[x] = &Map{Sym: fmt.Sprintf("newmap#%d", in.allocN), Nil: bdd.False}
	case *ssa.Range:
		m, ok := in.operand(fr, x.X).(*Map)
		if !ok {
			in.undecided(x.Pos(), "range over a non-map")
		}
		in.rangeN++
		fr.vals[x] = &RangeIter{Map: m, ID: in.rangeN}
	case *ssa.Next:
		it, ok := in.operand(fr, x.Iter).(*RangeIter)
		if !ok {
			in.undecided(x.Pos(), "next on a non-map iterator")
		}
		mt := x.Iter.(*ssa.Range).X.Type().Underlying().(*types.Map)
		kw, _, ok1 := in.width(mt.Key())
		vw, _, ok2 := in.width(mt.Elem())
		if !ok1 || !ok2 {
			in.undecided(x.Pos(), "range over a map of non-integers")
		}
		_ = vw
		pre := fmt.Sprintf("range#%d(%s)", it.ID, it.Map.Sym)
		fr.vals[x] = &Tuple{Elems: []Value{C.Atom(pre+".more", 1), C.Atom(pre+".key", kw), C.Atom(pre+".value", vw)}}
	default:
		in.undecided(instr.Pos(), "unsupported instruction %T (%s) in %s", instr, instr.String(), fr.fn.String())
	}
}

func (in *Interp) indexAddr(fr *frame, x *ssa.IndexAddr) Value {
	base := in.operand(fr, x.X)
	iv, ok := in.operand(fr, x.Index).(dom.BV)
	if !ok {
		in.undecided(x.Pos(), "non-integer index")
	}
	k, isConst := iv.IsConst()
	in.indexSite(x, base, iv)
	switch b := base.(type) {
	case *Ptr: // pointer to array
		if !isConst {
			if strings.HasPrefix(b.Root, "global:") && !in.ReadableGlobals[b.Root] && !in.NoGlobalEvents {
				// a table with a writer outside initialisation: contents unknown
				return &Ptr{Root: b.Root + "/" + b.Path, Nil: bdd.False, Idx: in.C.Resize(iv, in.intWidth(), false)}
			}
			if at, ok := x.X.Type().Underlying().(*types.Pointer).Elem().Underlying().(*types.Array); ok && at.Len() <= 256 {
				// a small table indexed by a value: a choice among its cells
				pc := &PtrChoice{}
				for i := 0; i < int(at.Len()); i++ {
					pc.Conds = append(pc.Conds, in.C.Eq(iv, in.C.Const(len(iv), uint64(i))))
					pc.Ptrs = append(pc.Ptrs, &Ptr{Root: b.Root, Path: elemPath(b.Path, i), Nil: bdd.False})
				}
				return pc
			}
			if at, ok := x.X.Type().Underlying().(*types.Pointer).Elem().Underlying().(*types.Array); ok && at.Len() > 256 {
				// a large array cell addressed by a value: recorded as element events on the array's name
				return &Ptr{Root: b.Root + "/" + b.Path, Nil: bdd.False, Idx: in.C.Resize(iv, in.intWidth(), false)}
			}
			in.undecided(x.Pos(), "array indexed by a non-constant through a pointer")
		}
		return &Ptr{Root: b.Root, Path: elemPath(b.Path, int(k)), Nil: bdd.False}
	case *Slice:
		if b.Rope != nil {
			in.undecided(x.Pos(), "element access into the result of append")
		}
		if b.Sym != "" && (!isConst || b.LoV != nil) {
			idx := in.C.Resize(iv, in.intWidth(), false)
			if b.LoV != nil {
				idx = in.C.Add(idx, b.LoV)
			} else if b.Lo != 0 {
				idx = in.C.AddK(idx, int64(b.Lo))
			}
			return &Ptr{Root: b.Sym, Nil: bdd.False, Idx: idx}
		}
		if b.Sym != "" {
			r := "elems:" + b.Sym
			if _, ok := in.roots[r]; !ok {
				in.roots[r] = &rootInfo{Symbolic: true, Prefix: b.Sym}
			}
			return &Ptr{Root: r, Path: elemPath("", b.Lo+int(k)), Nil: bdd.False}
		}
		if isConst {
			return &Ptr{Root: b.Root, Path: elemPath(b.Path, b.Lo+int(k)), Nil: bdd.False}
		}
		n, lc := b.Len.IsConst()
		if !lc || n > 256 {
			in.undecided(x.Pos(), "slice of unknown length indexed by a non-constant")
		}
		pc := &PtrChoice{}
		for i := 0; i < int(n); i++ {
			pc.Conds = append(pc.Conds, in.C.Eq(iv, in.C.Const(len(iv), uint64(i))))
			pc.Ptrs = append(pc.Ptrs, &Ptr{Root: b.Root, Path: elemPath(b.Path, b.Lo+i), Nil: bdd.False})
		}
		if len(pc.Ptrs) == 0 {
			in.undecided(x.Pos(), "index into empty slice")
		}
		return pc
	}
	if pc0, ok := base.(*PtrChoice); ok {
		// a further dimension of a small table: the choice is refined
		at, isArr := x.X.Type().Underlying().(*types.Pointer).Elem().Underlying().(*types.Array)
		if isArr && at.Len() <= 256 && int64(len(pc0.Ptrs))*at.Len() <= 4096 {
			pc := &PtrChoice{}
			for j, p0 := range pc0.Ptrs {
				if isConst {
					pc.Conds = append(pc.Conds, pc0.Conds[j])
					pc.Ptrs = append(pc.Ptrs, &Ptr{Root: p0.Root, Path: elemPath(p0.Path, int(k)), Nil: bdd.False})
					continue
				}
				for i := 0; i < int(at.Len()); i++ {
					c := in.C.M.And(pc0.Conds[j], in.C.Eq(iv, in.C.Const(len(iv), uint64(i))))
					if c == bdd.False {
						continue
					}
					pc.Conds = append(pc.Conds, c)
					pc.Ptrs = append(pc.Ptrs, &Ptr{Root: p0.Root, Path: elemPath(p0.Path, i), Nil: bdd.False})
				}
			}
			if len(pc.Ptrs) > 0 {
				return pc
			}
		}
	}
	in.undecided(x.Pos(), "index address of %T", base)
	return nil
}

func (in *Interp) slice(fr *frame, x *ssa.Slice) Value {
	base := in.operand(fr, x.X)
	if x.Max != nil {
		in.undecided(x.Pos(), "3-index slice")
	}
	cidx := func(v ssa.Value, def int) int {
		if v == nil {
			return def
		}
		bv, ok := in.operand(fr, v).(dom.BV)
		if !ok {
			in.undecided(x.Pos(), "slice bound")
		}
		k, isc := bv.IsConst()
		if !isc {
			in.undecided(x.Pos(), "non-constant slice bound")
		}
		return int(k)
	}
	switch b := base.(type) {
	case *Ptr:
		at, ok := x.X.Type().Underlying().(*types.Pointer).Elem().Underlying().(*types.Array)
		if !ok {
			in.undecided(x.Pos(), "slice of non-array pointer")
		}
		lo := cidx(x.Low, 0)
		hi := cidx(x.High, int(at.Len()))
		return &Slice{Root: b.Root, Path: b.Path, Lo: lo, Len: in.C.Const(in.intWidth(), uint64(hi-lo)), Nil: bdd.False}
	case *Slice:
		if x.Low == nil && x.High == nil {
			return b
		}
		if b.Rope != nil {
			in.undecided(x.Pos(), "slice of the result of append")
		}
		w := in.intWidth()
		bound := func(v ssa.Value, def dom.BV) dom.BV {
			if v == nil {
				return def
			}
			bv, ok := in.operand(fr, v).(dom.BV)
			if !ok {
				in.undecided(x.Pos(), "slice bound")
			}
			return in.C.Resize(bv, w, true)
		}
		lo := bound(x.Low, in.C.Const(w, 0))
		hi := bound(x.High, b.Len)
		if b.Sym != "" && b.LoV == nil && b.Lo == 0 {
			if k, isc := lo.IsConst(); isc && k == 0 {
				return &Slice{Sym: b.Sym, Nil: b.Nil, Len: hi}
			}
			return &Slice{Sym: b.Sym, Nil: b.Nil, LoV: lo, Len: in.C.Sub(hi, lo)}
		}
		if b.Sym == "" {
			lk, ok1 := lo.IsConst()
			hk, ok2 := hi.IsConst()
			if ok1 && ok2 {
				return &Slice{Root: b.Root, Path: b.Path, Lo: b.Lo + int(lk), Len: in.C.Const(w, hk-lk), Nil: b.Nil}
			}
		}
	}
	if sv, ok := base.(*Str); ok && sv.Sym != "" && x.Max == nil {
		// prefix of a symbolic string: s[:hi]
		if x.Low != nil {
			if lv, ok := in.operand(fr, x.Low).(dom.BV); ok {
				if k, isc := lv.IsConst(); !isc || k != 0 {
					in.undecided(x.Pos(), "string slice with a non-zero lower bound")
				}
			}
		}
		if x.High == nil {
			return sv
		}
		if hv, ok := in.operand(fr, x.High).(dom.BV); ok {
			return &Str{Sym: sv.Sym, Len: in.C.Resize(hv, in.intWidth(), true)}
		}
	}
	in.undecided(x.Pos(), "unsupported slice expression on %T", base)
	return nil
}

// SymElem is element idx of the symbolic slice or string sym (the atom
// Init(sym[idx]) unless the element was stored to).
func (in *Interp) SymElem(st *State, sym string, idx int, elemT types.Type) Value {
	r := "elems:" + sym
	if _, ok := in.roots[r]; !ok {
		in.roots[r] = &rootInfo{Symbolic: true, Prefix: sym}
	}
	return in.loadAt(st, r, in.roots[r], elemPath("", idx), elemT)
}

// RopeOf renders a byte slice (or string) as rope segments.
func (in *Interp) RopeOf(st *State, v Value) ([]Seg, bool) {
	byteT := types.Typ[types.Uint8]
	switch s := v.(type) {
	case *Str:
		if s.Const != nil {
			var bs []dom.BV
			for i := 0; i < len(*s.Const); i++ {
				bs = append(bs, in.C.Const(8, uint64((*s.Const)[i])))
			}
			return []Seg{{Bytes: bs}}, true
		}
		if s.Sym != "" {
			return []Seg{{Sym: s.Sym, Len: s.Len}}, true
		}
	case *Slice:
		switch {
		case s.Rope != nil:
			return s.Rope, true
		case s.Sym != "":
			if s.LoV != nil {
				return nil, false
			}
			return []Seg{{Sym: s.Sym, Lo: s.Lo, Len: s.Len}}, true
		default:
			n, isc := s.Len.IsConst()
			if !isc || n > maxArrayLeaves {
				return nil, false
			}
			var bs []dom.BV
			for i := 0; i < int(n); i++ {
				ev, ok := st.Get(s.Root, elemPath(s.Path, s.Lo+i))
				bv, ok2 := ev.(dom.BV)
				if !ok {
					ri := in.roots[s.Root]
					if ri == nil {
						return nil, false
					}
					bv, ok2 = in.loadAt(st, s.Root, ri, elemPath(s.Path, s.Lo+i), byteT).(dom.BV)
				}
				if !ok2 || len(bv) != 8 {
					return nil, false
				}
				bs = append(bs, bv)
			}
			if len(bs) == 0 {
				return []Seg{}, true
			}
			return []Seg{{Bytes: bs}}, true
		}
	}
	return nil, false
}

// appendBuiltin models append on byte slices: the result is a rope.
func (in *Interp) appendBuiltin(args []Value, st *State, x *ssa.Call) (Value, bool) {
	st0, ok := x.Call.Args[0].Type().Underlying().(*types.Slice)
	if !ok {
		return nil, false
	}
	if b, ok := st0.Elem().Underlying().(*types.Basic); !ok || b.Kind() != types.Uint8 {
		return in.appendConcrete(args, st, st0.Elem(), x)
	}
	a, ok1 := in.RopeOf(st, args[0])
	if s0, isS := args[0].(*Slice); isS && s0.Nil == bdd.True {
		a, ok1 = []Seg{}, true
	}
	b, ok2 := in.RopeOf(st, args[1])
	if s1, isS := args[1].(*Slice); isS && s1.Nil == bdd.True {
		b, ok2 = []Seg{}, true
	}
	if !ok1 || !ok2 {
		return nil, false
	}
	w := in.intWidth()
	rope := append(append([]Seg{}, a...), b...)
	total := in.C.Const(w, 0)
	for _, sg := range rope {
		if sg.Bytes != nil {
			total = in.C.AddK(total, int64(len(sg.Bytes)))
		} else {
			total = in.C.Add(total, sg.Len)
		}
	}
	return &Slice{Nil: bdd.False, Len: total, Rope: rope}, true
}

func (in *Interp) unop(fr *frame, x *ssa.UnOp, pred bdd.Node, st *State) Value {
	v := in.operand(fr, x.X)
	switch x.Op {
	case token.MUL:
		if st0, isStruct := x.Type().Underlying().(*types.Struct); isStruct && st0.NumFields() == 0 {
			// a value without content (encoding/binary.LittleEndian): nothing is read
			return &Struct{}
		}
		if p, ok := v.(*Ptr); ok && strings.HasPrefix(p.Root, "global:") && !in.NoGlobalEvents && !in.ReadableGlobals[p.Root] {
			in.T.Emit(pred, "GlobalRead", p.Root, nil, 0, in.P.Pos(x.Pos()))
		}
		if pc, ok := v.(*PtrChoice); ok && len(pc.Ptrs) > 0 && strings.HasPrefix(pc.Ptrs[0].Root, "global:") && !in.NoGlobalEvents && !in.ReadableGlobals[pc.Ptrs[0].Root] {
			in.T.Emit(pred, "GlobalRead", pc.Ptrs[0].Root, nil, 0, in.P.Pos(x.Pos()))
		}
		return in.Load(st, v, x.Type(), x.Pos())
	case token.ARROW:
		if o, ok := v.(*Opaque); ok && strings.HasPrefix(o.Why, "done:") {
			in.T.Emit(pred, "chan.recv", strings.TrimPrefix(o.Why, "done:"), nil, 0, in.P.Pos(x.Pos()))
			if x.CommaOk {
				return &Tuple{Elems: []Value{in.zero(x.Type().(*types.Tuple).At(0).Type()), in.C.Const(1, 0)}}
			}
			return in.zero(x.Type())
		}
		if in.Chans != nil && in.OnRecv != nil {
			alts := in.chanAlts(v, pred)
			if len(alts) == 1 && strings.HasPrefix(alts[0].name, "chan#") {
				in.T.Emit(pred, "chan.recv", alts[0].name, nil, 0, in.P.Pos(x.Pos()))
				et := x.Type()
				if x.CommaOk {
					et = x.Type().(*types.Tuple).At(0).Type()
				}
				val := in.OnRecv(alts[0].name, et, pred, in.P.Pos(x.Pos()))
				if x.CommaOk {
					in.allocN++
					return &Tuple{Elems: []Value{val, in.C.Atom(fmt.Sprintf("recvOk@%d", in.allocN), 1)}}
				}
				return val
			}
			in.undecided(x.Pos(), "receive from a channel that is not one made by this code (or nil: blocks for ever)")
		}
	case token.NOT, token.XOR:
		if bv, ok := v.(dom.BV); ok {
			return in.C.Not(bv)
		}
	case token.SUB:
		if bv, ok := v.(dom.BV); ok {
			return in.C.Neg(bv)
		}
	}
	in.undecided(x.Pos(), "unsupported unary %s on %T", x.Op, v)
	return nil
}

func (in *Interp) isNil(v Value, pos token.Pos) bdd.Node {
	switch x := v.(type) {
	case *Ptr:
		return x.Nil
	case *Iface:
		return x.Nil
	case *Map:
		return x.Nil
	case *Slice:
		if x.Sym == "" {
			return x.Nil
		}
	case *MuxV:
		return in.C.M.Ite(x.P, in.isNil(x.A, pos), in.isNil(x.B, pos))
	case *FuncV:
		if x.Fn == nil {
			return bdd.True
		}
		return bdd.False
	case *PtrChoice:
		return bdd.False // addresses of table cells
	case *Opaque:
		switch {
		case x.Why == "chan:nil":
			return bdd.True
		case strings.HasPrefix(x.Why, "chan#"):
			return bdd.False
		case strings.HasPrefix(x.Why, "done:"):
			// Done() of a context that can never be cancelled is nil
			return in.C.Atom("IsNil("+x.Why+")", 1)[0]
		}
	}
	if o, ok := v.(*Opaque); ok {
		in.undecided(pos, "nil comparison of an unmodelled value (%s)", o.Why)
	}
	in.undecided(pos, "nil comparison of %T", v)
	return bdd.False
}

func isNilConst(v ssa.Value) bool {
	c, ok := v.(*ssa.Const)
	return ok && c.Value == nil
}

func (in *Interp) binop(fr *frame, x *ssa.BinOp) Value {
	C := in.C
	a, b := in.operand(fr, x.X), in.operand(fr, x.Y)
	av, aok := a.(dom.BV)
	bv, bok := b.(dom.BV)
	if !aok || !bok {
		if sa, ok := a.(*Str); ok {
			if sb, ok := b.(*Str); ok && (x.Op == token.EQL || x.Op == token.NEQ) {
				var eq bdd.Node
				switch {
				case sb.Const != nil && *sb.Const == "":
					eq = C.IsZero(sa.Len)
				case sa.Const != nil && *sa.Const == "":
					eq = C.IsZero(sb.Len)
				case sa.Const != nil && sb.Const != nil:
					eq = bdd.False
					if *sa.Const == *sb.Const {
						eq = bdd.True
					}
				default:
					in.undecided(x.Pos(), "comparison of two symbolic strings")
				}
				if x.Op == token.NEQ {
					eq = C.M.Not(eq)
				}
				return C.Bool(eq)
			}
		}
		// nil comparisons
		if x.Op == token.EQL || x.Op == token.NEQ {
			var n bdd.Node
			switch {
			case isNilConst(x.Y):
				n = in.isNil(a, x.Pos())
			case isNilConst(x.X):
				n = in.isNil(b, x.Pos())
			default:
				if eq, ok := in.ifaceEq(a, b); ok {
					n = eq
					break
				}
				in.undecided(x.Pos(), "comparison of %T and %T", a, b)
			}
			if x.Op == token.NEQ {
				n = C.M.Not(n)
			}
			return C.Bool(n)
		}
		if _, isS := a.(*Str); isS && x.Op == token.ADD {
			return &Opaque{Why: "string expr"}
		}
		if _, isS := b.(*Str); isS && x.Op == token.ADD {
			return &Opaque{Why: "string expr"}
		}
		if _, isO := a.(*Opaque); isO {
			return &Opaque{Why: "expr"}
		}
		if _, isO := b.(*Opaque); isO {
			return &Opaque{Why: "expr"}
		}
		in.undecided(x.Pos(), "binary %s on %T and %T", x.Op, a, b)
	}
	_, signed, _ := in.width(x.X.Type())
	switch x.Op {
	case token.SHL, token.SHR:
		if _, ssigned, _ := in.width(x.Y.Type()); ssigned {
			// Go panics on negative shift counts; treat the count as unsigned
			// only when its sign bit is provably clear.
			if bv[len(bv)-1] != bdd.False {
				in.undecided(x.Pos(), "shift by a possibly negative amount")
			}
		}
		return C.ShiftV(av, bv, x.Op == token.SHL, signed)
	}
	if len(av) != len(bv) {
		in.undecided(x.Pos(), "operand widths differ: %d vs %d", len(av), len(bv))
	}
	switch x.Op {
	case token.ADD:
		return C.Add(av, bv)
	case token.SUB:
		return C.Sub(av, bv)
	case token.AND:
		return C.And(av, bv)
	case token.OR:
		return C.Or(av, bv)
	case token.XOR:
		return C.Xor(av, bv)
	case token.AND_NOT:
		return C.AndNot(av, bv)
	case token.MUL:
		_, ac := av.IsConst()
		_, bc := bv.IsConst()
		if !ac && !bc {
			sup := map[int32]bool{}
			C.M.SupportOf(sup, av...)
			C.M.SupportOf(sup, bv...)
			if len(sup) > 16 {
				in.undecided(x.Pos(), "multiplication of two wide symbolic values")
			}
		}
		return C.Mul(av, bv)
	case token.QUO, token.REM:
		k, isc := bv.IsConst()
		if !isc || k == 0 || k&(k-1) != 0 {
			in.undecided(x.Pos(), "division by other than a constant power of two")
		}
		sh := 0
		for 1<<uint(sh) != k {
			sh++
		}
		q, r := C.QuoRemPow2(av, sh, signed)
		if x.Op == token.QUO {
			return q
		}
		return r
	case token.EQL:
		return C.Bool(C.Eq(av, bv))
	case token.NEQ:
		return C.Bool(C.M.Not(C.Eq(av, bv)))
	case token.LSS:
		return C.Bool(C.Lt(av, bv, signed))
	case token.GTR:
		return C.Bool(C.Lt(bv, av, signed))
	case token.LEQ:
		return C.Bool(C.M.Not(C.Lt(bv, av, signed)))
	case token.GEQ:
		return C.Bool(C.M.Not(C.Lt(av, bv, signed)))
	}
	in.undecided(x.Pos(), "unsupported binary operator %s", x.Op)
	return nil
}

func (in *Interp) convert(fr *frame, x *ssa.Convert) Value {
	v := in.operand(fr, x.X)
	bv, ok := v.(dom.BV)
	wt, _, tok := in.width(x.Type())
	_, ssigned, sok := in.width(x.X.Type())
	if ok && tok && sok {
		return in.C.Resize(bv, wt, ssigned)
	}
	if _, isO := v.(*Opaque); isO {
		return v
	}
	if sv, ok := v.(*Str); ok {
		if _, isSlice := x.Type().Underlying().(*types.Slice); isSlice && sv.Sym != "" {
			return &Slice{Sym: sv.Sym, Nil: bdd.False, Len: sv.Len}
		}
	}
	in.undecided(x.Pos(), "unsupported conversion %s -> %s", x.X.Type(), x.Type())
	return nil
}

// IfaceKind names an interface method for event kinds: "Memory.Get".
func IfaceKind(recvType types.Type, method *types.Func) string {
	n := "iface"
	if named, ok := recvType.(*types.Named); ok {
		n = named.Obj().Name()
	}
	return n + "." + method.Name()
}

func (in *Interp) callInstr(fr *frame, x *ssa.Call, pred bdd.Node, st *State) Value {
	cc := &x.Call
	pos := in.P.Pos(x.Pos())
	if cc.IsInvoke() {
		recv := in.operand(fr, cc.Value)
		var args []Value
		for _, a := range cc.Args {
			args = append(args, in.operand(fr, a))
		}
		return in.invoke(recv, cc.Value.Type(), cc.Method, args, pred, st, x.Pos())
	}
	var args []Value
	for _, a := range cc.Args {
		args = append(args, in.operand(fr, a))
	}
	if b, ok := cc.Value.(*ssa.Builtin); ok {
		switch b.Name() {
		case "len":
			switch s := args[0].(type) {
			case *Slice:
				return s.Len
			case *Str:
				return s.Len
			case *Map:
				if s.Sym != "" {
					w := in.intWidth()
					return in.C.Zext(in.C.Atom("len("+s.Sym+")", w-1), w)
				}
			}
		case "min", "max":
			// integers only; signedness from the static type
			if len(args) >= 1 {
				acc, ok := args[0].(dom.BV)
				_, signed, okw := in.width(x.Type())
				for _, a := range args[1:] {
					bv, ok2 := a.(dom.BV)
					if !ok || !ok2 || !okw || len(bv) != len(acc) {
						ok = false
						break
					}
					lt := in.C.Lt(bv, acc, signed)
					if b.Name() == "max" {
						lt = in.C.Lt(acc, bv, signed)
					}
					acc = in.C.Mux(lt, bv, acc)
				}
				if ok {
					return acc
				}
			}
		case "recover":
			// no panic is in flight on the paths summarised (panics are C12's subject)
			return &Iface{Nil: bdd.True}
		case "clear":
			if m, ok := args[0].(*Map); ok && m.Sym != "" {
				in.T.Emit(pred, "map.clear", m.Sym, nil, 0, pos)
				return nil
			}
		case "delete":
			m, ok := args[0].(*Map)
			k, ok2 := args[1].(dom.BV)
			if ok && ok2 && m.Sym != "" {
				in.T.Emit(pred, "map.delete", m.Sym, []dom.BV{k}, 0, pos)
				return nil
			}
		case "close":
			if in.Chans != nil {
				in.closeChan(args[0], pred, x.Pos())
				return nil
			}
		case "copy":
			if v, ok := in.copyBuiltin(args, pred, st, x); ok {
				return v
			}
		case "append":
			if v, ok := in.appendBuiltin(args, st, x); ok {
				return v
			}
		}
		in.undecided(x.Pos(), "unsupported builtin %s", b.Name())
	}
	fn := cc.StaticCallee()
	var bindings []Value
	if fn == nil {
		// a call through a function value the analysis has resolved
		callee := in.operand(fr, cc.Value)
		if mv, isMux := callee.(*MuxV); isMux {
			// a function selected by a value (a small table indexed by state):
			// one call per alternative under its condition, results and states merged
			if res, ok := in.callAlternatives(mv, args, pred, st, x.Pos()); ok {
				var each func(v Value)
				each = func(v Value) {
					switch y := v.(type) {
					case *MuxV:
						each(y.A)
						each(y.B)
					case *FuncV:
						if y.Fn != nil {
							logDynCall(x, y.Fn)
						}
					}
				}
				each(mv)
				return res
			}
		}
		if o, isOpaque := callee.(*Opaque); isOpaque && in.OnOpaqueCall != nil {
			// a function value handed out by a modelled library call (a CancelFunc)
			if res, handled := in.OnOpaqueCall(in, o.Why, args, pred, st, pos); handled {
				in.site("call of a nil function value", bdd.False)
				return res
			}
		}
		fv, ok := callee.(*FuncV)
		if ok && fv.Fn == nil {
			in.site("call of a nil function value", bdd.True)
			in.undecided(x.Pos(), "call of a nil function value")
		}
		if !ok {
			logDynCall(x, nil)
			in.undecided(x.Pos(), "dynamic call through a function value that is not resolved to one function")
		}
		in.site("call of a nil function value", bdd.False)
		logDynCall(x, fv.Fn)
		fn, bindings = fv.Fn, fv.Bindings
	} else if mc, ok := cc.Value.(*ssa.MakeClosure); ok {
		if fv, ok := in.operand(fr, mc).(*FuncV); ok {
			bindings = fv.Bindings
		}
	}
	if load.InModule(fn) && fn.Blocks != nil {
		if in.OnCall != nil {
			if res, out, handled := in.OnCall(in, fn, args, pred, st, pos); handled {
				*st = *out
				return res
			}
		}
		res, out := in.callBound(fn, args, bindings, pred, st, x.Pos())
		*st = *out
		return res
	}
	name := fn.String()
	if strings.HasSuffix(name, "]") {
		// drop the type arguments of an instantiated generic method:
		// "(*sync/atomic.Pointer[error]).Load[error]" -> "(*sync/atomic.Pointer).Load"
		var b strings.Builder
		d := 0
		for _, r := range name {
			switch {
			case r == '[':
				d++
			case r == ']':
				d--
			case d == 0:
				b.WriteRune(r)
			}
		}
		name = b.String()
	}
	in.Externals[name]++
	if (in.InterpretExternal[name] || plainLibraryCode(name)) && fn.Blocks != nil {
		res, out := in.callBound(fn, args, bindings, pred, st, x.Pos())
		*st = *out
		return res
	}
	if h, ok := in.Models[name]; ok {
		if v, handled := h(in, args, pred, st, pos); handled {
			return v
		}
	}
	switch name {
	case "math/bits.OnesCount8", "math/bits.OnesCount16", "math/bits.OnesCount32", "math/bits.OnesCount64", "math/bits.OnesCount":
		if bv, ok := args[0].(dom.BV); ok {
			return in.C.PopCount(bv, in.intWidth())
		}
	case "math/bits.RotateLeft8", "math/bits.RotateLeft16", "math/bits.RotateLeft32", "math/bits.RotateLeft64", "math/bits.RotateLeft":
		if bv, ok := args[0].(dom.BV); ok {
			if kv, ok := args[1].(dom.BV); ok {
				n := len(bv)
				if k, isc := kv.IsConst(); isc {
					// the count is an int: negative counts rotate right
					sh := int(int64(k<<(64-uint(len(kv)))) >> (64 - uint(len(kv))))
					sh = ((sh % n) + n) % n
					out := make(dom.BV, n)
					for i := 0; i < n; i++ {
						out[(i+sh)%n] = bv[i]
					}
					return out
				}
				// symbolic count: only its low log2(n) bits matter (n is a power of two)
				lg := 0
				for 1<<uint(lg) < n {
					lg++
				}
				out := bv
				for b := 0; b < lg; b++ {
					rot := make(dom.BV, n)
					for i := 0; i < n; i++ {
						rot[(i+(1<<uint(b)))%n] = out[i]
					}
					out = in.C.Mux(kv[b], rot, out)
				}
				return out
			}
		}
	case "math/bits.Reverse8", "math/bits.Reverse16", "math/bits.Reverse32", "math/bits.Reverse64":
		if bv, ok := args[0].(dom.BV); ok {
			out := make(dom.BV, len(bv))
			for i := range bv {
				out[len(bv)-1-i] = bv[i]
			}
			return out
		}
	case "math/bits.ReverseBytes16", "math/bits.ReverseBytes32", "math/bits.ReverseBytes64":
		if bv, ok := args[0].(dom.BV); ok {
			out := make(dom.BV, 0, len(bv))
			for i := len(bv)/8 - 1; i >= 0; i-- {
				out = append(out, bv[8*i:8*i+8]...)
			}
			return out
		}
	case "math/bits.Add32", "math/bits.Add64", "math/bits.Add", "math/bits.Sub32", "math/bits.Sub64", "math/bits.Sub":
		if len(args) == 3 {
			a, ok1 := args[0].(dom.BV)
			b, ok2 := args[1].(dom.BV)
			c, ok3 := args[2].(dom.BV)
			if ok1 && ok2 && ok3 && len(a) == len(b) {
				// the carry/borrow operand must be 0 or 1 (documented precondition): its bit 0 is used
				n := len(a)
				wide := func(x dom.BV) dom.BV { return in.C.Zext(x, n+1) }
				cin := in.C.Zext(dom.BV{c[0]}, n+1)
				var r dom.BV
				if strings.Contains(name, "Add") {
					r = in.C.Add(in.C.Add(wide(a), wide(b)), cin)
				} else {
					r = in.C.Sub(in.C.Sub(wide(a), wide(b)), cin)
				}
				return &Tuple{Elems: []Value{r.Slice(0, n), in.C.Zext(dom.BV{r[n]}, n)}}
			}
		}
	case "math/bits.TrailingZeros8", "math/bits.TrailingZeros16", "math/bits.TrailingZeros32", "math/bits.TrailingZeros64", "math/bits.TrailingZeros":
		if bv, ok := args[0].(dom.BV); ok {
			w := in.intWidth()
			res := in.C.Const(w, uint64(len(bv))) // zero operand: the width
			for i := len(bv) - 1; i >= 0; i-- {
				res = in.C.Mux(bv[i], in.C.Const(w, uint64(i)), res)
			}
			return res
		}
	case "math/bits.LeadingZeros8", "math/bits.LeadingZeros16", "math/bits.LeadingZeros32", "math/bits.LeadingZeros64", "math/bits.LeadingZeros",
		"math/bits.Len8", "math/bits.Len16", "math/bits.Len32", "math/bits.Len64", "math/bits.Len":
		if bv, ok := args[0].(dom.BV); ok {
			w := in.intWidth()
			length := in.C.Const(w, 0) // Len: index of the highest set bit + 1
			for i := 0; i < len(bv); i++ {
				length = in.C.Mux(bv[i], in.C.Const(w, uint64(i+1)), length)
			}
			if strings.Contains(name, "Len") {
				return length
			}
			return in.C.Sub(in.C.Const(w, uint64(len(bv))), length)
		}
	case "log.Printf", "log.Print", "log.Println":
		in.T.Emit(pred, "Log", "log", nil, 0, pos)
		return nil
	}
	if strings.HasSuffix(name, ".init") && len(args) == 0 {
		return nil // initialisation of an imported package
	}
	if in.LenientExternals || PureLibrary(name) {
		res := fn.Signature.Results()
		switch res.Len() {
		case 0:
			return nil
		case 1:
			return &Opaque{Why: "result of " + name}
		default:
			t := &Tuple{}
			for i := 0; i < res.Len(); i++ {
				t.Elems = append(t.Elems, &Opaque{Why: "result of " + name})
			}
			return t
		}
	}
	in.undecided(x.Pos(), "call of external function %s", name)
	return nil
}

func (in *Interp) invoke(recv Value, recvType types.Type, method *types.Func, args []Value, pred bdd.Node, st *State, pos token.Pos) Value {
	if mv, isMux := recv.(*MuxV); isMux {
		// an interface holding one of several values depending on state (an
		// internal interface with one implementation per case): one call per
		// alternative under its condition, results and states merged
		type alt struct {
			g bdd.Node
			v Value
		}
		var alts []alt
		var walk func(v Value, g bdd.Node)
		walk = func(v Value, g bdd.Node) {
			if g == bdd.False {
				return
			}
			if m, ok := v.(*MuxV); ok {
				walk(m.A, in.C.M.And(g, m.P))
				walk(m.B, in.C.M.And(g, in.C.M.Not(m.P)))
				return
			}
			alts = append(alts, alt{g, v})
		}
		walk(mv, pred)
		if len(alts) == 0 || len(alts) > 16 {
			in.undecided(pos, "invoke on a value with %d alternatives", len(alts))
		}
		var edges []inEdge
		var res Value
		for i, a := range alts {
			out := st.Clone()
			in.curPred = a.g
			r := in.invoke(a.v, recvType, method, args, a.g, out, pos)
			edges = append(edges, inEdge{nil, a.g, out})
			if i == 0 || res == nil {
				res = r
			} else if r != nil {
				res = MuxValue(in.C, a.g, r, res)
			}
		}
		_, cur := in.mergeStates(edges)
		*st = *cur
		in.curPred = pred
		return res
	}
	iv, ok := recv.(*Iface)
	if !ok {
		in.undecided(pos, "invoke on %T", recv)
	}
	in.site("method call on a nil interface", iv.Nil)
	if iv.Nil == bdd.True {
		in.undecided(pos, "invoke on a nil interface")
	}
	if iv.Sym == "" {
		// devirtualise
		ms := in.P.Prog.MethodSets.MethodSet(iv.ConcType)
		sel := ms.Lookup(method.Pkg(), method.Name())
		if sel == nil {
			in.undecided(pos, "method %s not found on %s", method.Name(), iv.ConcType)
		}
		fn := in.P.Prog.MethodValue(sel)
		if fn != nil && (fn.Blocks == nil || !load.InModule(fn)) {
			if h, ok := in.Models[fn.String()]; ok {
				if v, handled := h(in, append([]Value{iv.Conc}, args...), pred, st, in.P.Pos(pos)); handled {
					return v
				}
			}
		}
		if fn == nil || fn.Blocks == nil || !load.InModule(fn) {
			in.undecided(pos, "call of external method %s.%s", iv.ConcType, method.Name())
		}
		res, out := in.call(fn, append([]Value{iv.Conc}, args...), pred, st, pos)
		*st = *out
		return res
	}
	kind := IfaceKind(recvType, method)
	if in.OnInvoke != nil {
		if v, handled := in.OnInvoke(in, kind, iv.Sym, args, pred, st, in.P.Pos(pos)); handled {
			return v
		}
	}
	var bargs []dom.BV
	for _, a := range args {
		bv, ok := a.(dom.BV)
		if !ok {
			in.undecided(pos, "non-integer argument to %s", kind)
		}
		bargs = append(bargs, bv)
	}
	sig := method.Type().(*types.Signature)
	rw := 0
	switch sig.Results().Len() {
	case 0:
	case 1:
		w, _, ok := in.width(sig.Results().At(0).Type())
		if !ok {
			in.undecided(pos, "non-integer result of %s", kind)
		}
		rw = w
	default:
		in.undecided(pos, "multi-result interface method %s", kind)
	}
	res := in.T.Emit(pred, kind, iv.Sym, bargs, rw, in.P.Pos(pos))
	if in.AfterEvent != nil {
		in.AfterEvent(in, st, pred)
	}
	if rw == 0 {
		return nil
	}
	return res
}

// SymbolicValue builds a value of type t whose leaves are atoms named
// prefix+path (used to pass symbolic struct arguments).
func (in *Interp) SymbolicValue(t types.Type, prefix string) Value {
	switch u := t.Underlying().(type) {
	case *types.Struct:
		s := &Struct{Fields: make([]Value, u.NumFields())}
		for i := range s.Fields {
			fd := u.Field(i)
			s.Fields[i] = in.SymbolicValue(fd.Type(), joinPath(prefix, fd.Name(), fd.Embedded()))
		}
		return s
	}
	if w, _, ok := in.width(t); ok {
		return in.C.Atom("Init("+prefix+")", w)
	}
	switch t.Underlying().(type) {
	case *types.Slice:
		w := in.intWidth()
		return &Slice{Sym: prefix, Nil: bdd.False, Len: in.C.Zext(in.C.Atom("len("+prefix+")", w-1), w)}
	case *types.Map:
		return &Map{Sym: prefix, Nil: in.nilVar(prefix)}
	case *types.Interface:
		return &Iface{Sym: prefix, Nil: in.nilVar(prefix)}
	}
	return &Opaque{Why: "symbolic " + prefix}
}

// FuncV is a function value: a plain function or a closure with its bindings.
type FuncV struct {
	Fn       *ssa.Function
	Bindings []Value
}

// Str is a string value: symbolic contents named Sym with a length, or a constant.
type Str struct {
	Sym   string
	Const *string
	Len   dom.BV
}

func (in *Interp) lookup(fr *frame, x *ssa.Lookup, pred bdd.Node) Value {
	m, ok := in.operand(fr, x.X).(*Map)
	k, ok2 := in.operand(fr, x.Index).(dom.BV)
	if !ok || !ok2 || m.Sym == "" {
		in.undecided(x.Pos(), "lookup outside the modelled fragment")
	}
	mt := x.X.Type().Underlying().(*types.Map)
	vw, _, okw := in.width(mt.Elem())
	if !okw {
		// set-like map (struct{} values): only the presence bit matters
		vw = 0
	}
	// the key currently ranged over (and not yet touched in this iteration)
	// is present with the ranged value: language semantics of range
	for id := 1; id <= in.rangeN; id++ {
		pre := fmt.Sprintf("range#%d(%s)", id, m.Sym)
		if !in.C.HasAtom(pre+".key") || vw == 0 {
			continue
		}
		if k.Equal(in.C.Atom(pre+".key", len(k))) {
			touched := false
			for _, e := range in.T.Events {
				if e.Dev == m.Sym && (e.Kind == "map.set" || e.Kind == "map.delete" || e.Kind == "map.clear") {
					touched = true
				}
			}
			if !touched {
				val := in.C.Atom(pre+".value", vw)
				if x.CommaOk {
					return &Tuple{Elems: []Value{val, in.C.Const(1, 1)}}
				}
				return val
			}
		}
	}
	res := in.T.Emit(pred, "map.get", m.Sym, []dom.BV{k}, vw+1, in.P.Pos(x.Pos()))
	present := dom.BV{in.C.M.And(in.C.M.Not(m.Nil), res[vw])} // a nil map has no members
	var val Value
	if vw > 0 {
		val = res.Slice(0, vw)
	} else {
		val = in.zero(mt.Elem())
	}
	if x.CommaOk {
		return &Tuple{Elems: []Value{val, present}}
	}
	if vw > 0 {
		return in.C.Mux(present[0], val.(dom.BV), in.C.Const(vw, 0))
	}
	return val
}

// copyBuiltin models copy(dst, src).
func (in *Interp) copyBuiltin(args []Value, pred bdd.Node, st *State, x *ssa.Call) (Value, bool) {
	dst, ok1 := args[0].(*Slice)
	src, ok2 := args[1].(*Slice)
	if sv, isStr := args[1].(*Str); isStr && sv.Sym != "" {
		src, ok2 = &Slice{Sym: sv.Sym, Nil: bdd.False, Len: sv.Len}, true
	}
	if ok1 && ok2 && dst.Rope == nil && src.Rope != nil && dst.Sym == "" {
		// source built by append from known bytes: element-wise into a concrete window
		var bs []dom.BV
		for _, sg := range src.Rope {
			if sg.Bytes == nil {
				return nil, false
			}
			bs = append(bs, sg.Bytes...)
		}
		dn, isc := dst.Len.IsConst()
		if !isc || dn > maxArrayLeaves {
			return nil, false
		}
		elemT := x.Call.Args[0].Type().Underlying().(*types.Slice).Elem()
		n := int(dn)
		if len(bs) < n {
			n = len(bs)
		}
		for i := 0; i < n; i++ {
			in.storeAt(st, dst.Root, in.roots[dst.Root], elemPath(dst.Path, dst.Lo+i), elemT, bs[i], bdd.True, x.Pos())
		}
		return in.C.Const(in.intWidth(), uint64(n)), true
	}
	if !ok1 || !ok2 || dst.Rope != nil || src.Rope != nil {
		return nil, false
	}
	C := in.C
	w := in.intWidth()
	n := C.Mux(C.Lt(dst.Len, src.Len, true), dst.Len, src.Len)
	elemT := x.Call.Args[0].Type().Underlying().(*types.Slice).Elem()
	ew, _, okw := in.width(elemT)
	if !okw && (dst.Sym != "" || src.Sym != "") {
		return nil, false // symbolic slices are modelled for integer elements only
	}
	// concrete destination window of constant length: element-wise
	if dst.Sym == "" {
		dn, isc := dst.Len.IsConst()
		if !isc || dn > maxArrayLeaves {
			return nil, false
		}
		for i := 0; i < int(dn); i++ {
			cond := C.Lt(C.Const(w, uint64(i)), src.Len, true)
			var sv Value
			switch {
			case src.Sym != "":
				r := "elems:" + src.Sym
				if _, ok := in.roots[r]; !ok {
					in.roots[r] = &rootInfo{Symbolic: true, Prefix: src.Sym}
				}
				if src.LoV != nil {
					return nil, false
				}
				sv = in.loadAt(st, r, in.roots[r], elemPath("", src.Lo+i), elemT)
			default:
				sn, isc := src.Len.IsConst()
				if !isc {
					return nil, false
				}
				if uint64(i) >= sn {
					continue
				}
				sv = in.loadAt(st, src.Root, in.roots[src.Root], elemPath(src.Path, src.Lo+i), elemT)
			}
			in.storeAt(st, dst.Root, in.roots[dst.Root], elemPath(dst.Path, dst.Lo+i), elemT, sv, cond, x.Pos())
		}
		return n, true
	}
	// symbolic destination: one block-copy event (window start, length), source identity in the kind
	lo := C.Const(w, uint64(dst.Lo))
	if dst.LoV != nil {
		lo = dst.LoV
	}
	srcID := src.Sym
	if srcID == "" || src.LoV != nil || src.Lo != 0 {
		return nil, false
	}
	in.T.Emit(pred, "slice.copy<-"+srcID, dst.Sym, []dom.BV{lo, dst.Len, src.Len}, 0, in.P.Pos(x.Pos()))
	_ = ew
	return n, true
}

// indexSite logs the bounds verdict of an index expression.
func (in *Interp) indexSite(x *ssa.IndexAddr, base Value, iv dom.BV) {
	if in.Sites == nil {
		return
	}
	C := in.C
	w := in.intWidth()
	_, signed, _ := in.width(x.Index.Type())
	idx := C.Resize(iv, w, signed)
	neg := bdd.False
	if signed {
		neg = idx[w-1]
	}
	var length dom.BV
	switch b := base.(type) {
	case *Ptr:
		if at, ok := x.X.Type().Underlying().(*types.Pointer).Elem().Underlying().(*types.Array); ok {
			length = C.Const(w, uint64(at.Len()))
		}
		in.site("nil dereference (array pointer)", b.Nil)
	case *Slice:
		length = b.Len
	}
	if length == nil {
		return
	}
	fail := C.M.Or(neg, C.M.Not(C.Ult(idx, length)))
	in.site("index out of range", fail)
}

// Probe interprets fn under guard on the given state, discarding results;
// undecided constructs inside it are swallowed (the site log then simply has
// no verdict for what was not reached).
func (in *Interp) Probe(fn *ssa.Function, args []Value, guard bdd.Node, st *State) {
	depth, instr, pred := in.depth, in.curInstr, in.curPred
	before := map[*ssa.Function]int{}
	for f, n := range in.Funcs {
		before[f] = n
	}
	defer func() {
		in.depth, in.curInstr, in.curPred = depth, instr, pred
		if r := recover(); r != nil {
			// the probe was cut short: the functions it entered were NOT interpreted
			// on every path - a site in them that has no verdict was not shown
			// unreachable
			cut := func(why string) {
				if in.Incomplete == nil {
					in.Incomplete = map[*ssa.Function]string{}
				}
				in.Incomplete[fn] = why
				for f, n := range in.Funcs {
					if n != before[f] {
						in.Incomplete[f] = why
					}
				}
			}
			if u, ok := r.(*Undecided); ok {
				cut(u.Error())
				return
			}
			if _, ok := r.(*bdd.Budget); ok {
				cut("value-domain budget exceeded")
				return
			}
			panic(r)
		}
	}()
	in.call(fn, args, guard, st, fn.Pos())
}

// runConcrete follows the one concrete path through fn (Unroll mode).
func (in *Interp) runConcrete(fn *ssa.Function, fr *frame, guard bdd.Node, st *State, pos token.Pos) (Value, *State) {
	b := fn.Blocks[0]
	var prev *ssa.BasicBlock
	for {
		var next *ssa.BasicBlock
		// phis read their operands simultaneously
		phiVals := map[*ssa.Phi]Value{}
		for _, instr := range b.Instrs {
			phi, ok := instr.(*ssa.Phi)
			if !ok {
				break
			}
			for pi, pb := range b.Preds {
				if pb == prev {
					phiVals[phi] = in.operand(fr, phi.Edges[pi])
				}
			}
		}
		for phi, v := range phiVals {
			fr.vals[phi] = v
		}
		for _, instr := range b.Instrs {
			in.unrollSteps++
			if in.unrollSteps > 4000000 {
				in.undecided(instr.Pos(), "a concretely followed loop does not finish within the step budget")
			}
			in.curInstr, in.curPred = instr, guard
			switch x := instr.(type) {
			case *ssa.Phi:
			case *ssa.If:
				cv, ok := in.operand(fr, x.Cond).(dom.BV)
				if !ok || len(cv) != 1 || cv[0] > bdd.True {
					if in.Unroll {
						in.undecided(x.Pos(), "initialisation branches on a value that is not a constant")
					}
					in.undecided(x.Pos(), "loop (back edge) in %s whose control flow depends on a value that is not a constant", fn.String())
				}
				if cv[0] == bdd.True {
					next = b.Succs[0]
				} else {
					next = b.Succs[1]
				}
			case *ssa.Jump:
				next = b.Succs[0]
			case *ssa.Return:
				var rv Value
				switch len(x.Results) {
				case 0:
				case 1:
					rv = in.operand(fr, x.Results[0])
				default:
					t := &Tuple{}
					for _, r := range x.Results {
						t.Elems = append(t.Elems, in.operand(fr, r))
					}
					rv = t
				}
				return rv, st
			case *ssa.Panic:
				in.undecided(x.Pos(), "initialisation panics")
			default:
				in.exec(fr, x, guard, st)
			}
		}
		if next == nil {
			in.undecided(pos, "fell off a block in %s", fn.String())
		}
		prev, b = b, next
	}
}

// ProbeBound interprets a function value (with its closure bindings).
func (in *Interp) ProbeBound(fv *FuncV, args []Value, guard bdd.Node, st *State) {
	depth, instr, pred := in.depth, in.curInstr, in.curPred
	defer func() { in.depth, in.curInstr, in.curPred = depth, instr, pred }()
	in.callBound(fv.Fn, args, fv.Bindings, guard, st, fv.Fn.Pos())
}

// selfStore: the value stored is the current content of the cell (the
// 'x = x' a return with named results produces; the compiler drops it).
func (in *Interp) selfStore(st *State, p *Ptr, v Value) bool {
	if p.Idx != nil {
		return false
	}
	cur, ok := st.Get(p.Root, p.Path)
	return ok && SameValue(cur, v)
}

// callAlternatives calls every function a MuxV of function values can denote.
func (in *Interp) callAlternatives(mv *MuxV, args []Value, pred bdd.Node, st *State, pos token.Pos) (Value, bool) {
	type alt struct {
		g  bdd.Node
		fv *FuncV
	}
	var alts []alt
	ok := true
	var walk func(v Value, g bdd.Node)
	walk = func(v Value, g bdd.Node) {
		if g == bdd.False {
			return
		}
		switch x := v.(type) {
		case *MuxV:
			walk(x.A, in.C.M.And(g, x.P))
			walk(x.B, in.C.M.And(g, in.C.M.Not(x.P)))
		case *FuncV:
			if x.Fn == nil || !load.InModule(x.Fn) || x.Fn.Blocks == nil {
				ok = false
				return
			}
			alts = append(alts, alt{g, x})
		default:
			ok = false
		}
	}
	walk(mv, pred)
	if !ok || len(alts) == 0 || len(alts) > 16 {
		return nil, false
	}
	var edges []inEdge
	var res Value
	for i, a := range alts {
		r, out := in.callBound(a.fv.Fn, args, a.fv.Bindings, a.g, st.Clone(), pos)
		edges = append(edges, inEdge{nil, a.g, out})
		if i == 0 || res == nil {
			res = r
		} else if r != nil {
			res = MuxValue(in.C, a.g, r, res)
		}
	}
	_, cur := in.mergeStates(edges)
	*st = *cur
	in.curPred = pred
	return res, true
}

// ifaceEq compares two interface values that are nil or named symbolic values
// (error variables and results): equal when both are nil, or both are non-nil
// and carry the same symbol; two different symbols are related by an atom of
// their own (unknown).
func (in *Interp) ifaceEq(a, b Value) (bdd.Node, bool) {
	M := in.C.M
	if ma, ok := a.(*MuxV); ok {
		l, ok1 := in.ifaceEq(ma.A, b)
		r, ok2 := in.ifaceEq(ma.B, b)
		return M.Ite(ma.P, l, r), ok1 && ok2
	}
	if mb, ok := b.(*MuxV); ok {
		l, ok1 := in.ifaceEq(a, mb.A)
		r, ok2 := in.ifaceEq(a, mb.B)
		return M.Ite(mb.P, l, r), ok1 && ok2
	}
	ia, ok1 := a.(*Iface)
	ib, ok2 := b.(*Iface)
	if !ok1 || !ok2 || (ia.Sym == "" && ia.Nil != bdd.True) || (ib.Sym == "" && ib.Nil != bdd.True) {
		return bdd.False, false
	}
	bothNil := M.And(ia.Nil, ib.Nil)
	noneNil := M.And(M.Not(ia.Nil), M.Not(ib.Nil))
	same := bdd.True
	if ia.Sym != ib.Sym {
		x, y := ia.Sym, ib.Sym
		if x > y {
			x, y = y, x
		}
		same = in.C.Atom("eq("+x+","+y+")", 1)[0]
	}
	return M.Or(bothNil, M.And(noneNil, same)), true
}

// hasLoop: the CFG of fn has a back edge (cached).
func (in *Interp) hasLoop(fn *ssa.Function) bool {
	if v, ok := in.loopy[fn]; ok {
		return v
	}
	if in.loopy == nil {
		in.loopy = map[*ssa.Function]bool{}
	}
	order := rpo(fn)
	index := make(map[*ssa.BasicBlock]int, len(order))
	for i, b := range order {
		index[b] = i
	}
	has := false
	for i, b := range order {
		for _, s := range b.Succs {
			if j, ok := index[s]; ok && j <= i {
				has = true
			}
		}
	}
	in.loopy[fn] = has
	return has
}

// loopLog records, process-wide, the functions with loops whose calls were
// followed concretely, and those for which that failed at least once.
var loopLog = struct {
	sync.Mutex
	followed, failed map[*ssa.Function]int
}{followed: map[*ssa.Function]int{}, failed: map[*ssa.Function]int{}}

// LoopFollowed: every interpreted call of fn (which has a loop) was followed
// concretely to its end - its loops have a fixed trip count in every summary.
func LoopFollowed(fn *ssa.Function) (calls int, always bool) {
	loopLog.Lock()
	defer loopLog.Unlock()
	return loopLog.followed[fn], loopLog.followed[fn] > 0 && loopLog.failed[fn] == 0
}

// plainLibraryCode: small standard-library functions that are straight-line
// Go over their arguments (no hidden state, no assembly) and are interpreted
// like module code.
func PlainLibraryCode(name string) bool { return plainLibraryCode(name) }

func plainLibraryCode(name string) bool {
	for _, pre := range []string{"(encoding/binary.littleEndian).", "(encoding/binary.bigEndian)."} {
		if strings.HasPrefix(name, pre) {
			switch strings.TrimPrefix(name, pre) {
			case "Uint16", "Uint32", "Uint64", "PutUint16", "PutUint32", "PutUint64", "AppendUint16", "AppendUint32", "AppendUint64":
				return true
			}
		}
	}
	return false
}

// dynLog records, process-wide, what calls through function values resolved to.
var dynLog = struct {
	sync.Mutex
	targets    map[ssa.CallInstruction]map[*ssa.Function]bool
	unresolved map[ssa.CallInstruction]bool
}{targets: map[ssa.CallInstruction]map[*ssa.Function]bool{}, unresolved: map[ssa.CallInstruction]bool{}}

func logDynCall(site ssa.CallInstruction, fn *ssa.Function) {
	dynLog.Lock()
	defer dynLog.Unlock()
	if fn == nil {
		dynLog.unresolved[site] = true
		return
	}
	if dynLog.targets[site] == nil {
		dynLog.targets[site] = map[*ssa.Function]bool{}
	}
	dynLog.targets[site][fn] = true
}

// DynTargets: the functions the call site resolved to in every interpreted
// execution (ok is false when it was never executed or once not resolved).
func DynTargets(site ssa.CallInstruction) (fns []*ssa.Function, ok bool) {
	dynLog.Lock()
	defer dynLog.Unlock()
	if dynLog.unresolved[site] || len(dynLog.targets[site]) == 0 {
		return nil, false
	}
	for f := range dynLog.targets[site] {
		fns = append(fns, f)
	}
	return fns, true
}

// lateGlobalRoot registers the root of a package-level variable that is
// reached through a pointer value (a binding of a closure built by package
// initialisation) before any instruction named the variable itself.
func (in *Interp) lateGlobalRoot(root string) *rootInfo {
	if !strings.HasPrefix(root, "global:") {
		return nil
	}
	if in.ReadableGlobals[root] {
		in.roots[root] = &rootInfo{}
	} else {
		name := strings.TrimPrefix(root, "global:")
		if i := strings.LastIndex(name, "."); i >= 0 {
			name = name[i+1:]
		}
		in.roots[root] = &rootInfo{Symbolic: true, Prefix: "global " + name}
	}
	return in.roots[root]
}

// sharedCell: the location root|path lies in one of the cells of the set.  A
// cell is named "root" (the whole object) or "root|path" (the field at path
// and everything below it).
func (in *Interp) sharedCell(set map[string]bool, root, path string) bool {
	if len(set) == 0 {
		return false
	}
	if set[root] {
		return true
	}
	for c := range set {
		r, p := c, ""
		if i := strings.IndexByte(c, '|'); i >= 0 {
			r, p = c[:i], c[i+1:]
		} else {
			continue
		}
		if r != root {
			continue
		}
		if p == "" || path == p || strings.HasPrefix(path, p+".") || strings.HasPrefix(path, p+"[") {
			return true
		}
	}
	return false
}

// appendConcrete models append on slices of any element type when both
// operands are windows of constant length onto known storage: the result is a
// fresh array holding the elements in order.
func (in *Interp) appendConcrete(args []Value, st *State, elemT types.Type, x *ssa.Call) (Value, bool) {
	var elems []Value
	for _, a := range args {
		s, ok := a.(*Slice)
		if !ok || s.Rope != nil || s.Sym != "" {
			return nil, false
		}
		if s.Nil == bdd.True {
			continue
		}
		n, isc := s.Len.IsConst()
		if !isc || n > maxArrayLeaves || s.Nil != bdd.False {
			return nil, false
		}
		ri := in.roots[s.Root]
		if ri == nil {
			return nil, false
		}
		for i := 0; i < int(n); i++ {
			elems = append(elems, in.loadAt(st, s.Root, ri, elemPath(s.Path, s.Lo+i), elemT))
		}
	}
	if len(elems) > maxArrayLeaves {
		return nil, false
	}
	in.allocN++
	r := fmt.Sprintf("alloc#%d", in.allocN)
	in.roots[r] = &rootInfo{}
	for i, e := range elems {
		in.storeAt(st, r, in.roots[r], elemPath("", i), elemT, e, bdd.True, x.Pos())
	}
	return &Slice{Root: r, Lo: 0, Len: in.C.Const(in.intWidth(), uint64(len(elems))), Nil: bdd.False}, true
}

type chanAlt struct {
	name string
	g    bdd.Node
}

// chanAlts resolves a channel value to the channels it can be under pred:
// "chan#N" (made by the code), "done:<ctx>" (a context's Done channel) or
// "chan:nil".
func (in *Interp) chanAlts(v Value, pred bdd.Node) []chanAlt {
	M := in.C.M
	var out []chanAlt
	var walk func(v Value, g bdd.Node) bool
	walk = func(v Value, g bdd.Node) bool {
		if g == bdd.False {
			return true
		}
		switch x := v.(type) {
		case *MuxV:
			return walk(x.A, M.And(g, x.P)) && walk(x.B, M.And(g, M.Not(x.P)))
		case *Opaque:
			if strings.HasPrefix(x.Why, "chan#") || strings.HasPrefix(x.Why, "done:") || x.Why == "chan:nil" {
				for i := range out {
					if out[i].name == x.Why {
						out[i].g = M.Or(out[i].g, g)
						return true
					}
				}
				out = append(out, chanAlt{x.Why, g})
				return true
			}
		}
		return false
	}
	if !walk(v, pred) {
		return nil
	}
	return out
}

// closeChan: close(ch) as an event.  Closing a nil channel panics; closing a
// channel twice panics too - the user of the events checks that the closes of
// one channel exclude each other.
func (in *Interp) closeChan(v Value, pred bdd.Node, pos token.Pos) {
	alts := in.chanAlts(v, pred)
	if alts == nil {
		in.undecided(pos, "close of a channel that is not one made by this code")
	}
	nilG := bdd.False
	for _, a := range alts {
		if a.name == "chan:nil" {
			nilG = a.g
		}
	}
	in.site("close of a nil channel", nilG) // (closing twice is the protocol's concern: closes of one channel exclude each other)
	for _, a := range alts {
		switch {
		case a.name == "chan:nil":
		case strings.HasPrefix(a.name, "chan#"):
			in.T.Emit(a.g, "chan.close", a.name, nil, 0, in.P.Pos(pos))
		default:
			in.undecided(pos, "close of %s", a.name)
		}
	}
}

// selectRecv: a blocking select whose alternatives are all receives.  Nil
// channels are never ready; the alternative taken is a fresh choice among the
// others (the event lists them in the order of the choice's values).
func (in *Interp) selectRecv(fr *frame, x *ssa.Select, pred bdd.Node) (Value, bool) {
	if !x.Blocking {
		return nil, false
	}
	C := in.C
	var names []string
	for _, stt := range x.States {
		if stt.Dir != types.RecvOnly {
			return nil, false
		}
		alts := in.chanAlts(in.operand(fr, stt.Chan), pred)
		if len(alts) != 1 || alts[0].name == "chan:nil" {
			return nil, false // an alternative that may be nil: outside the modelled form
		}
		names = append(names, alts[0].name)
	}
	idx := in.OnSelect(names, pred, in.P.Pos(x.Pos()))
	in.T.Emit(pred, "select", strings.Join(names, ","), []dom.BV{idx}, 0, in.P.Pos(x.Pos()))
	tup := x.Type().(*types.Tuple)
	in.allocN++
	t := &Tuple{Elems: []Value{idx, C.Atom(fmt.Sprintf("recvOk@%d", in.allocN), 1)}}
	k := 0
	for i := 2; i < tup.Len(); i++ {
		// the values received: one per receive alternative, in order
		et := tup.At(i).Type()
		if stt, isStruct := et.Underlying().(*types.Struct); (isStruct && stt.NumFields() == 0) || k >= len(names) || !strings.HasPrefix(names[k], "chan#") || in.OnRecv == nil {
			t.Elems = append(t.Elems, in.zero(et))
		} else {
			t.Elems = append(t.Elems, in.OnRecv(names[k], et, C.M.And(pred, C.Eq(idx, C.Const(len(idx), uint64(k)))), in.P.Pos(x.Pos())))
		}
		k++
	}
	return t, true
}

// IntWidth is the width of Go's int on the target.
func (in *Interp) IntWidth() int { return in.intWidth() }

// InitValueOf returns the value the leaf root|path has when nothing has been
// stored to it (ok is false when the leaf's type is unknown: never stored).
func (in *Interp) InitValueOf(root, path string) (Value, bool) {
	t, ok := in.leafT[key(root, path)]
	ri := in.roots[root]
	if !ok || ri == nil {
		return nil, false
	}
	return in.initLeaf(root, ri, path, t), true
}

// InDeferred reports whether the interpreter is running a deferred call.
func (in *Interp) InDeferred() bool { return in.deferDepth > 0 }

// NewConcreteBytes allocates fresh storage holding the given bytes and returns
// the slice over it.
func (in *Interp) NewConcreteBytes(st *State, bs []dom.BV) *Slice {
	in.allocN++
	r := fmt.Sprintf("alloc#%d", in.allocN)
	in.roots[r] = &rootInfo{}
	for i, b := range bs {
		st.Set(r, elemPath("", i), b)
	}
	return &Slice{Root: r, Lo: 0, Len: in.C.Const(in.intWidth(), uint64(len(bs))), Nil: bdd.False}
}
