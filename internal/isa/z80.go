package isa

import (
	"fmt"

	"verif/internal/bdd"
	"verif/internal/dom"
)

// Status of an encoding in the catalogue.
type Status int

const (
	Doc   Status = iota // documented by Zilog: must be implemented with this effect
	Undoc               // undocumented but well defined: if implemented, must have this effect
	Chain               // prefix followed by another prefix: no reference semantics
)

func (s Status) String() string { return [...]string{"documented", "undocumented", "prefix-chain"}[s] }

// Info is what the reference reports about the encoding it just evaluated.
type Info struct {
	Status Status
	Class  string // family, used to route obligations to properties
	Name   string // mnemonic
	// DontCareF: flag bits on which Z80 implementations differ or which Zilog
	// documents as unknown; excluded from the value comparison only.
	DontCareF uint8
	// RAlt: the refresh counter may have advanced one step less (DDCB/FDCB:
	// silicon counts two fetches, three are accepted).
	RAlt bool
	// DontCareR: the refresh counter is not compared (interrupt acknowledge).
	DontCareR bool
	Bytes     int      // instruction length
	M1        int      // opcode fetches
	Taken     bdd.Node // for conditional control transfers: the condition
	Repeat    bdd.Node // for repeating block instructions: the repeat predicate
}

type idxMode int

const (
	modeHL idxMode = iota
	modeIX
	modeIY
)

// decode context of one instruction
type dctx struct {
	m      *M
	mode   idxMode
	disp   dom.BV // fetched displacement, nil until needed
	used16 bool   // HL/IX/IY used as a 16-bit register or as (HL)/(IX+d)
	used8  bool   // H/L replaced by the index register halves
	info   *Info
	nbytes int
	m1     int
}

// Exec evaluates the instruction whose opcode bytes are pinned by the trace's
// specialisation (Trace.Fixed) and returns its catalogue entry.
func (m *M) Exec() (info Info) {
	d := &dctx{m: m, info: &info}
	info.Taken, info.Repeat = bdd.True, bdd.False
	op := d.opM1()
	switch op {
	case 0xCB:
		d.execCB(d.opM1())
	case 0xED:
		d.execED(d.opM1())
	case 0xDD, 0xFD:
		d.mode = modeIX
		if op == 0xFD {
			d.mode = modeIY
		}
		op2 := d.opM1()
		switch op2 {
		case 0xDD, 0xED, 0xFD:
			info.Status, info.Class, info.Name = Chain, "prefix", fmt.Sprintf("%02X %02X", op, op2)
		case 0xCB:
			d.execIdxCB()
		default:
			d.execMain(op2)
			switch {
			case d.used16:
				info.Status = Doc
			default:
				info.Status = Undoc
			}
		}
	default:
		d.execMain(op)
	}
	info.Bytes, info.M1 = d.nbytes, d.m1
	return
}

// Invalid is the reference effect of an unsupported encoding: the bytes are
// consumed (nbytes fetched, m1 of them as opcode fetches, in the given
// pattern), a warning is logged, nothing else changes.
func (m *M) Invalid(pattern string) {
	for _, c := range pattern {
		if c == 'M' {
			m.FetchM1()
		} else {
			m.Fetch()
		}
	}
	m.Log()
}

func (d *dctx) constByte(v dom.BV) int {
	k, ok := v.IsConst()
	if !ok {
		panic("isa: opcode byte is not pinned by the specialisation")
	}
	return int(k)
}

func (d *dctx) opM1() int {
	d.nbytes++
	d.m1++
	return d.constByte(d.m.FetchM1())
}

func (d *dctx) imm8() dom.BV  { d.nbytes++; return d.m.Fetch() }
func (d *dctx) imm16() dom.BV { d.nbytes += 2; return d.m.Fetch16() }
func (d *dctx) set(class, name string) {
	d.info.Class, d.info.Name = class, name
}

// ---- operand access with index substitution ----

var r8names = [8]string{LocB, LocC, LocD, LocE, LocH, LocL, "", LocA}
var r8mn = [8]string{"B", "C", "D", "E", "H", "L", "(HL)", "A"}

func (d *dctx) idxLoc() string {
	if d.mode == modeIX {
		return LocIX
	}
	return LocIY
}

// hl16 is HL, or IX/IY under a DD/FD prefix.
func (d *dctx) hl16() dom.BV {
	d.used16 = true
	if d.mode == modeHL {
		return d.m.HL()
	}
	return d.m.Get(d.idxLoc())
}

func (d *dctx) setHL16(v dom.BV) {
	d.used16 = true
	if d.mode == modeHL {
		d.m.SetHL(v)
		return
	}
	d.m.Set(d.idxLoc(), v)
}

// memAddr is the address of the (HL) operand: HL, or IX+d / IY+d with the
// displacement fetched at this point.
func (d *dctx) memAddr() dom.BV {
	d.used16 = true
	if d.mode == modeHL {
		return d.m.HL()
	}
	if d.disp == nil {
		d.disp = d.imm8()
	}
	return d.m.C.Add(d.m.Get(d.idxLoc()), d.m.C.Sext(d.disp, 16))
}

// reg8 reads register i; plain selects H/L even under a prefix (used by
// instructions that also have a memory operand).
func (d *dctx) reg8(i int, plain bool) dom.BV {
	if (i == 4 || i == 5) && d.mode != modeHL && !plain {
		d.used8 = true
		x := d.m.Get(d.idxLoc())
		if i == 4 {
			return x.Slice(8, 16)
		}
		return x.Slice(0, 8)
	}
	return d.m.Get(r8names[i])
}

func (d *dctx) setReg8(i int, v dom.BV, plain bool) {
	if (i == 4 || i == 5) && d.mode != modeHL && !plain {
		d.used8 = true
		x := d.m.Get(d.idxLoc())
		if i == 4 {
			d.m.Set(d.idxLoc(), d.m.C.Concat(v, x.Slice(0, 8)))
		} else {
			d.m.Set(d.idxLoc(), d.m.C.Concat(x.Slice(8, 16), v))
		}
		return
	}
	d.m.Set(r8names[i], v)
}

func (d *dctx) rp(p int) dom.BV {
	switch p {
	case 0:
		return d.m.BC()
	case 1:
		return d.m.DE()
	case 2:
		return d.hl16()
	}
	return d.m.SP()
}

func (d *dctx) setRP(p int, v dom.BV) {
	switch p {
	case 0:
		d.m.SetBC(v)
	case 1:
		d.m.SetDE(v)
	case 2:
		d.setHL16(v)
	default:
		d.m.Set(LocSP, v)
	}
}

var rpmn = [4]string{"BC", "DE", "HL", "SP"}
var rp2mn = [4]string{"BC", "DE", "HL", "AF"}
var ccmn = [8]string{"NZ", "Z", "NC", "C", "PO", "PE", "P", "M"}
var alumn = [8]string{"ADD", "ADC", "SUB", "SBC", "AND", "XOR", "OR", "CP"}
var rotmn = [8]string{"RLC", "RRC", "RL", "RR", "SLA", "SRA", "SLL", "SRL"}

func (d *dctx) cc(y int) bdd.Node {
	f := d.m.Flags()
	M := d.m.C.M
	switch y {
	case 0:
		return M.Not(f.Z)
	case 1:
		return f.Z
	case 2:
		return M.Not(f.C)
	case 3:
		return f.C
	case 4:
		return M.Not(f.P)
	case 5:
		return f.P
	case 6:
		return M.Not(f.S)
	}
	return f.S
}

// ---- arithmetic ----

// addsub8 is the textbook 8-bit adder: r = a ± b ± cin in 9 bits,
// H from the carry/borrow into bit 4, V from the operand/result signs.
func (m *M) addsub8(a, b dom.BV, cin bdd.Node, sub bool) (dom.BV, Flags) {
	C := m.C
	a9, b9 := C.Zext(a, 9), C.Zext(b, 9)
	c9 := C.Zext(dom.BV{cin}, 9)
	var r9 dom.BV
	if sub {
		r9 = C.Sub(C.Sub(a9, b9), c9)
	} else {
		r9 = C.Add(C.Add(a9, b9), c9)
	}
	r := r9.Slice(0, 8)
	M := C.M
	h := M.Xor(M.Xor(a[4], b[4]), r[4])
	var v bdd.Node
	if sub {
		v = M.And(M.Xor(a[7], b[7]), M.Xor(a[7], r[7]))
	} else {
		v = M.And(M.Not(M.Xor(a[7], b[7])), M.Xor(a[7], r[7]))
	}
	return r, Flags{S: r[7], Z: C.IsZero(r), Y: r[5], H: h, X: r[3], P: v, N: m.b(sub), C: r9[8]}
}

func (m *M) logic8(op int, a, b dom.BV) (dom.BV, Flags) {
	C := m.C
	var r dom.BV
	switch op {
	case 4:
		r = C.And(a, b)
	case 5:
		r = C.Xor(a, b)
	default:
		r = C.Or(a, b)
	}
	return r, Flags{S: r[7], Z: C.IsZero(r), Y: r[5], H: m.b(op == 4), X: r[3], P: C.M.Not(C.Parity(r)), N: bdd.False, C: bdd.False}
}

// alu performs alu[y] A,x.
func (m *M) alu(y int, x dom.BV) {
	a := m.A()
	f := m.Flags()
	switch y {
	case 0, 1, 2, 3:
		cin := bdd.False
		if y == 1 || y == 3 {
			cin = f.C
		}
		r, nf := m.addsub8(a, x, cin, y >= 2)
		m.Set(LocA, r)
		m.SetFlags(nf)
	case 4, 5, 6:
		r, nf := m.logic8(y, a, x)
		m.Set(LocA, r)
		m.SetFlags(nf)
	case 7: // CP: A kept, bits 5/3 from the operand
		_, nf := m.addsub8(a, x, bdd.False, true)
		nf.Y, nf.X = x[5], x[3]
		m.SetFlags(nf)
	}
}

func (m *M) inc8(x dom.BV) dom.BV {
	C := m.C
	r := C.AddK(x, 1)
	f := m.Flags()
	m.SetFlags(Flags{S: r[7], Z: C.IsZero(r), Y: r[5], H: C.IsZero(r.Slice(0, 4)), X: r[3],
		P: C.Eq(x, C.Const(8, 0x7f)), N: bdd.False, C: f.C})
	return r
}

func (m *M) dec8(x dom.BV) dom.BV {
	C := m.C
	r := C.AddK(x, -1)
	f := m.Flags()
	m.SetFlags(Flags{S: r[7], Z: C.IsZero(r), Y: r[5], H: C.IsZero(x.Slice(0, 4)), X: r[3],
		P: C.Eq(x, C.Const(8, 0x80)), N: bdd.True, C: f.C})
	return r
}

// rot performs rot[y] on x and sets the flags of the CB group.
func (m *M) rot(y int, x dom.BV) dom.BV {
	C := m.C
	f := m.Flags()
	var r dom.BV
	var cy bdd.Node
	switch y {
	case 0: // RLC
		r, cy = dom.BV{x[7], x[0], x[1], x[2], x[3], x[4], x[5], x[6]}, x[7]
	case 1: // RRC
		r, cy = dom.BV{x[1], x[2], x[3], x[4], x[5], x[6], x[7], x[0]}, x[0]
	case 2: // RL
		r, cy = dom.BV{f.C, x[0], x[1], x[2], x[3], x[4], x[5], x[6]}, x[7]
	case 3: // RR
		r, cy = dom.BV{x[1], x[2], x[3], x[4], x[5], x[6], x[7], f.C}, x[0]
	case 4: // SLA
		r, cy = dom.BV{bdd.False, x[0], x[1], x[2], x[3], x[4], x[5], x[6]}, x[7]
	case 5: // SRA
		r, cy = dom.BV{x[1], x[2], x[3], x[4], x[5], x[6], x[7], x[7]}, x[0]
	case 6: // SLL
		r, cy = dom.BV{bdd.True, x[0], x[1], x[2], x[3], x[4], x[5], x[6]}, x[7]
	default: // SRL
		r, cy = dom.BV{x[1], x[2], x[3], x[4], x[5], x[6], x[7], bdd.False}, x[0]
	}
	m.SetFlags(Flags{S: r[7], Z: C.IsZero(r), Y: r[5], H: bdd.False, X: r[3], P: C.M.Not(C.Parity(r)), N: bdd.False, C: cy})
	return r
}

// ---- main table ----

func (d *dctx) execMain(op int) {
	m, C := d.m, d.m.C
	M := C.M
	x, y, z := op>>6, (op>>3)&7, op&7
	p, q := y>>1, y&1
	d.info.Status = Doc
	switch x {
	case 0:
		switch z {
		case 0:
			switch {
			case y == 0:
				d.set("misc", "NOP")
			case y == 1:
				d.set("exchange", "EX AF,AF'")
				a, f := m.A(), m.F()
				m.Set(LocA, m.Get("Alternate.AF.Hi"))
				m.Set(LocF, m.Get("Alternate.AF.Lo"))
				m.Set("Alternate.AF.Hi", a)
				m.Set("Alternate.AF.Lo", f)
			case y == 2:
				d.set("jump", "DJNZ d")
				e := d.imm8()
				b := C.AddK(m.Get(LocB), -1)
				m.Set(LocB, b)
				taken := M.Not(C.IsZero(b))
				d.info.Taken = taken
				m.When(taken, func() { m.Set(LocPC, C.Add(m.PC(), C.Sext(e, 16))) })
			case y == 3:
				d.set("jump", "JR d")
				e := d.imm8()
				m.Set(LocPC, C.Add(m.PC(), C.Sext(e, 16)))
			default:
				d.set("jump", "JR "+ccmn[y-4]+",d")
				e := d.imm8()
				taken := d.cc(y - 4)
				d.info.Taken = taken
				m.When(taken, func() { m.Set(LocPC, C.Add(m.PC(), C.Sext(e, 16))) })
			}
		case 1:
			if q == 0 {
				d.set("load16", "LD "+rpmn[p]+",nn")
				d.setRP(p, d.imm16())
			} else {
				d.set("arith16", "ADD HL,"+rpmn[p])
				a := d.hl16()
				b := d.rp(p)
				r17 := C.Add(C.Zext(a, 17), C.Zext(b, 17))
				r := r17.Slice(0, 16)
				f := m.Flags()
				f.Y, f.X = r[13], r[11]
				f.H = M.Xor(M.Xor(a[12], b[12]), r[12])
				f.N = bdd.False
				f.C = r17[16]
				d.setHL16(r)
				m.SetFlags(f)
			}
		case 2:
			switch y {
			case 0:
				d.set("load8", "LD (BC),A")
				m.Wr(m.BC(), m.A())
			case 1:
				d.set("load8", "LD A,(BC)")
				m.Set(LocA, m.Rd(m.BC()))
			case 2:
				d.set("load8", "LD (DE),A")
				m.Wr(m.DE(), m.A())
			case 3:
				d.set("load8", "LD A,(DE)")
				m.Set(LocA, m.Rd(m.DE()))
			case 4:
				d.set("load16", "LD (nn),HL")
				nn := d.imm16()
				m.Wr16(nn, d.hl16())
			case 5:
				d.set("load16", "LD HL,(nn)")
				nn := d.imm16()
				d.setHL16(m.Rd16(nn))
			case 6:
				d.set("load8", "LD (nn),A")
				nn := d.imm16()
				m.Wr(nn, m.A())
			case 7:
				d.set("load8", "LD A,(nn)")
				nn := d.imm16()
				m.Set(LocA, m.Rd(nn))
			}
		case 3:
			if q == 0 {
				d.set("incdec16", "INC "+rpmn[p])
				d.setRP(p, C.AddK(d.rp(p), 1))
			} else {
				d.set("incdec16", "DEC "+rpmn[p])
				d.setRP(p, C.AddK(d.rp(p), -1))
			}
		case 4, 5:
			name := "INC "
			f := m.inc8
			if z == 5 {
				name, f = "DEC ", m.dec8
			}
			d.set("alu8", name+r8mn[y])
			if y == 6 {
				a := d.memAddr()
				m.Wr(a, f(m.Rd(a)))
			} else {
				d.setReg8(y, f(d.reg8(y, false)), false)
			}
		case 6:
			d.set("load8", "LD "+r8mn[y]+",n")
			if y == 6 {
				a := d.memAddr() // displacement precedes the immediate
				n := d.imm8()
				m.Wr(a, n)
			} else {
				d.setReg8(y, d.imm8(), false)
			}
		case 7:
			a := m.A()
			f := m.Flags()
			switch y {
			case 0:
				d.set("rotA", "RLCA")
				r := dom.BV{a[7], a[0], a[1], a[2], a[3], a[4], a[5], a[6]}
				f.Y, f.X, f.H, f.N, f.C = r[5], r[3], bdd.False, bdd.False, a[7]
				m.Set(LocA, r)
				m.SetFlags(f)
			case 1:
				d.set("rotA", "RRCA")
				r := dom.BV{a[1], a[2], a[3], a[4], a[5], a[6], a[7], a[0]}
				f.Y, f.X, f.H, f.N, f.C = r[5], r[3], bdd.False, bdd.False, a[0]
				m.Set(LocA, r)
				m.SetFlags(f)
			case 2:
				d.set("rotA", "RLA")
				r := dom.BV{f.C, a[0], a[1], a[2], a[3], a[4], a[5], a[6]}
				f.Y, f.X, f.H, f.N, f.C = r[5], r[3], bdd.False, bdd.False, a[7]
				m.Set(LocA, r)
				m.SetFlags(f)
			case 3:
				d.set("rotA", "RRA")
				r := dom.BV{a[1], a[2], a[3], a[4], a[5], a[6], a[7], f.C}
				f.Y, f.X, f.H, f.N, f.C = r[5], r[3], bdd.False, bdd.False, a[0]
				m.Set(LocA, r)
				m.SetFlags(f)
			case 4:
				d.set("alu8", "DAA")
				lo := a.Slice(0, 4)
				loGt9 := C.Ult(C.Const(4, 9), lo)
				aGt99 := C.Ult(C.Const(8, 0x99), a)
				fixLo := M.Or(f.H, loGt9)
				fixHi := M.Or(f.C, aGt99)
				corr := C.Or(C.Mux(fixLo, C.Const(8, 0x06), C.Const(8, 0)), C.Mux(fixHi, C.Const(8, 0x60), C.Const(8, 0)))
				r := C.Mux(f.N, C.Sub(a, corr), C.Add(a, corr))
				nh := M.Ite(f.N, M.And(f.H, C.Ult(lo, C.Const(4, 6))), loGt9)
				m.Set(LocA, r)
				m.SetFlags(Flags{S: r[7], Z: C.IsZero(r), Y: r[5], H: nh, X: r[3], P: M.Not(C.Parity(r)), N: f.N, C: fixHi})
			case 5:
				d.set("alu8", "CPL")
				r := C.Not(a)
				f.Y, f.X, f.H, f.N = r[5], r[3], bdd.True, bdd.True
				m.Set(LocA, r)
				m.SetFlags(f)
			case 6:
				d.set("alu8", "SCF")
				f.H, f.N, f.C = bdd.False, bdd.False, bdd.True
				f.Y, f.X = a[5], a[3]
				d.info.DontCareF = F5 | F3
				m.SetFlags(f)
			case 7:
				d.set("alu8", "CCF")
				f.H, f.N, f.C = f.C, bdd.False, M.Not(f.C)
				f.Y, f.X = a[5], a[3]
				d.info.DontCareF = F5 | F3
				m.SetFlags(f)
			}
		}
	case 1:
		if y == 6 && z == 6 {
			d.set("halt", "HALT")
			m.Set(LocPC, C.AddK(m.PC(), -1))
			m.Set(LocHLT, C.Const(1, 1))
			return
		}
		d.set("load8", "LD "+r8mn[y]+","+r8mn[z])
		switch {
		case z == 6:
			a := d.memAddr()
			d.setReg8(y, m.Rd(a), true)
		case y == 6:
			a := d.memAddr()
			m.Wr(a, d.reg8(z, true))
		default:
			d.setReg8(y, d.reg8(z, false), false)
		}
	case 2:
		d.set("alu8", alumn[y]+" A,"+r8mn[z])
		if z == 6 {
			m.alu(y, m.Rd(d.memAddr()))
		} else {
			m.alu(y, d.reg8(z, false))
		}
	case 3:
		switch z {
		case 0:
			d.set("ret", "RET "+ccmn[y])
			taken := d.cc(y)
			d.info.Taken = taken
			m.When(taken, func() { m.Set(LocPC, m.Pop()) })
		case 1:
			if q == 0 {
				d.set("stack", "POP "+rp2mn[p])
				switch p {
				case 0:
					m.SetBC(m.Pop())
				case 1:
					m.SetDE(m.Pop())
				case 2:
					d.setHL16(m.Pop())
				case 3:
					v := m.Pop()
					m.Set(LocA, v.Slice(8, 16))
					m.Set(LocF, v.Slice(0, 8))
				}
			} else {
				switch p {
				case 0:
					d.set("ret", "RET")
					m.Set(LocPC, m.Pop())
				case 1:
					d.set("exchange", "EXX")
					for _, r := range []string{"BC.Hi", "BC.Lo", "DE.Hi", "DE.Lo", "HL.Hi", "HL.Lo"} {
						v := m.Get(r)
						m.Set(r, m.Get("Alternate."+r))
						m.Set("Alternate."+r, v)
					}
				case 2:
					d.set("jump", "JP (HL)")
					m.Set(LocPC, d.hl16())
				case 3:
					d.set("load16", "LD SP,HL")
					m.Set(LocSP, d.hl16())
				}
			}
		case 2:
			d.set("jump", "JP "+ccmn[y]+",nn")
			nn := d.imm16()
			taken := d.cc(y)
			d.info.Taken = taken
			m.When(taken, func() { m.Set(LocPC, nn) })
		case 3:
			switch y {
			case 0:
				d.set("jump", "JP nn")
				m.Set(LocPC, d.imm16())
			case 2:
				d.set("io", "OUT (n),A")
				n := d.imm8()
				m.Out(n, m.A())
			case 3:
				d.set("io", "IN A,(n)")
				n := d.imm8()
				m.Set(LocA, m.In(n))
			case 4:
				d.set("exchange", "EX (SP),HL")
				sp := m.SP()
				v := m.Rd16(sp)
				m.Wr16(sp, d.hl16())
				d.setHL16(v)
			case 5:
				d.set("exchange", "EX DE,HL")
				de, hl := m.DE(), m.HL()
				m.SetDE(hl)
				m.SetHL(de)
			case 6:
				d.set("intctl", "DI")
				m.Set(LocIF1, C.Const(1, 0))
				m.Set(LocIF2, C.Const(1, 0))
			case 7:
				d.set("intctl", "EI")
				m.Set(LocIF1, C.Const(1, 1))
				m.Set(LocIF2, C.Const(1, 1))
			default:
				panic("isa: prefix CB reached execMain")
			}
		case 4:
			d.set("call", "CALL "+ccmn[y]+",nn")
			nn := d.imm16()
			taken := d.cc(y)
			d.info.Taken = taken
			m.When(taken, func() {
				m.Push(m.PC())
				m.Set(LocPC, nn)
			})
		case 5:
			if q == 0 {
				d.set("stack", "PUSH "+rp2mn[p])
				switch p {
				case 0:
					m.Push(m.BC())
				case 1:
					m.Push(m.DE())
				case 2:
					m.Push(d.hl16())
				case 3:
					m.Push(C.Concat(m.A(), m.F()))
				}
			} else {
				if p != 0 {
					panic("isa: prefix reached execMain")
				}
				d.set("call", "CALL nn")
				nn := d.imm16()
				m.Push(m.PC())
				m.Set(LocPC, nn)
			}
		case 6:
			d.set("alu8", alumn[y]+" A,n")
			m.alu(y, d.imm8())
		case 7:
			d.set("call", fmt.Sprintf("RST %02XH", y*8))
			m.Push(m.PC())
			m.Set(LocPC, C.Const(16, uint64(y*8)))
		}
	}
}

// ---- CB table ----

func (d *dctx) bitFlags(y int, v dom.BV, memOperand bool) {
	m := d.m
	f := m.Flags()
	M := m.C.M
	z := M.Not(v[y])
	f.Z, f.P = z, z
	f.S = bdd.False
	if y == 7 {
		f.S = v[7]
	}
	f.H, f.N = bdd.True, bdd.False
	f.Y, f.X = v[5], v[3]
	if memOperand {
		d.info.DontCareF = F5 | F3
	}
	m.SetFlags(f)
}

func (d *dctx) execCB(op int) {
	m := d.m
	x, y, z := op>>6, (op>>3)&7, op&7
	d.info.Status = Doc
	if x == 0 && y == 6 {
		d.info.Status = Undoc // SLL
	}
	get := func() dom.BV {
		if z == 6 {
			return m.Rd(m.HL())
		}
		return m.Get(r8names[z])
	}
	put := func(v dom.BV) {
		if z == 6 {
			m.Wr(m.HL(), v)
		} else {
			m.Set(r8names[z], v)
		}
	}
	switch x {
	case 0:
		d.set("rot", rotmn[y]+" "+r8mn[z])
		put(m.rot(y, get()))
	case 1:
		d.set("bit", fmt.Sprintf("BIT %d,%s", y, r8mn[z]))
		d.bitFlags(y, get(), z == 6)
	case 2:
		d.set("bit", fmt.Sprintf("RES %d,%s", y, r8mn[z]))
		v := append(dom.BV{}, get()...)
		v[y] = bdd.False
		put(v)
	case 3:
		d.set("bit", fmt.Sprintf("SET %d,%s", y, r8mn[z]))
		v := append(dom.BV{}, get()...)
		v[y] = bdd.True
		put(v)
	}
}

// DD CB d op / FD CB d op
func (d *dctx) execIdxCB() {
	m := d.m
	addr := d.memAddr() // fetches the displacement
	d.nbytes++
	d.m1++
	op := d.constByte(m.FetchM1())
	d.info.RAlt = true
	x, y, z := op>>6, (op>>3)&7, op&7
	d.info.Status = Doc
	if z != 6 || (x == 0 && y == 6) {
		d.info.Status = Undoc
	}
	ix := "(" + d.idxLoc() + "+d)"
	switch x {
	case 0:
		d.set("rot", rotmn[y]+" "+ix)
		r := m.rot(y, m.Rd(addr))
		m.Wr(addr, r)
		if z != 6 {
			m.Set(r8names[z], r)
		}
	case 1:
		d.set("bit", fmt.Sprintf("BIT %d,%s", y, ix))
		d.bitFlags(y, m.Rd(addr), true)
	case 2, 3:
		n := "RES"
		if x == 3 {
			n = "SET"
		}
		d.set("bit", fmt.Sprintf("%s %d,%s", n, y, ix))
		v := append(dom.BV{}, m.Rd(addr)...)
		v[y] = m.b(x == 3)
		m.Wr(addr, v)
		if z != 6 {
			m.Set(r8names[z], v)
		}
	}
}

// ---- ED table ----

func (d *dctx) execED(op int) {
	m, C := d.m, d.m.C
	M := C.M
	x, y, z := op>>6, (op>>3)&7, op&7
	p, q := y>>1, y&1
	d.info.Status = Doc
	switch {
	case x == 1:
		switch z {
		case 0:
			v := m.In(m.Get(LocC))
			f := m.Flags()
			m.SetFlags(Flags{S: v[7], Z: C.IsZero(v), Y: v[5], H: bdd.False, X: v[3], P: M.Not(C.Parity(v)), N: bdd.False, C: f.C})
			if y == 6 {
				d.info.Status = Undoc
				d.set("io", "IN F,(C)")
			} else {
				d.set("io", "IN "+r8mn[y]+",(C)")
				m.Set(r8names[y], v)
			}
		case 1:
			if y == 6 {
				d.info.Status = Undoc
				d.set("io", "OUT (C),0")
				m.Out(m.Get(LocC), C.Const(8, 0))
			} else {
				d.set("io", "OUT (C),"+r8mn[y])
				m.Out(m.Get(LocC), m.Get(r8names[y]))
			}
		case 2:
			a := m.HL()
			var b dom.BV
			switch p {
			case 0:
				b = m.BC()
			case 1:
				b = m.DE()
			case 2:
				b = m.HL()
			default:
				b = m.SP()
			}
			f := m.Flags()
			a17, b17, c17 := C.Zext(a, 17), C.Zext(b, 17), C.Zext(dom.BV{f.C}, 17)
			var r17 dom.BV
			var v bdd.Node
			if q == 0 {
				d.set("arith16", "SBC HL,"+rpmn[p])
				r17 = C.Sub(C.Sub(a17, b17), c17)
				v = M.And(M.Xor(a[15], b[15]), M.Xor(a[15], r17[15]))
			} else {
				d.set("arith16", "ADC HL,"+rpmn[p])
				r17 = C.Add(C.Add(a17, b17), c17)
				v = M.And(M.Not(M.Xor(a[15], b[15])), M.Xor(a[15], r17[15]))
			}
			r := r17.Slice(0, 16)
			m.SetHL(r)
			m.SetFlags(Flags{S: r[15], Z: C.IsZero(r), Y: r[13], H: M.Xor(M.Xor(a[12], b[12]), r[12]), X: r[11], P: v, N: m.b(q == 0), C: r17[16]})
		case 3:
			nn := d.imm16()
			get := [4]func() dom.BV{m.BC, m.DE, m.HL, m.SP}[p]
			if q == 0 {
				d.set("load16", "LD (nn),"+rpmn[p])
				m.Wr16(nn, get())
			} else {
				d.set("load16", "LD "+rpmn[p]+",(nn)")
				v := m.Rd16(nn)
				switch p {
				case 0:
					m.SetBC(v)
				case 1:
					m.SetDE(v)
				case 2:
					m.SetHL(v)
				default:
					m.Set(LocSP, v)
				}
			}
		case 4:
			if y != 0 {
				d.info.Status = Undoc
			}
			d.set("alu8", "NEG")
			r, nf := m.addsub8(C.Const(8, 0), m.A(), bdd.False, true)
			m.Set(LocA, r)
			m.SetFlags(nf)
		case 5:
			if y == 1 {
				d.set("retint", "RETI")
				m.Notify(KindRETI, DevRETI)
				m.Set(LocPC, m.Pop())
			} else {
				if y != 0 {
					d.info.Status = Undoc
				}
				d.set("retint", "RETN")
				m.Notify(KindRETN, DevRETN)
				m.Set(LocPC, m.Pop())
				m.Set(LocIF1, m.Get(LocIF2))
			}
		case 6:
			mode := [8]int{0, 0, 1, 2, 0, 0, 1, 2}[y]
			if y != 0 && y != 2 && y != 3 {
				d.info.Status = Undoc
			}
			d.set("intctl", fmt.Sprintf("IM %d", mode))
			m.Set(LocIM, C.Const(m.IntW, uint64(mode)))
		case 7:
			switch y {
			case 0:
				d.set("ldir", "LD I,A")
				m.Set(LocI, m.A())
			case 1:
				d.set("ldir", "LD R,A")
				m.Set(LocR, m.A())
			case 2, 3:
				src := LocI
				d.set("ldir", "LD A,I")
				if y == 3 {
					src = LocR
					d.set("ldir", "LD A,R")
				}
				v := m.Get(src)
				f := m.Flags()
				m.Set(LocA, v)
				m.SetFlags(Flags{S: v[7], Z: C.IsZero(v), Y: v[5], H: bdd.False, X: v[3], P: m.Get(LocIF2)[0], N: bdd.False, C: f.C})
			case 4, 5:
				a := m.A()
				hl := m.HL()
				b := m.Rd(hl)
				var a2, b2 dom.BV
				if y == 4 {
					d.set("rot", "RRD")
					a2 = C.Concat(a.Slice(4, 8), b.Slice(0, 4))
					b2 = C.Concat(a.Slice(0, 4), b.Slice(4, 8))
				} else {
					d.set("rot", "RLD")
					a2 = C.Concat(a.Slice(4, 8), b.Slice(4, 8))
					b2 = C.Concat(b.Slice(0, 4), a.Slice(0, 4))
				}
				m.Wr(hl, b2)
				m.Set(LocA, a2)
				f := m.Flags()
				m.SetFlags(Flags{S: a2[7], Z: C.IsZero(a2), Y: a2[5], H: bdd.False, X: a2[3], P: M.Not(C.Parity(a2)), N: bdd.False, C: f.C})
			default:
				d.info.Status = Undoc
				d.set("misc", "NOP (ED)")
			}
		}
	case x == 2 && y >= 4 && z <= 3:
		d.block(y, z)
	default:
		d.info.Status = Undoc
		d.set("misc", "NOP (ED hole)")
	}
}

// block: y=4 xxI, 5 xxD, 6 xxIR, 7 xxDR; z=0 LD, 1 CP, 2 IN, 3 OUT
func (d *dctx) block(y, z int) {
	m, C := d.m, d.m.C
	M := C.M
	step := int64(1)
	if y&1 == 1 {
		step = -1
	}
	repeat := y >= 6
	names := [4][4]string{{"LDI", "CPI", "INI", "OUTI"}, {"LDD", "CPD", "IND", "OUTD"}, {"LDIR", "CPIR", "INIR", "OTIR"}, {"LDDR", "CPDR", "INDR", "OTDR"}}
	d.set("block", names[y-4][z])
	f := m.Flags()
	hl := m.HL()
	var again bdd.Node
	switch z {
	case 0:
		v := m.Rd(hl)
		m.Wr(m.DE(), v)
		m.SetHL(C.AddK(hl, step))
		m.SetDE(C.AddK(m.DE(), step))
		bc := C.AddK(m.BC(), -1)
		m.SetBC(bc)
		n := C.Add(m.A(), v)
		f.H, f.N = bdd.False, bdd.False
		f.P = M.Not(C.IsZero(bc))
		f.X, f.Y = n[3], n[1]
		m.SetFlags(f)
		again = f.P
	case 1:
		v := m.Rd(hl)
		a := m.A()
		r := C.Sub(a, v)
		h := M.Xor(M.Xor(a[4], v[4]), r[4])
		m.SetHL(C.AddK(hl, step))
		bc := C.AddK(m.BC(), -1)
		m.SetBC(bc)
		n := C.Sub(r, C.Zext(dom.BV{h}, 8))
		f.S, f.Z, f.H, f.N = r[7], C.IsZero(r), h, bdd.True
		f.P = M.Not(C.IsZero(bc))
		f.X, f.Y = n[3], n[1]
		m.SetFlags(f)
		again = M.And(f.P, M.Not(f.Z))
	case 2, 3:
		if z == 2 {
			v := m.In(m.Get(LocC))
			m.Wr(hl, v)
		} else {
			v := m.Rd(hl)
			m.Out(m.Get(LocC), v)
		}
		b := C.AddK(m.Get(LocB), -1)
		m.Set(LocB, b)
		m.SetHL(C.AddK(hl, step))
		f.Z = C.IsZero(b)
		f.N = bdd.True
		d.info.DontCareF = FS | FH | FPV | F5 | F3
		m.SetFlags(f)
		again = M.Not(f.Z)
	}
	if repeat {
		d.info.Repeat = again
		m.When(again, func() { m.Set(LocPC, C.AddK(m.PC(), -2)) })
	}
}
