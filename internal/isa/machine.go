// Package isa is the independent reference description of the Z80 used as the
// oracle of the summary comparison (DESIGN.md section 3).  It is written from
// the Zilog Z80 CPU User Manual and S. Young's "The Undocumented Z80
// Documented", organised by the octal decomposition of the opcode, against the
// same value domain (package dom) as the abstract interpreter, so that
// evaluating it for an encoding yields a summary in the same canonical form.
// Nothing in this package is derived from /repo.
package isa

import (
	"fmt"

	"verif/internal/bdd"
	"verif/internal/dom"
)

// Location names are the (promoted) field paths of z80.CPU, which are part of
// the exported API the properties speak about.
const (
	LocA   = "AF.Hi"
	LocF   = "AF.Lo"
	LocB   = "BC.Hi"
	LocC   = "BC.Lo"
	LocD   = "DE.Hi"
	LocE   = "DE.Lo"
	LocH   = "HL.Hi"
	LocL   = "HL.Lo"
	LocI   = "IR.Hi"
	LocR   = "IR.Lo"
	LocIX  = "IX"
	LocIY  = "IY"
	LocSP  = "SP"
	LocPC  = "PC"
	LocIM  = "IM"
	LocIF1 = "IFF1"
	LocIF2 = "IFF2"
	LocHLT = "HALT"

	DevMem  = "Memory"
	DevIO   = "IO"
	DevRETN = "RETNHandler"
	DevRETI = "RETIHandler"

	KindMemGet = "Memory.Get"
	KindMemSet = "Memory.Set"
	KindIOIn   = "IO.In"
	KindIOOut  = "IO.Out"
	KindRETN   = "RETNHandler.RETNHandle"
	KindRETI   = "RETIHandler.RETIHandle"
	KindLog    = "Log"
)

// Flag bit positions.
const (
	FC  = 0x01
	FN  = 0x02
	FPV = 0x04
	F3  = 0x08
	FH  = 0x10
	F5  = 0x20
	FZ  = 0x40
	FS  = 0x80
)

// M is the abstract reference machine.
type M struct {
	C     *dom.Ctx
	T     *dom.Trace
	IntW  int // width of the Go int holding the interrupt mode
	loc   map[string]dom.BV
	width map[string]int
	guard bdd.Node
	// Init, when non-nil, overrides the initial value of a location (used by
	// the IX/IY exchange of C11).
	Init map[string]dom.BV
}

func NewM(c *dom.Ctx, t *dom.Trace, intW int) *M {
	m := &M{C: c, T: t, IntW: intW, loc: map[string]dom.BV{}, guard: bdd.True}
	m.width = map[string]int{
		LocA: 8, LocF: 8, LocB: 8, LocC: 8, LocD: 8, LocE: 8, LocH: 8, LocL: 8,
		"Alternate.AF.Hi": 8, "Alternate.AF.Lo": 8, "Alternate.BC.Hi": 8, "Alternate.BC.Lo": 8,
		"Alternate.DE.Hi": 8, "Alternate.DE.Lo": 8, "Alternate.HL.Hi": 8, "Alternate.HL.Lo": 8,
		LocI: 8, LocR: 8, LocIX: 16, LocIY: 16, LocSP: 16, LocPC: 16,
		LocIM: intW, LocIF1: 1, LocIF2: 1, LocHLT: 1,
	}
	return m
}

// Locations lists the architectural locations the reference knows, with widths.
func (m *M) Locations() map[string]int { return m.width }

// Written returns the locations the reference assigned (possibly to their old value).
func (m *M) Written() map[string]dom.BV { return m.loc }

// InitOf is the value of a location before the instruction.
func (m *M) InitOf(name string) dom.BV {
	w, ok := m.width[name]
	if !ok {
		panic("isa: unknown location " + name)
	}
	if v, ok := m.Init[name]; ok {
		return v
	}
	return m.C.Atom("Init("+name+")", w)
}

// Get is the current value of a location.
func (m *M) Get(name string) dom.BV {
	if v, ok := m.loc[name]; ok {
		return v
	}
	return m.InitOf(name)
}

// Set assigns under the current guard.
func (m *M) Set(name string, v dom.BV) {
	if len(v) != m.width[name] {
		panic(fmt.Sprintf("isa: width of %s: got %d", name, len(v)))
	}
	m.loc[name] = m.C.Mux(m.guard, v, m.Get(name))
}

// When runs f under the additional condition c.
func (m *M) When(c bdd.Node, f func()) {
	old := m.guard
	m.guard = m.C.M.And(old, c)
	if m.guard != bdd.False {
		f()
	}
	m.guard = old
}

func (m *M) nilVar(dev string) bdd.Node { return m.C.Atom("IsNil("+dev+")", 1)[0] }

// ---- bus ----

func (m *M) Rd(addr dom.BV) dom.BV {
	return m.T.Emit(m.guard, KindMemGet, DevMem, []dom.BV{addr}, 8, "ref")
}

func (m *M) Wr(addr, v dom.BV) {
	m.T.Emit(m.guard, KindMemSet, DevMem, []dom.BV{addr, v}, 0, "ref")
}

func (m *M) Rd16(addr dom.BV) dom.BV {
	lo := m.Rd(addr)
	hi := m.Rd(m.C.AddK(addr, 1))
	return m.C.Concat(hi, lo)
}

func (m *M) Wr16(addr, v dom.BV) {
	m.Wr(addr, v.Slice(0, 8))
	m.Wr(m.C.AddK(addr, 1), v.Slice(8, 16))
}

// In reads a port; with no device attached the value is 0 and no access happens.
func (m *M) In(port dom.BV) dom.BV {
	none := m.nilVar(DevIO)
	var v dom.BV
	m.When(m.C.M.Not(none), func() {
		v = m.T.Emit(m.guard, KindIOIn, DevIO, []dom.BV{port}, 8, "ref")
	})
	if v == nil {
		v = m.C.Const(8, 0)
	}
	return m.C.Mux(none, m.C.Const(8, 0), v)
}

func (m *M) Out(port, v dom.BV) {
	m.When(m.C.M.Not(m.nilVar(DevIO)), func() {
		m.T.Emit(m.guard, KindIOOut, DevIO, []dom.BV{port, v}, 0, "ref")
	})
}

func (m *M) Notify(kind, dev string) {
	m.When(m.C.M.Not(m.nilVar(dev)), func() {
		m.T.Emit(m.guard, kind, dev, nil, 0, "ref")
	})
}

func (m *M) Log() { m.T.Emit(m.guard, KindLog, "log", nil, 0, "ref") }

// ---- registers ----

func (m *M) k8(v uint64) dom.BV  { return m.C.Const(8, v) }
func (m *M) k16(v uint64) dom.BV { return m.C.Const(16, v) }

func (m *M) PC() dom.BV { return m.Get(LocPC) }
func (m *M) SP() dom.BV { return m.Get(LocSP) }
func (m *M) A() dom.BV  { return m.Get(LocA) }
func (m *M) F() dom.BV  { return m.Get(LocF) }

func (m *M) pair(hi, lo string) dom.BV { return m.C.Concat(m.Get(hi), m.Get(lo)) }
func (m *M) setPair(hi, lo string, v dom.BV) {
	m.Set(hi, v.Slice(8, 16))
	m.Set(lo, v.Slice(0, 8))
}

func (m *M) BC() dom.BV     { return m.pair(LocB, LocC) }
func (m *M) DE() dom.BV     { return m.pair(LocD, LocE) }
func (m *M) HL() dom.BV     { return m.pair(LocH, LocL) }
func (m *M) SetBC(v dom.BV) { m.setPair(LocB, LocC, v) }
func (m *M) SetDE(v dom.BV) { m.setPair(LocD, LocE, v) }
func (m *M) SetHL(v dom.BV) { m.setPair(LocH, LocL, v) }

// Fetch reads the byte at PC and advances PC.
func (m *M) Fetch() dom.BV {
	pc := m.PC()
	v := m.Rd(pc)
	m.Set(LocPC, m.C.AddK(pc, 1))
	return v
}

// FetchM1 is an opcode fetch: Fetch plus the refresh-counter increment
// (low seven bits of R, bit 7 kept).
func (m *M) FetchM1() dom.BV {
	v := m.Fetch()
	r := m.Get(LocR)
	inc := m.C.AddK(r.Slice(0, 7), 1)
	m.Set(LocR, append(inc, r[7]))
	return v
}

func (m *M) Fetch16() dom.BV {
	lo := m.Fetch()
	hi := m.Fetch()
	return m.C.Concat(hi, lo)
}

func (m *M) Push(v dom.BV) {
	sp := m.SP()
	m.Wr(m.C.AddK(sp, -1), v.Slice(8, 16))
	m.Wr(m.C.AddK(sp, -2), v.Slice(0, 8))
	m.Set(LocSP, m.C.AddK(sp, -2))
}

func (m *M) Pop() dom.BV {
	sp := m.SP()
	lo := m.Rd(sp)
	hi := m.Rd(m.C.AddK(sp, 1))
	m.Set(LocSP, m.C.AddK(sp, 2))
	return m.C.Concat(hi, lo)
}

// ---- flags ----

// Flags is the flag byte taken apart; Y is bit 5 and X is bit 3.
type Flags struct{ S, Z, Y, H, X, P, N, C bdd.Node }

func (m *M) Flags() Flags {
	f := m.F()
	return Flags{S: f[7], Z: f[6], Y: f[5], H: f[4], X: f[3], P: f[2], N: f[1], C: f[0]}
}

func (m *M) SetFlags(f Flags) {
	m.Set(LocF, dom.BV{f.C, f.N, f.P, f.X, f.H, f.Y, f.Z, f.S})
}

func (m *M) b(x bool) bdd.Node {
	if x {
		return bdd.True
	}
	return bdd.False
}

// Clone copies the machine (sharing the context) together with its trace.
func (m *M) Clone() *M {
	n := *m
	n.loc = make(map[string]dom.BV, len(m.loc))
	for k, v := range m.loc {
		n.loc[k] = v
	}
	t := *m.T
	t.Events = append([]dom.Event{}, m.T.Events...)
	n.T = &t
	if m.Init != nil {
		n.Init = map[string]dom.BV{}
		for k, v := range m.Init {
			n.Init[k] = v
		}
	}
	return &n
}

// Force sets a location unconditionally (used when a path condition pins it).
func (m *M) Force(name string, v dom.BV) { m.loc[name] = v }

// SetGuard restricts all further effects to the path condition g.
func (m *M) SetGuard(g bdd.Node) { m.guard = g }
