package isa

import (
	"fmt"

	"verif/internal/bdd"
	"verif/internal/dom"
)

// Interrupt handling at the start of a Step, written from the Z80 manual's
// interrupt-response description and from property C06.  The pending request
// is described by symbolic inputs shared with the implementation summary:
// whether CPU.Interrupt is nil, its Type, len(Data) and Data[0].

// StepInputs names the symbolic inputs and constants of the decision table.
type StepInputs struct {
	NMIType uint64   // value of the exported constant NMIType
	Leaves  []string // integer CPU leaves in the engine's order (Exec snapshot)
	Widths  []int
}

// StepRows are the rows of the decision table as predicates over the pre-state.
type StepRows struct {
	None, NMI, Refused, IM0, IM0Empty, IM1, IM2, IM2Empty, IMOther bdd.Node
}

const KindExec = "Exec"

func (m *M) pending() (pend bdd.Node, typ dom.BV, hasData bdd.Node, data0 dom.BV) {
	C := m.C
	pend = C.M.Not(m.nilVar("Interrupt"))
	typ = C.Atom("Init(Interrupt.Type)", m.IntW)
	ln := C.Zext(C.Atom("len(Interrupt.Data)", m.IntW-1), m.IntW)
	hasData = C.M.Not(C.IsZero(ln))
	data0 = C.Atom("Init(Interrupt.Data[0])", 8)
	return
}

// Rows computes the row predicates.
func (m *M) Rows(in StepInputs) StepRows {
	C := m.C
	M := C.M
	pend, typ, hasData, _ := m.pending()
	isNMI := M.And(pend, C.Eq(typ, C.Const(m.IntW, in.NMIType)))
	mask := M.And(pend, M.Not(isNMI))
	iff1 := m.InitOf(LocIF1)[0]
	acc := M.And(mask, iff1)
	im := m.InitOf(LocIM)
	isIM := func(k uint64) bdd.Node { return M.And(acc, C.Eq(im, C.Const(m.IntW, k))) }
	im0, im1, im2 := isIM(0), isIM(1), isIM(2)
	return StepRows{
		None:     M.Not(pend),
		NMI:      isNMI,
		Refused:  M.And(mask, M.Not(iff1)),
		IM0:      M.And(im0, hasData),
		IM0Empty: M.And(im0, M.Not(hasData)),
		IM1:      im1,
		IM2:      M.And(im2, hasData),
		IM2Empty: M.And(im2, M.Not(hasData)),
		IMOther:  M.And(acc, M.Not(M.Or(im0, M.Or(im1, im2)))),
	}
}

// StepRef evaluates the reference for one Step with the instruction execution
// kept opaque (an Exec event carrying the state it starts from, after which
// every register is havocked).  It returns the condition under which the
// pending request is consumed (CPU.Interrupt becomes nil).
func (m *M) StepRef(in StepInputs) (consumed bdd.Node) {
	C := m.C
	M := C.M
	rows := m.Rows(in)
	_, _, _, data0 := m.pending()
	zero, one := C.Const(1, 0), C.Const(1, 1)
	_ = one
	m.When(rows.NMI, func() {
		old := m.Get(LocIF1)
		m.Push(m.PC())
		m.Set(LocPC, C.Const(16, 0x0066))
		m.Set(LocIF2, old)
		m.Set(LocIF1, zero)
	})
	m.When(rows.IM1, func() {
		m.Push(m.PC())
		m.Set(LocPC, C.Const(16, 0x0038))
		m.Set(LocIF1, zero)
		m.Set(LocIF2, zero)
	})
	m.When(rows.IM2, func() {
		m.Push(m.PC())
		vec := C.Concat(m.Get(LocI), C.And(data0, C.Const(8, 0xFE)))
		m.Set(LocPC, m.Rd16(vec))
		m.Set(LocIF1, zero)
		m.Set(LocIF2, zero)
	})
	consumed = M.Or(rows.NMI, M.Or(rows.IM1, M.Or(rows.IM2, M.Or(rows.IM2Empty, M.Or(rows.IM0, rows.IM0Empty)))))
	exec := M.Or(rows.None, M.Or(rows.Refused, rows.IMOther))
	m.When(exec, func() { m.ExecOpaque(in, DevMem) })
	return consumed
}

// ExecOpaque records "the decoder runs from the current register state with
// the given memory in effect" and havocs the registers.
func (m *M) ExecOpaque(in StepInputs, memDesc string) {
	for i, l := range in.Leaves {
		if _, ok := m.width[l]; !ok {
			m.width[l] = in.Widths[i] // a CPU field the reference does not know: havocked like the rest
		}
	}
	m.T.Emit(m.guard, KindExec, memDesc, nil, 0, "ref")
	for i, l := range in.Leaves {
		m.Set(l, m.C.Atom("PostExec("+l+")", in.Widths[i]))
	}
}

// IM0Ref is the reference for accepting a maskable request in mode 0 whose
// supplied instruction is RST p (one byte) or CALL nn (three bytes): both
// flip-flops cleared, the address of the next program instruction pushed, PC
// loaded; no program instruction is executed and no byte is read from memory.
func (m *M) IM0Ref(data []dom.BV) (name string, ok bool) {
	C := m.C
	op, isc := data[0].IsConst()
	if !isc {
		return "", false
	}
	zero := C.Const(1, 0)
	switch {
	case op&0xC7 == 0xC7 && len(data) == 1:
		m.Set(LocIF1, zero)
		m.Set(LocIF2, zero)
		m.Push(m.PC())
		m.Set(LocPC, C.Const(16, op&0x38))
		return fmt.Sprintf("RST %02XH", op&0x38), true
	case op == 0xCD && len(data) == 3:
		m.Set(LocIF1, zero)
		m.Set(LocIF2, zero)
		m.Push(m.PC())
		m.Set(LocPC, C.Concat(data[2], data[1]))
		return "CALL nn", true
	}
	return "", false
}
