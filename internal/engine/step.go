package engine

import (
	"fmt"
	"go/constant"
	"go/types"
	"sort"
	"strings"

	"golang.org/x/tools/go/ssa"

	"verif/internal/absint"
	"verif/internal/bdd"
	"verif/internal/dom"
	"verif/internal/isa"
	"verif/internal/load"
)

// StepMode selects how Step is summarised.
type StepMode struct {
	// IM0Data, when set, specialises to "a maskable request with these data
	// bytes is pending, mode 0, IFF1 set" and interprets the decoder in line.
	IM0Data []dom.BV
	// HavocInterrupt replaces CPU.Interrupt by a fresh unknown pointer after
	// every device call (callbacks may raise requests, C08).
	HavocInterrupt bool
	// Assume restricts the pre-states (HasAssume).
	Assume    bdd.Node
	HasAssume bool
}

// ConstValue returns the value of an exported integer constant of package z80.
func (e *Engine) ConstValue(name string) (uint64, error) {
	obj := e.P.Pkg(load.ModulePath).Types.Scope().Lookup(name)
	c, ok := obj.(*types.Const)
	if !ok {
		return 0, fmt.Errorf("UNRESOLVED anchor: constant %s", name)
	}
	v, ok := constant.Uint64Val(constant.ToInt(c.Val()))
	if !ok {
		return 0, fmt.Errorf("UNRESOLVED anchor: constant %s is not an integer", name)
	}
	return v, nil
}

// IntLeaves lists the integer leaves of CPU in engine order.
func (e *Engine) IntLeaves() (paths []string, widths []int) {
	for _, l := range e.Leaves {
		if l.Width > 0 {
			paths = append(paths, l.Path)
			widths = append(widths, l.Width)
		}
	}
	return
}

// StepInputs builds the reference's view of the anchors.
func (e *Engine) StepInputs() (isa.StepInputs, error) {
	nmi, err := e.ConstValue("NMIType")
	if err != nil {
		return isa.StepInputs{}, err
	}
	for _, f := range []string{"Interrupt"} {
		l := e.leafByP[f]
		if l == nil {
			return isa.StepInputs{}, fmt.Errorf("UNRESOLVED anchor: field CPU.%s", f)
		}
		if _, ok := l.Type.Underlying().(*types.Pointer); !ok {
			return isa.StepInputs{}, fmt.Errorf("UNRESOLVED anchor: CPU.%s is not a pointer", f)
		}
	}
	p, w := e.IntLeaves()
	return isa.StepInputs{NMIType: nmi, Leaves: p, Widths: w}, nil
}

// RunStepImpl summarises (*CPU).Step.
func (e *Engine) RunStepImpl(c *dom.Ctx, mode StepMode) *ImplSummary {
	tr := dom.NewTrace(c)
	in := absint.New(e.P, c, tr)
	in.AddSymbolicRoot("cpu", "")
	st := e.SeedInterp(in)
	in.Sites = map[ssa.Instruction]*absint.SiteLog{}
	e.Preconditions(in)
	paths, widths := e.IntLeaves()
	if mode.IM0Data != nil {
		imType, _ := e.ConstValue("IMType")
		in.AddSymbolicRoot("*Interrupt", "Interrupt.")
		in.AddConcreteRoot("im0bytes")
		in.InitOverride["cpu|Interrupt"] = &absint.Ptr{Root: "*Interrupt", Nil: bdd.False}
		in.InitOverride["*Interrupt|Type"] = c.Const(e.IntW, imType)
		in.InitOverride["*Interrupt|Data"] = &absint.Slice{Root: "im0bytes", Lo: 0, Len: c.Const(e.IntW, uint64(len(mode.IM0Data))), Nil: bdd.False}
		for i, b := range mode.IM0Data {
			st.Set("im0bytes", fmt.Sprintf("[%d]", i), b)
		}
		in.InitOverride["cpu|"+isa.LocIM] = c.Const(e.IntW, 0)
		in.InitOverride["cpu|"+isa.LocIF1] = c.Const(1, 1)
	} else {
		in.OnCall = func(in *absint.Interp, fn *ssa.Function, args []absint.Value, guard bdd.Node, st *absint.State, pos string) (absint.Value, *absint.State, bool) {
			if fn != e.Exec {
				return nil, nil, false
			}
			memv := in.Load(st, &absint.Ptr{Root: "cpu", Path: isa.DevMem, Nil: bdd.False}, e.leafByP[isa.DevMem].Type, 0)
			// a memory object built below Step (the mode-0 overlay): probe its
			// methods with arbitrary arguments under the current path
			// condition, so that their index/nil sites get a value-based verdict
			if iv, ok := memv.(*absint.Iface); ok && iv.Sym == "" && iv.Conc != nil {
				e.probeMethods(in, iv, guard, st)
			}
			desc := absint.DescribeValue(c, memv)
			if iv, ok := memv.(*absint.Iface); ok && iv.Sym != "" && iv.Nil != bdd.True {
				desc = iv.Sym
			} else if ok && iv.Sym == "" {
				desc = "overlay:" + iv.ConcType.String()
			}
			// the decoder must start from the untouched register state: any
			// register that differs from its initial value under the guard
			// is named in the event's device string (and so mismatches)
			for _, p := range paths {
				v := in.Load(st, &absint.Ptr{Root: "cpu", Path: p, Nil: bdd.False}, e.leafByP[p].Type, 0).(dom.BV)
				init := c.Atom("Init("+p+")", len(v))
				if c.M.And(guard, c.M.Not(c.Eq(v, init))) != bdd.False {
					desc += " with " + p + " modified"
				}
			}
			var bargs []dom.BV
			tr.Emit(guard, isa.KindExec, desc, bargs, 0, pos)
			for i, p := range paths {
				in.Store(st, &absint.Ptr{Root: "cpu", Path: p, Nil: bdd.False}, e.leafByP[p].Type, c.Atom("PostExec("+p+")", widths[i]), bdd.True, 0)
			}
			return nil, st, true
		}
	}
	if mode.HavocInterrupt {
		n := 0
		in.AfterEvent = func(in *absint.Interp, st *absint.State, guard bdd.Node) {
			n++
			name := fmt.Sprintf("Interrupt@call%d", n)
			in.AddSymbolicRoot("*"+name, name+".")
			in.Store(st, &absint.Ptr{Root: "cpu", Path: "Interrupt", Nil: bdd.False}, e.leafByP["Interrupt"].Type,
				&absint.Ptr{Root: "*" + name, Nil: c.Atom("IsNil("+name+")", 1)[0]}, bdd.True, 0)
		}
	}
	in.Assume, in.HasAssume = mode.Assume, mode.HasAssume
	_, out, err := in.Run(e.Step, []absint.Value{&absint.Ptr{Root: "cpu", Nil: bdd.False}}, st)
	s := &ImplSummary{Err: err, Instrs: in.Instrs, Sites: in.Sites}
	s.C, s.Trace = c, tr
	for fn := range in.Funcs {
		s.Funcs = append(s.Funcs, fn.String())
	}
	for fn, why := range in.Incomplete {
		if s.Incomplete == nil {
			s.Incomplete = map[string]string{}
		}
		s.Incomplete[fn.String()] = why
	}
	sort.Strings(s.Funcs)
	for x := range in.Externals {
		s.Externals = append(s.Externals, x)
	}
	s.Pos = e.P.Pos(e.Step.Pos())
	if err != nil {
		return s
	}
	s.Loc = map[string]dom.BV{}
	s.Other = map[string]absint.Value{}
	for _, l := range e.Leaves {
		v := in.Load(out, &absint.Ptr{Root: "cpu", Path: l.Path, Nil: bdd.False}, l.Type, 0)
		if l.Width > 0 {
			s.Loc[l.Path] = v.(dom.BV)
		} else {
			s.Other[l.Path] = v
		}
	}
	for _, k := range out.Keys() {
		root, path := absint.SplitKey(k)
		if root == "cpu" {
			if _, ok := e.leafByP[path]; !ok {
				s.Extra = append(s.Extra, "cpu."+path)
			}
			continue
		}
		if strings.HasPrefix(root, "alloc#") || root == "im0bytes" {
			continue
		}
		if gv, ok := e.GlobalInit.Get(root, path); ok {
			if cur, _ := out.Get(root, path); absint.SameValue(cur, gv) {
				continue
			}
		}
		s.Extra = append(s.Extra, root+"."+path)
	}
	return s
}

// RunStepRef evaluates the Step decision table of the reference.
func (e *Engine) RunStepRef(c *dom.Ctx) (*RefSummary, isa.StepRows, error) {
	in, err := e.StepInputs()
	if err != nil {
		return nil, isa.StepRows{}, err
	}
	tr := dom.NewTrace(c)
	m := isa.NewM(c, tr, e.IntW)
	consumed := m.StepRef(in)
	rows := m.Rows(in)
	r := &RefSummary{M: m, Info: isa.Info{Class: "step", Name: "Step"}}
	r.C, r.Trace = c, tr
	r.Loc = map[string]dom.BV{}
	for _, l := range e.Leaves {
		if l.Width > 0 {
			if _, known := m.Locations()[l.Path]; known {
				r.Loc[l.Path] = m.Get(l.Path)
			} else {
				r.Loc[l.Path] = c.Atom("Init("+l.Path+")", l.Width)
			}
		}
	}
	// expected final CPU.Interrupt: nil when consumed, else unchanged
	nilv := c.Atom("IsNil(Interrupt)", 1)[0]
	r.Other = map[string]absint.Value{
		"Interrupt": &absint.Ptr{Root: "*Interrupt", Nil: c.M.Or(consumed, nilv)},
	}
	return r, rows, nil
}

// RunIM0Ref evaluates the reference for mode-0 acceptance of RST/CALL.
func (e *Engine) RunIM0Ref(c *dom.Ctx, data []dom.BV) (*RefSummary, bool) {
	tr := dom.NewTrace(c)
	m := isa.NewM(c, tr, e.IntW)
	m.Init = map[string]dom.BV{isa.LocIM: c.Const(e.IntW, 0), isa.LocIF1: c.Const(1, 1)}
	name, ok := m.IM0Ref(data)
	if !ok {
		return nil, false
	}
	r := &RefSummary{M: m, Info: isa.Info{Class: "im0", Name: "IM0 " + name, DontCareR: true}}
	r.C, r.Trace = c, tr
	r.Loc = map[string]dom.BV{}
	for _, l := range e.Leaves {
		if l.Width > 0 {
			if _, known := m.Locations()[l.Path]; known {
				r.Loc[l.Path] = m.Get(l.Path)
			} else {
				r.Loc[l.Path] = c.Atom("Init("+l.Path+")", l.Width)
			}
		}
	}
	r.Other = map[string]absint.Value{"Interrupt": &absint.Ptr{Nil: bdd.True}}
	return r, true
}

// probeMethods runs every method of a concrete interface value with fresh
// symbolic arguments on a copy of the state; only the site log is kept.
func (e *Engine) probeMethods(in *absint.Interp, iv *absint.Iface, guard bdd.Node, st *absint.State) {
	ms := e.P.Prog.MethodSets.MethodSet(iv.ConcType)
	saved := in.T
	defer func() { in.T = saved }()
	for i := 0; i < ms.Len(); i++ {
		fn := e.P.Prog.MethodValue(ms.At(i))
		if fn == nil || fn.Blocks == nil || !load.InModule(fn) {
			continue
		}
		in.T = dom.NewTrace(in.C)
		args := []absint.Value{iv.Conc}
		for j, p := range fn.Params[1:] {
			args = append(args, in.SymbolicValue(p.Type(), fmt.Sprintf("probe.%s.arg%d", fn.Name(), j)))
		}
		in.Probe(fn, args, guard, st.Clone())
	}
}
