// Package engine drives the summary comparison: for every opcode-byte prefix
// it specialises the repository's decoder (abstract interpretation of
// executeOne with the opcode bytes pinned), evaluates the reference model for
// the same bytes in the same value domain, and compares the two summaries.
package engine

import (
	"fmt"
	"go/types"
	"os"
	"runtime"
	"sort"
	"strings"
	"sync"

	"golang.org/x/tools/go/ssa"
	"golang.org/x/tools/go/ssa/ssautil"

	"verif/internal/absint"
	"verif/internal/bdd"
	"verif/internal/dom"
	"verif/internal/isa"
	"verif/internal/load"
	"verif/internal/rules"
)

// Spec pins instruction bytes: offset from PC -> value.
type Spec struct {
	Bytes   map[int]byte
	Pattern string // fetch pattern of the prefix: M = opcode fetch, F = plain fetch
	Table   string // main, CB, ED, DD, FD, DDCB, FDCB
}

func (s Spec) String() string {
	n := len(s.Pattern)
	parts := make([]string, n)
	for i := 0; i < n; i++ {
		if b, ok := s.Bytes[i]; ok {
			parts[i] = fmt.Sprintf("%02X", b)
		} else {
			parts[i] = "d"
		}
	}
	return strings.Join(parts, " ")
}

// Engine holds the resolved anchors.
type Engine struct {
	P       *load.Program
	CPU     *types.Named
	Step    *ssa.Function
	Exec    *ssa.Function // the decoder ("executeOne"), found by role
	IntW    int
	Leaves  []Leaf // leaf locations of CPU
	leafByP map[string]*Leaf
	// Switches of the decoder: number of constant cases per switch.
	SwitchCases []int
	ConstCases  int
	// GlobalInit: the stores package initialisation makes to package-level
	// variables (constants only); InitOnly: the variables nothing else writes.
	GlobalInit *absint.State
	InitOnly   map[string]bool
	InitError  error // why package initialisation could not be interpreted (nil if it was)
}

type Leaf struct {
	Path  string
	Type  types.Type
	Width int // 0 for non-integer leaves
}

// New resolves the anchors: the exported ones by name, the decoder by role.
func New(p *load.Program) (*Engine, error) {
	e := &Engine{P: p, leafByP: map[string]*Leaf{}}
	pk := p.Pkg(load.ModulePath)
	obj := pk.Types.Scope().Lookup("CPU")
	if obj == nil {
		return nil, fmt.Errorf("UNRESOLVED anchor: type %s.CPU", load.ModulePath)
	}
	named, ok := obj.Type().(*types.Named)
	if !ok {
		return nil, fmt.Errorf("UNRESOLVED anchor: %s.CPU is not a named type", load.ModulePath)
	}
	e.CPU = named
	e.Step = p.Method(load.ModulePath, "CPU", "Step")
	if e.Step == nil || e.Step.Blocks == nil {
		return nil, fmt.Errorf("UNRESOLVED anchor: method (*CPU).Step")
	}
	// the decoder: the static callee below Step (transitively, in the module,
	// taking the *CPU) that contains the largest constant switch
	best := 0
	seen := map[*ssa.Function]bool{}
	var walk func(fn *ssa.Function, depth int)
	walk = func(fn *ssa.Function, depth int) {
		if seen[fn] || depth > 3 {
			return
		}
		seen[fn] = true
		n := 0
		var per []int
		for _, sw := range ssautil.Switches(fn) {
			if sw.ConstCases != nil {
				n += len(sw.ConstCases)
				per = append(per, len(sw.ConstCases))
			}
		}
		if n > best {
			best, e.Exec, e.SwitchCases, e.ConstCases = n, fn, per, n
		}
		for _, b := range fn.Blocks {
			for _, in := range b.Instrs {
				if c, ok := in.(*ssa.Call); ok {
					if cal := c.Call.StaticCallee(); cal != nil && load.InModule(cal) && cal.Blocks != nil {
						walk(cal, depth+1)
					}
				}
			}
		}
	}
	walk(e.Step, 0)
	if e.Exec != nil && best >= 100 {
		// the unit Step executes is the function Step itself calls: when the big
		// switch sits in a helper of that function (a decode() whose result the
		// caller logs), take the caller - it takes only the CPU and returns nothing
		contains := func(root *ssa.Function) bool {
			seenC := map[*ssa.Function]bool{}
			var rec func(f *ssa.Function, d int) bool
			rec = func(f *ssa.Function, d int) bool {
				if f == e.Exec {
					return true
				}
				if seenC[f] || d > 3 {
					return false
				}
				seenC[f] = true
				for _, b := range f.Blocks {
					for _, in := range b.Instrs {
						if c, ok := in.(*ssa.Call); ok {
							if cal := c.Call.StaticCallee(); cal != nil && load.InModule(cal) && cal.Blocks != nil && rec(cal, d+1) {
								return true
							}
						}
					}
				}
				return false
			}
			return rec(root, 0)
		}
		for _, b := range e.Step.Blocks {
			for _, in := range b.Instrs {
				c, ok := in.(*ssa.Call)
				if !ok {
					continue
				}
				cal := c.Call.StaticCallee()
				if cal == nil || cal == e.Exec || !load.InModule(cal) || cal.Blocks == nil || len(cal.Params) != 1 || cal.Signature.Results().Len() != 0 {
					continue
				}
				if contains(cal) {
					e.Exec = cal
				}
			}
		}
	}
	if e.Exec == nil || best < 100 {
		// fallback by role: the static callee of Step that takes only the CPU,
		// returns nothing, and has the largest body below it (a decoder that
		// works by arithmetic on the opcode bits has few constant cases)
		e.Exec = nil
		bestSize := 0
		for _, b := range e.Step.Blocks {
			for _, in := range b.Instrs {
				c, ok := in.(*ssa.Call)
				if !ok {
					continue
				}
				cal := c.Call.StaticCallee()
				if cal == nil || !load.InModule(cal) || cal.Blocks == nil || len(cal.Params) != 1 || cal.Signature.Results().Len() != 0 {
					continue
				}
				size := 0
				seen2 := map[*ssa.Function]bool{}
				var cnt func(f *ssa.Function)
				cnt = func(f *ssa.Function) {
					if seen2[f] {
						return
					}
					seen2[f] = true
					for _, bb := range f.Blocks {
						size += len(bb.Instrs)
						for _, i2 := range bb.Instrs {
							if c2, ok := i2.(*ssa.Call); ok {
								if f2 := c2.Call.StaticCallee(); f2 != nil && load.InModule(f2) && f2.Blocks != nil {
									cnt(f2)
								}
							}
						}
					}
				}
				cnt(cal)
				if size > bestSize {
					bestSize, e.Exec = size, cal
				}
			}
		}
		if e.Exec == nil {
			return nil, fmt.Errorf("UNRESOLVED anchor: no decoder found below Step")
		}
	}
	if len(e.Exec.Params) != 1 {
		return nil, fmt.Errorf("UNRESOLVED anchor: decoder %s does not take exactly the *CPU", e.Exec)
	}
	e.IntW = int(p.Sizes.Sizeof(types.Typ[types.Int])) * 8
	e.initGlobals()
	// leaves
	tmp := absint.New(p, dom.NewCtx(), nil)
	tmp.EachLeaf(named, "", func(path string, t types.Type) {
		l := Leaf{Path: path, Type: t}
		if b, ok := t.Underlying().(*types.Basic); ok {
			switch {
			case b.Info()&types.IsBoolean != 0:
				l.Width = 1
			case b.Info()&types.IsInteger != 0:
				l.Width = int(p.Sizes.Sizeof(t)) * 8
			}
		}
		e.Leaves = append(e.Leaves, l)
	})
	for i := range e.Leaves {
		if _, dup := e.leafByP[e.Leaves[i].Path]; dup {
			return nil, fmt.Errorf("UNRESOLVED: ambiguous CPU leaf path %q", e.Leaves[i].Path)
		}
		e.leafByP[e.Leaves[i].Path] = &e.Leaves[i]
	}
	// the reference's locations must exist with the same widths
	rm := isa.NewM(dom.NewCtx(), nil, e.IntW)
	var miss []string
	for name, w := range rm.Locations() {
		l, ok := e.leafByP[name]
		if !ok || l.Width != w {
			miss = append(miss, name)
		}
	}
	for _, dev := range []string{isa.DevMem, isa.DevIO, isa.DevRETN, isa.DevRETI} {
		l, ok := e.leafByP[dev]
		if !ok {
			miss = append(miss, dev)
			continue
		}
		if _, isI := l.Type.Underlying().(*types.Interface); !isI {
			miss = append(miss, dev)
		}
	}
	if len(miss) > 0 {
		sort.Strings(miss)
		return nil, fmt.Errorf("UNRESOLVED anchors: CPU fields %v not found with the documented types", miss)
	}
	return e, nil
}

// LeafByPath returns the CPU leaf with the given promoted path.
func (e *Engine) LeafByPath(p string) *Leaf { return e.leafByP[p] }

// AllSpecs enumerates the 1792 opcode-byte prefixes.
func (e *Engine) AllSpecs() []Spec {
	var out []Spec
	for k := 0; k < 256; k++ {
		switch k {
		case 0xCB, 0xED, 0xDD, 0xFD:
			continue
		}
		out = append(out, Spec{Bytes: map[int]byte{0: byte(k)}, Pattern: "M", Table: "main"})
	}
	for _, pre := range []struct {
		b byte
		t string
	}{{0xCB, "CB"}, {0xED, "ED"}, {0xDD, "DD"}, {0xFD, "FD"}} {
		for k := 0; k < 256; k++ {
			if (pre.b == 0xDD || pre.b == 0xFD) && k == 0xCB {
				continue
			}
			out = append(out, Spec{Bytes: map[int]byte{0: pre.b, 1: byte(k)}, Pattern: "MM", Table: pre.t})
		}
	}
	for _, pre := range []struct {
		b byte
		t string
	}{{0xDD, "DDCB"}, {0xFD, "FDCB"}} {
		for k := 0; k < 256; k++ {
			out = append(out, Spec{Bytes: map[int]byte{0: pre.b, 1: 0xCB, 3: byte(k)}, Pattern: "MMFM", Table: pre.t})
		}
	}
	return out
}

// Summary is one side of a comparison.
type Summary struct {
	C     *dom.Ctx
	Trace *dom.Trace
	// Loc: value of every integer CPU leaf after the code ran.
	Loc map[string]dom.BV
	// Other: value of the non-integer leaves (interfaces, pointers, maps).
	Other map[string]absint.Value
	// Extra: writes to anything that is not a CPU leaf or a local (globals ...)
	Extra []string
}

// (RefSummary.Other, when it has an entry for a non-integer leaf, is the
// expected final value; otherwise the leaf must be unchanged.)

// ImplSummary is the implementation side with bookkeeping.
type ImplSummary struct {
	Summary
	Pos       string   // position of the selected arm
	Funcs     []string // functions interpreted
	Externals []string
	Instrs    int
	Err       error // *absint.Undecided
	Sites     map[ssa.Instruction]*absint.SiteLog
	// Incomplete: functions entered by a probe that an undecided construct cut
	// short (function name -> reason); sites in them are not shown unreachable
	Incomplete map[string]string
}

func (e *Engine) fixedHook(c *dom.Ctx, spec Spec, pcAtom dom.BV) func(kind, dev string, args []dom.BV) (dom.BV, bool) {
	type ent struct {
		addr dom.BV
		v    byte
	}
	var ents []ent
	for off, b := range spec.Bytes {
		ents = append(ents, ent{c.AddK(pcAtom, int64(off)), b})
	}
	return func(kind, dev string, args []dom.BV) (dom.BV, bool) {
		if kind != isa.KindMemGet || dev != isa.DevMem || len(args) != 1 {
			return nil, false
		}
		for _, en := range ents {
			if args[0].Equal(en.addr) {
				return c.Const(8, uint64(en.v)), true
			}
		}
		return nil, false
	}
}

// Options of one arm run.
type Options struct {
	// SwapIXIY starts from a state with IX and IY exchanged (C11).
	SwapIXIY bool
}

// RunImpl summarises the decoder for the pinned bytes.
func (e *Engine) RunImpl(c *dom.Ctx, spec Spec, opt Options) *ImplSummary {
	tr := dom.NewTrace(c)
	pc := c.Atom("Init("+isa.LocPC+")", 16)
	tr.Fixed = e.fixedHook(c, spec, pc)
	in := absint.New(e.P, c, tr)
	in.AddSymbolicRoot("cpu", "")
	in.ReadableGlobals = e.InitOnly
	in.Sites = map[ssa.Instruction]*absint.SiteLog{}
	e.seedRoots(in)
	e.Preconditions(in)
	if opt.SwapIXIY {
		in.InitOverride["cpu|"+isa.LocIX] = c.Atom("Init("+isa.LocIY+")", 16)
		in.InitOverride["cpu|"+isa.LocIY] = c.Atom("Init("+isa.LocIX+")", 16)
	}
	st := e.GlobalInit.Clone()
	_, out, err := in.Run(e.Exec, []absint.Value{&absint.Ptr{Root: "cpu", Nil: bdd.False}}, st)
	s := &ImplSummary{Err: err, Instrs: in.Instrs, Sites: in.Sites}
	s.C, s.Trace = c, tr
	for fn := range in.Funcs {
		s.Funcs = append(s.Funcs, fn.String())
	}
	sort.Strings(s.Funcs)
	for x := range in.Externals {
		s.Externals = append(s.Externals, x)
	}
	sort.Strings(s.Externals)
	// arm position: last executed block of the decoder that is a switch body
	for i := len(in.TopBlocks) - 1; i >= 0 && s.Pos == ""; i-- {
		b := in.TopBlocks[i]
		if b.Comment == "switch.done" {
			continue
		}
		for _, ins := range b.Instrs {
			if ins.Pos().IsValid() {
				s.Pos = e.P.Pos(ins.Pos())
				break
			}
		}
		if s.Pos == "" && (b.Comment == "switch.body" || b.Comment == "switch.next") {
			// empty arm (e.g. LD B,B): use the position of the jump's predecessor test
			for _, pb := range b.Preds {
				if n := len(pb.Instrs); n > 0 && pb.Instrs[n-1].Pos().IsValid() {
					s.Pos = e.P.Pos(pb.Instrs[n-1].Pos())
				}
			}
		}
	}
	if err != nil {
		return s
	}
	s.Loc = map[string]dom.BV{}
	s.Other = map[string]absint.Value{}
	for _, l := range e.Leaves {
		v := in.Load(out, &absint.Ptr{Root: "cpu", Path: l.Path, Nil: bdd.False}, l.Type, 0)
		if l.Width > 0 {
			s.Loc[l.Path] = v.(dom.BV)
		} else {
			s.Other[l.Path] = v
		}
	}
	for _, k := range out.Keys() {
		root, path := absint.SplitKey(k)
		if root == "cpu" {
			if _, ok := e.leafByP[path]; !ok {
				s.Extra = append(s.Extra, "cpu."+path)
			}
			continue
		}
		if strings.HasPrefix(root, "alloc#") {
			continue
		}
		if gv, ok := e.GlobalInit.Get(root, path); ok {
			if cur, _ := out.Get(root, path); absint.SameValue(cur, gv) {
				continue // untouched contents of an initialisation-only table
			}
		}
		s.Extra = append(s.Extra, root+"."+path)
	}
	return s
}

// seedRoots declares the roots the seeded initial state mentions (arrays
// allocated by package initialisation).
func (e *Engine) seedRoots(in *absint.Interp) {
	for _, k := range e.GlobalInit.Keys() {
		root, _ := absint.SplitKey(k)
		if strings.HasPrefix(root, "init.alloc#") {
			in.AddConcreteRoot(root)
		}
	}
}

// Preconditions installs the API preconditions of the properties on the
// symbolic CPU: cpu.Memory is not nil.
func (e *Engine) Preconditions(in *absint.Interp) {
	in.InitOverride["cpu|"+isa.DevMem] = &absint.Iface{Sym: isa.DevMem, Nil: bdd.False}
}

// SeedInterp prepares an interpreter and initial state with the package's
// initialisation-only tables.
func (e *Engine) SeedInterp(in *absint.Interp) *absint.State {
	in.ReadableGlobals = e.InitOnly
	e.seedRoots(in)
	return e.GlobalInit.Clone()
}

// RefSummary is the reference side.
type RefSummary struct {
	Summary
	Info isa.Info
	M    *isa.M
}

// RunRef evaluates the reference model for the pinned bytes.  If invalid is
// set the reference is "unsupported encoding: consumed and logged".
func (e *Engine) RunRef(c *dom.Ctx, spec Spec, opt Options, invalid bool) *RefSummary {
	tr := dom.NewTrace(c)
	pc := c.Atom("Init("+isa.LocPC+")", 16)
	tr.Fixed = e.fixedHook(c, spec, pc)
	m := isa.NewM(c, tr, e.IntW)
	if opt.SwapIXIY {
		m.Init = map[string]dom.BV{
			isa.LocIX: c.Atom("Init("+isa.LocIY+")", 16),
			isa.LocIY: c.Atom("Init("+isa.LocIX+")", 16),
		}
	}
	r := &RefSummary{M: m}
	if invalid {
		m.Invalid(spec.Pattern)
		r.Info = isa.Info{Class: "invalid", Name: "unsupported " + spec.String(), Bytes: len(spec.Pattern), M1: strings.Count(spec.Pattern, "M")}
	} else {
		r.Info = m.Exec()
	}
	r.C, r.Trace = c, tr
	r.Loc = map[string]dom.BV{}
	for _, l := range e.Leaves {
		if l.Width > 0 {
			if _, known := m.Locations()[l.Path]; known {
				r.Loc[l.Path] = m.Get(l.Path)
			} else {
				r.Loc[l.Path] = c.Atom("Init("+l.Path+")", l.Width)
			}
		}
	}
	return r
}

// Diff is one disagreement between implementation and reference.
type Diff struct {
	Cat     string // state | event | frame | effect
	What    string // location or event kind
	Msg     string
	Witness []string
}

func (d Diff) String() string {
	s := d.Cat + " " + d.What + ": " + d.Msg
	if len(d.Witness) > 0 {
		s += " ; witness {" + strings.Join(d.Witness, " ") + "}"
	}
	return s
}

// InitOther is the initial value of a non-integer CPU leaf (what "unchanged" means).
func (e *Engine) initOther(c *dom.Ctx, l Leaf) absint.Value {
	in := absint.New(e.P, c, nil)
	in.AddSymbolicRoot("cpu", "")
	e.Preconditions(in)
	return in.Load(absint.NewState(), &absint.Ptr{Root: "cpu", Path: l.Path, Nil: bdd.False}, l.Type, 0)
}

// Compare lists the differences between an implementation summary and a
// reference summary.  dontCareF masks flag bits out of the value comparison;
// rAlt, when non-nil, is an alternative acceptable value of R.
func (e *Engine) Compare(impl *ImplSummary, ref *RefSummary) []Diff {
	return e.CompareUnder(impl, ref, bdd.True)
}

// CompareUnder compares only on the states satisfying care.
func (e *Engine) CompareUnder(impl *ImplSummary, ref *RefSummary, care bdd.Node) []Diff {
	c := impl.C
	var diffs []Diff
	for _, l := range e.Leaves {
		if l.Width == 0 {
			want := e.initOther(c, l)
			if w, ok := ref.Other[l.Path]; ok {
				want = w
			}
			got := impl.Other[l.Path]
			if _, isPtr := l.Type.Underlying().(*types.Pointer); isPtr {
				gn, gt, ok1 := absint.FlattenPtr(c, got)
				wn, wt, ok2 := absint.FlattenPtr(c, want)
				if ok1 && ok2 {
					same := c.M.And(care, c.M.Xor(gn, wn)) == bdd.False
					for k := range gt {
						if _, ok := wt[k]; !ok {
							wt[k] = bdd.False
						}
					}
					for k, wv := range wt {
						if c.M.And(care, c.M.Xor(gt[k], wv)) != bdd.False {
							same = false
						}
					}
					if same {
						continue
					}
					w, _ := c.Witness(c.M.And(care, c.M.Xor(gn, wn)))
					diffs = append(diffs, Diff{Cat: "frame", What: l.Path, Msg: fmt.Sprintf("pointer field %s: nil-ness or target differs from the reference (expected nil=%v, implementation nil=%v)", l.Path, c.M.Eval(wn, w), c.M.Eval(gn, w)), Witness: c.DescribeAssignment(w)})
					continue
				}
			}
			if !absint.SameValue(got, want) {
				diffs = append(diffs, Diff{Cat: "frame", What: l.Path, Msg: fmt.Sprintf("field %s: expected %s, implementation leaves %s", l.Path, absint.DescribeValue(c, want), absint.DescribeValue(c, got))})
			}
			continue
		}
		got, want := impl.Loc[l.Path], ref.Loc[l.Path]
		if got.Equal(want) {
			continue
		}
		ne := bdd.False
		for i := range got {
			if l.Path == isa.LocF && ref.Info.DontCareF>>uint(i)&1 == 1 {
				continue
			}
			ne = c.M.Or(ne, c.M.Xor(got[i], want[i]))
		}
		ne = c.M.And(ne, care)
		if ne == bdd.False {
			continue
		}
		if l.Path == isa.LocR && ref.Info.DontCareR {
			continue
		}
		if l.Path == isa.LocR && ref.Info.RAlt {
			// accept one opcode fetch less
			alt := ref.M.InitOf(isa.LocR)
			for i := 0; i < ref.Info.M1-1; i++ {
				alt = append(c.AddK(alt.Slice(0, 7), 1), alt[7])
			}
			if got.Equal(alt) {
				continue
			}
		}
		w, _ := c.Witness(ne)
		full := c.DescribeAssignment(w)
		diffs = append(diffs, Diff{Cat: "state", What: l.Path,
			Msg:     fmt.Sprintf("after the instruction %s is %#x in the implementation, %#x in the reference (implementation: %s; reference: %s)", l.Path, c.EvalBV(got, w), c.EvalBV(want, w), c.Describe(got), c.Describe(want)),
			Witness: full})
	}
	if care != bdd.True {
		impl.Trace.SetCare(care)
		ref.Trace.SetCare(care)
	}
	im := impl.Trace.MultisetChar(nil)
	rm := ref.Trace.MultisetChar(nil)
	for _, d := range c.DiffMultiset(im, rm) {
		kind := strings.SplitN(d, " ", 2)[0]
		diffs = append(diffs, Diff{Cat: "event", What: kind, Msg: d})
	}
	// the order of the accesses where it matters for plain RAM: which reads come
	// before which writes (a read after a write to the same cell returns the new
	// byte), and the order of the writes among themselves (the last one wins).
	// Events are canonical (guard and arguments are BDD nodes), so when the two
	// multisets agree the events can be matched one to one and the relative
	// order of every such pair compared.
	if onlyStateDiffs(diffs) {
		for _, d := range orderDiffs(c, impl.Trace, ref.Trace, care) {
			diffs = append(diffs, Diff{Cat: "order", What: "bus-order", Msg: d})
		}
	}
	for _, x := range impl.Extra {
		diffs = append(diffs, Diff{Cat: "effect", What: x, Msg: "store to a location outside the CPU's documented fields"})
	}
	return diffs
}

func onlyStateDiffs(ds []Diff) bool {
	for _, d := range ds {
		if d.Cat == "event" {
			return false
		}
	}
	return true
}

// orderDiffs reports pairs of bus accesses (read/write, write/read or
// write/write, with compatible guards) whose relative order differs between
// the two traces.  Events are matched by kind, device, guard and argument
// nodes (k-th occurrence to k-th occurrence); if the traces cannot be matched
// that way nothing is reported here (the multiset comparison speaks then).
func orderDiffs(c *dom.Ctx, impl, ref *dom.Trace, care bdd.Node) []string {
	isBus := func(k string) bool { return strings.HasPrefix(k, "Memory.") || strings.HasPrefix(k, "IO.") }
	isWrite := func(k string) bool { return k == isa.KindMemSet || k == isa.KindIOOut }
	type ev struct {
		key string
		e   *dom.Event
	}
	list := func(t *dom.Trace) []ev {
		var out []ev
		occ := map[string]int{}
		for i := range t.Events {
			e := &t.Events[i]
			if !isBus(e.Kind) {
				continue
			}
			// canonical within the care set: the guard restricted to it, the
			// arguments where the guard holds
			g := c.M.And(e.Guard, care)
			if g == bdd.False {
				continue
			}
			k := fmt.Sprintf("%s|%s|%d", e.Kind, e.Dev, g)
			for _, a := range e.Args {
				n := make([]bdd.Node, len(a))
				for bi := range a {
					n[bi] = c.M.And(a[bi], g)
				}
				k += fmt.Sprint("|", n)
			}
			occ[k]++
			out = append(out, ev{fmt.Sprintf("%s#%d", k, occ[k]), e})
		}
		return out
	}
	li, lr := list(impl), list(ref)
	posR := map[string]int{}
	for i, x := range lr {
		posR[x.key] = i
	}
	matched := len(li) == len(lr)
	for _, x := range li {
		if _, ok := posR[x.key]; !ok {
			matched = false // not the same events node for node
		}
	}
	if !matched {
		// the multisets agree (the caller checked) but the events are split
		// differently (one access under a merged guard against two under the parts):
		// the order is then compared on the writes only, by address and value
		return orderByCells(c, impl, ref, care)
	}
	var out []string
	for i := 0; i < len(li); i++ {
		for j := i + 1; j < len(li); j++ {
			a, b := li[i], li[j]
			if !isWrite(a.e.Kind) && !isWrite(b.e.Kind) {
				continue
			}
			g := c.M.And(c.M.And(a.e.Guard, b.e.Guard), care)
			if g == bdd.False {
				continue
			}
			// only accesses that can touch the same cell are ordered by their effect:
			// two memory accesses whose addresses can coincide, or two port accesses
			am, bm := strings.HasPrefix(a.e.Kind, "Memory."), strings.HasPrefix(b.e.Kind, "Memory.")
			switch {
			case am != bm:
				continue
			case am && (len(a.e.Args) == 0 || len(b.e.Args) == 0 || len(a.e.Args[0]) != len(b.e.Args[0]) || c.M.And(g, c.Eq(a.e.Args[0], b.e.Args[0])) == bdd.False):
				continue
			}
			if posR[a.key] > posR[b.key] {
				out = append(out, fmt.Sprintf("the implementation makes %s before %s, the reference the other way round (a read after a write to the same cell sees the new byte; of two writes to one cell the later wins)", c.DescribeEvent(a.e), c.DescribeEvent(b.e)))
			}
		}
	}
	return out
}

// orderByCells is the fallback of orderDiffs when the events of the two traces
// do not correspond one to one: it cannot compare the order pair by pair, and
// says so when a write and another access can touch one cell at all.
func orderByCells(c *dom.Ctx, impl, ref *dom.Trace, care bdd.Node) []string {
	for _, t := range []*dom.Trace{impl, ref} {
		for i := range t.Events {
			a := &t.Events[i]
			if a.Kind != isa.KindMemSet {
				continue
			}
			for j := range t.Events {
				b := &t.Events[j]
				if i == j || !strings.HasPrefix(b.Kind, "Memory.") || len(b.Args) == 0 || len(a.Args[0]) != len(b.Args[0]) {
					continue
				}
				g := c.M.And(c.M.And(a.Guard, b.Guard), care)
				if g != bdd.False && c.M.And(g, c.Eq(a.Args[0], b.Args[0])) != bdd.False {
					return []string{"UNDECIDED: the bus accesses of implementation and reference are the same as multisets but are split into events differently, and a write can touch the cell of another access: their relative order could not be compared"}
				}
			}
		}
	}
	return nil
}

// ArmResult is the verdict for one opcode-byte prefix.
type ArmResult struct {
	Spec        Spec
	Enc         string
	Info        isa.Info // catalogue entry of the reference
	Pos         string
	Implemented bool // a non-default arm exists (no unsupported-opcode log)
	Undecided   error
	Diffs       []Diff // vs the reference (or vs "unsupported" for an unimplemented undocumented encoding)
	Note        string
	ImplEvents  []string
	RefEvents   []string
	Funcs       []string
	Externals   []string
	Instrs      int
	LogCount    int
	// Reads: atoms in the support of any output (post-state, guards, call
	// arguments); Writes: integer leaves whose post-value differs from Init.
	Reads  []string
	Writes []string
	Sites  map[ssa.Instruction]*absint.SiteLog
}

// readsWrites extracts the read and write sets of an implementation summary.
func (e *Engine) readsWrites(s *ImplSummary) (reads, writes []string) {
	c := s.C
	var nodes []bdd.Node
	for _, l := range e.Leaves {
		if l.Width == 0 {
			continue
		}
		v := s.Loc[l.Path]
		if !v.Equal(c.Atom("Init("+l.Path+")", l.Width)) {
			writes = append(writes, l.Path)
			nodes = append(nodes, v...)
		}
	}
	for i := range s.Trace.Events {
		ev := &s.Trace.Events[i]
		nodes = append(nodes, ev.Guard)
		for _, a := range ev.Args {
			nodes = append(nodes, a...)
		}
	}
	return c.AtomsIn(nodes...), writes
}

func describeEvents(c *dom.Ctx, t *dom.Trace) []string {
	var out []string
	for i := range t.Events {
		out = append(out, c.DescribeEvent(&t.Events[i]))
	}
	return out
}

// CompareArm decides one prefix in a fresh context.
func (e *Engine) CompareArm(spec Spec) *ArmResult {
	c := dom.NewCtx()
	res := &ArmResult{Spec: spec, Enc: spec.String()}
	impl := e.RunImpl(c, spec, Options{})
	res.Pos, res.Funcs, res.Externals, res.Instrs = impl.Pos, impl.Funcs, impl.Externals, impl.Instrs
	res.Sites = impl.Sites
	ref := e.RunRef(c, spec, Options{}, false)
	res.Info = ref.Info
	if impl.Err != nil {
		res.Undecided = impl.Err
		return res
	}
	res.ImplEvents = describeEvents(c, impl.Trace)
	res.RefEvents = describeEvents(c, ref.Trace)
	res.Reads, res.Writes = e.readsWrites(impl)
	for _, ev := range impl.Trace.Events {
		if ev.Kind == isa.KindLog {
			res.LogCount++
		}
	}
	res.Implemented = res.LogCount == 0
	if ref.Info.Status == isa.Chain {
		inv := e.RunRef(c, spec, Options{}, true)
		res.Diffs = e.Compare(impl, inv)
		if len(res.Diffs) > 0 && res.Implemented {
			res.Undecided = fmt.Errorf("UNDECIDED: encoding %s (prefix chain) has an arm but no reference semantics in the catalogue", res.Enc)
			res.Diffs = nil
		}
		res.Note = "prefix chain: treated as unsupported"
		return res
	}
	d := e.Compare(impl, ref)
	if len(d) == 0 {
		return res
	}
	if ref.Info.Status != isa.Doc && !res.Implemented {
		inv := e.RunRef(c, spec, Options{}, true)
		res.RefEvents = describeEvents(c, inv.Trace)
		res.Diffs = e.Compare(impl, inv)
		res.Note = "undocumented encoding without an arm: compared with 'consumed and logged'"
		return res
	}
	if ref.Info.Status == isa.Doc && !res.Implemented {
		d = append([]Diff{{Cat: "catalogue", What: res.Enc, Msg: "documented instruction " + ref.Info.Name + " has no arm (decoded as unsupported)"}}, d...)
	}
	res.Diffs = d
	return res
}

// CompareAll runs every prefix, in parallel (one BDD context per arm).
func (e *Engine) CompareAll() []*ArmResult {
	specs := e.AllSpecs()
	out := make([]*ArmResult, len(specs))
	var wg sync.WaitGroup
	sem := make(chan struct{}, runtime.NumCPU())
	for i := range specs {
		wg.Add(1)
		sem <- struct{}{}
		go func(i int) {
			defer wg.Done()
			defer func() { <-sem }()
			defer func() {
				if r := recover(); r != nil {
					out[i] = &ArmResult{Spec: specs[i], Enc: specs[i].String(), Undecided: fmt.Errorf("analyzer panic on %s: %v", specs[i], r)}
				}
			}()
			out[i] = e.CompareArm(specs[i])
		}(i)
	}
	wg.Wait()
	return out
}

// readOnlyUse: every use of v (a global's address, or a value loaded from it)
// only reads.
func readOnlyUse(v ssa.Value, depth int) bool {
	refs := v.Referrers()
	if refs == nil || depth > 4 {
		return depth <= 4
	}
	for _, r := range *refs {
		switch x := r.(type) {
		case *ssa.UnOp:
			if x.Op.String() != "*" {
				continue
			}
			// the loaded value may be a slice/map/pointer that is written through
			switch x.Type().Underlying().(type) {
			case *types.Slice, *types.Map, *types.Pointer:
				if !readOnlyUse(x, depth+1) {
					return false
				}
			}
		case *ssa.IndexAddr:
			if !readOnlyUse(x, depth+1) {
				return false
			}
		case *ssa.FieldAddr:
			if !readOnlyUse(x, depth+1) {
				return false
			}
		case *ssa.Lookup, *ssa.Index, *ssa.Field, *ssa.DebugRef, *ssa.BinOp, *ssa.Range, *ssa.Extract, *ssa.If:
		case *ssa.Call:
			if b, ok := x.Call.Value.(*ssa.Builtin); ok && (b.Name() == "len" || b.Name() == "cap") {
				continue
			}
			// handed to a function of the module whose parameter is itself only read
			if cal := x.Call.StaticCallee(); cal != nil && load.InModule(cal) && cal.Blocks != nil && !x.Call.IsInvoke() && ssa.Value(cal) != v {
				ok := true
				for i, a := range x.Call.Args {
					if a == v && (i >= len(cal.Params) || !readOnlyUse(cal.Params[i], depth+1)) {
						ok = false
					}
				}
				if ok {
					continue
				}
			}
			return false
		case *ssa.Phi:
			if !readOnlyUse(x, depth+1) {
				return false
			}
		default:
			return false
		}
	}
	return true
}

// initGlobals interprets the package initialisation of package z80 and
// records which package-level variables are written by nothing else.
func (e *Engine) initGlobals() {
	e.InitOnly = map[string]bool{}
	e.GlobalInit = absint.NewState()
	sp := e.P.SSAPkg(load.ModulePath)
	if sp == nil {
		return
	}
	// ssa.Global does not track referrers: scan every function of the module
	written := map[*ssa.Global]bool{}
	var visit func(fn *ssa.Function)
	seenFn := map[*ssa.Function]bool{}
	var initFns map[*ssa.Function]bool
	collect := true
	visit = func(fn *ssa.Function) {
		if fn == nil || seenFn[fn] || fn.Blocks == nil {
			return
		}
		seenFn[fn] = true
		for _, af := range fn.AnonFuncs {
			visit(af)
		}
		if collect {
			return
		}
		// package initialisation = init, init#N and helpers only they call
		isInit := initFns[fn] && fn.Pkg == sp
		for _, b := range fn.Blocks {
			for _, in := range b.Instrs {
				for _, op := range in.Operands(nil) {
					g, ok := (*op).(*ssa.Global)
					if !ok || g.Pkg != sp || isInit {
						continue
					}
					switch x := in.(type) {
					case *ssa.UnOp:
						switch x.Type().Underlying().(type) {
						case *types.Slice, *types.Map, *types.Pointer:
							if !readOnlyUse(x, 0) {
								written[g] = true
							}
						}
					case *ssa.IndexAddr:
						if !readOnlyUse(x, 0) {
							written[g] = true
						}
					case *ssa.FieldAddr:
						if !readOnlyUse(x, 0) {
							written[g] = true
						}
					case *ssa.DebugRef:
					default:
						written[g] = true
					}
				}
			}
		}
	}
	walk := func() {
		for _, pk := range e.P.Prog.AllPackages() {
			if pk.Pkg.Path() != load.ModulePath && !strings.HasPrefix(pk.Pkg.Path(), load.ModulePath+"/") {
				continue
			}
			for _, m := range pk.Members {
				switch x := m.(type) {
				case *ssa.Function:
					visit(x)
				case *ssa.Type:
					for _, tt := range []types.Type{x.Type(), types.NewPointer(x.Type())} {
						ms := e.P.Prog.MethodSets.MethodSet(tt)
						for i := 0; i < ms.Len(); i++ {
							visit(e.P.Prog.MethodValue(ms.At(i)))
						}
					}
				}
			}
		}
	}
	walk()
	initFns = rules.InitClosure(seenFn)
	collect = false
	seenFn = map[*ssa.Function]bool{}
	walk()
	for _, m := range sp.Members {
		if g, ok := m.(*ssa.Global); ok && !strings.HasPrefix(g.Name(), "init$") && !written[g] {
			e.InitOnly["global:"+g.RelString(nil)] = true
		}
	}
	initf := sp.Func("init")
	if initf == nil {
		return
	}
	c := dom.NewCtx()
	in := absint.New(e.P, c, dom.NewTrace(c))
	in.NoGlobalEvents = true
	in.LenientExternals = true
	in.Unroll = true
	in.ReadableGlobals = e.InitOnly
	if g := sp.Var("init$guard"); g != nil {
		in.InitOverride["global:"+g.RelString(nil)+"|"] = c.Const(1, 0)
	}
	_, out, err := in.Run(initf, nil, absint.NewState())
	if err != nil && os.Getenv("VERIF_DEBUG") != "" {
		fmt.Println("package initialisation not interpreted:", err)
	}
	if err != nil {
		// initialisation outside the modelled fragment: the contents of the tables
		// are unknown - they must not be read as zero values (reads are reported)
		e.InitOnly = map[string]bool{}
		e.InitError = err
		return
	}
	// keep constants only (node ids 0/1 are valid in every context)
	for _, k := range out.Keys() {
		root, path := absint.SplitKey(k)
		if !strings.HasPrefix(root, "global:") && !strings.HasPrefix(root, "alloc#") {
			continue
		}
		if strings.HasPrefix(root, "global:") && !e.InitOnly[root] {
			continue // has a writer outside initialisation: contents unknown at run time
		}
		v, _ := out.Get(root, path)
		ren := func(r string) string {
			if strings.HasPrefix(r, "alloc#") {
				return "init." + r
			}
			return r
		}
		// constants, and references among what initialisation built (renamed);
		// a closure is kept with its bindings when those are of that kind too
		var port func(v absint.Value, depth int) (absint.Value, bool)
		port = func(v absint.Value, depth int) (absint.Value, bool) {
			if depth > 6 {
				return nil, false
			}
			switch x := v.(type) {
			case dom.BV:
				_, isc := x.IsConst()
				return x, isc
			case *absint.Slice:
				if x.Rope != nil || x.Sym != "" {
					return nil, false
				}
				if _, isc := x.Len.IsConst(); !isc {
					return nil, false
				}
				y := *x
				y.Root = ren(y.Root)
				return &y, true
			case *absint.Ptr:
				if x.Idx != nil {
					return nil, false
				}
				y := *x
				y.Root = ren(y.Root)
				return &y, true
			case *absint.FuncV:
				y := &absint.FuncV{Fn: x.Fn}
				for _, b := range x.Bindings {
					pb, ok := port(b, depth+1)
					if !ok {
						return nil, false
					}
					y.Bindings = append(y.Bindings, pb)
				}
				return y, true
			case *absint.Struct:
				y := &absint.Struct{}
				for _, f := range x.Fields {
					pf, ok := port(f, depth+1)
					if !ok {
						return nil, false
					}
					y.Fields = append(y.Fields, pf)
				}
				return y, true
			case *absint.Iface:
				if x.Nil == bdd.True {
					return x, true
				}
				if x.Sym != "" || x.Conc == nil || x.Nil != bdd.False {
					return nil, false
				}
				pc, ok := port(x.Conc, depth+1)
				if !ok {
					return nil, false
				}
				return &absint.Iface{Nil: bdd.False, Conc: pc, ConcType: x.ConcType}, true
			}
			return nil, false
		}
		if pv, ok := port(v, 0); ok {
			e.GlobalInit.Set(ren(root), path, pv)
		}
	}
}
