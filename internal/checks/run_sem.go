package checks

import (
	"fmt"
	"os"
	"strings"

	"golang.org/x/tools/go/ssa"

	"verif/internal/absint"
	"verif/internal/bdd"
	"verif/internal/dom"
	"verif/internal/load"
)

// runSem is the value-based summary of one iteration of (*CPU).Run: the loop
// body is interpreted once (helpers in line, Step opaque and havocking the CPU,
// loads of cells shared with the watcher goroutine and atomic loads as fresh
// atoms), and the conditions under which it Steps, returns each kind of
// result, or goes round again are boolean functions that are compared with the
// property's stopping rule.
type runSem struct {
	err        error
	violations []string
	// watcher goroutine (C13)
	sites      map[ssa.Instruction]*absint.SiteLog // panic-site verdicts of everything the summary interpreted (C12)
	funcs      []string                            // functions the summary interpreted
	hasWatcher bool
	goStarted  bool     // a goroutine is started with a go statement (it must be ended on every return)
	watch      []string // violations of the hand-off protocol
	leak       []string // violations of 'no goroutine left behind'
	race       []string // unsynchronised accesses
	notes      []string
	steps      int
	returns    map[string]int
}

const (
	retNil  = "nil"
	retBP   = "ErrBreakPoint"
	retCtx  = "context-error"
	retElse = "other"
)

func analyseRunSem(cx *Ctx) *runSem {
	// pass 1 finds the CPU locations the loop body changes; pass 2 generalises
	// them at the loop header, so that the one interpreted iteration stands
	// for every iteration (needed when the loop condition itself reads the
	// CPU, as in `for !cpu.HALT { ... }`)
	rs, changed := runSemPass(cx, nil)
	if rs.err != nil || len(changed) == 0 {
		return rs
	}
	rs2, _ := runSemPass(cx, changed)
	return rs2
}

func runSemPass(cx *Ctx, carried []absint.CarriedLoc) (*runSem, []absint.CarriedLoc) {
	rs, changed := runSemPass1(cx, carried)
	return rs, changed
}

func runSemPass1(cx *Ctx, carried []absint.CarriedLoc) (rs *runSem, changed []absint.CarriedLoc) {
	rs = &runSem{returns: map[string]int{}}
	defer func() {
		if x := recover(); x != nil {
			rs = &runSem{err: fmt.Errorf("analyzer panic in the Run summary: %v", x), returns: map[string]int{}}
			changed = nil
		}
	}()
	run := cx.P.Method(load.ModulePath, "CPU", "Run")
	if run == nil || run.Blocks == nil {
		rs.err = fmt.Errorf("UNRESOLVED anchor: (*CPU).Run")
		return rs, nil
	}
	c := dom.NewCtx()
	tr := dom.NewTrace(c)
	in := absint.New(cx.P, c, tr)
	in.AddSymbolicRoot("cpu", "")
	st := cx.E.SeedInterp(in)
	cx.E.Preconditions(in)
	in.LoopBodies = true
	in.NoGlobalEvents = true
	in.Sites = map[ssa.Instruction]*absint.SiteLog{}
	if carried != nil {
		in.LoopCarried = map[int][]absint.CarriedLoc{1: carried}
	}
	// identity of the breakpoint error
	if g := cx.P.SSAPkg(load.ModulePath).Var("ErrBreakPoint"); g != nil {
		in.InitOverride["global:"+g.RelString(nil)+"|"] = &absint.Iface{Sym: "ErrBreakPoint", Nil: bdd.False}
	} else {
		rs.err = fmt.Errorf("UNRESOLVED anchor: ErrBreakPoint")
		return rs, nil
	}
	shared := map[string]string{}    // alloc root -> name, cells captured by a goroutine
	published := map[string]bool{}   // cells the goroutine stores atomically
	plainStored := map[string]bool{} // cells the goroutine stores plainly
	atomLoaded := map[string]bool{}  // cells Run loads atomically
	type plainLoad struct {
		root string
		pred bdd.Node
		pos  string
	}
	var plainLoads []plainLoad
	nShared := 0
	fresh := func(kind string) string { nShared++; return fmt.Sprintf("%s@%d", kind, nShared) }
	ctxErrVal := func() absint.Value {
		n := fresh("ctx.Err")
		return &absint.Iface{Sym: n, Nil: c.Atom("IsNil("+n+")", 1)[0]}
	}
	var isCtxErr func(v absint.Value) bool
	isCtxErr = func(v absint.Value) bool {
		switch x := v.(type) {
		case *absint.MuxV:
			return isCtxErr(x.A) && isCtxErr(x.B)
		case *absint.Iface:
			return strings.HasPrefix(x.Sym, "ctx.Err")
		}
		return false
	}
	paths, widths := cx.E.IntLeaves()
	stepN := 0
	in.OnCall = func(in *absint.Interp, fn *ssa.Function, args []absint.Value, guard bdd.Node, st *absint.State, pos string) (absint.Value, *absint.State, bool) {
		if fn != cx.E.Step {
			return nil, nil, false
		}
		if p, ok := args[0].(*absint.Ptr); !ok || p.Root != "cpu" || p.Path != "" {
			rs.violations = append(rs.violations, pos+": Step is called on something other than the receiver")
		}
		// the Step must start from the state the previous Step (or the caller) left
		for i, p := range paths {
			v := in.Load(st, &absint.Ptr{Root: "cpu", Path: p, Nil: bdd.False}, cx.E.LeafByPath(p).Type, 0).(dom.BV)
			if !v.Equal(c.Atom("Init("+p+")", widths[i])) && !(p == "HALT" && v.Equal(c.Const(1, 0))) &&
				!(carried != nil && v.Equal(c.Atom("loop1.mem(cpu|"+p+")", widths[i]))) {
				rs.violations = append(rs.violations, pos+": CPU."+p+" is modified by Run itself before Step")
			}
		}
		stepN++
		tr.Emit(guard, "Step", fmt.Sprint(stepN), nil, 0, pos)
		for i, p := range paths {
			in.Store(st, &absint.Ptr{Root: "cpu", Path: p, Nil: bdd.False}, cx.E.LeafByPath(p).Type, c.Atom(fmt.Sprintf("PostStep%d(%s)", stepN, p), widths[i]), bdd.True, 0)
		}
		return nil, st, true
	}
	// analyseWatcher interprets the function a goroutine runs.  registeredOn is
	// "" for a go statement, or the context the function was registered on with
	// context.AfterFunc (it then starts only once that context is done: no
	// goroutine exists while waiting, so nothing is left behind).
	var analyseWatcher func(in *absint.Interp, fv *absint.FuncV, args []absint.Value, guard bdd.Node, st *absint.State, pos, registeredOn string)
	in.OnGo = func(in *absint.Interp, fv *absint.FuncV, args []absint.Value, guard bdd.Node, st *absint.State, pos string) {
		tr.Emit(guard, "go", "", nil, 0, pos)
		rs.goStarted = true
		if fv == nil {
			return
		}
		analyseWatcher(in, fv, args, guard, st, pos, "")
	}
	analyseWatcher = func(in *absint.Interp, fv *absint.FuncV, args []absint.Value, guard bdd.Node, st *absint.State, pos, registeredOn string) {
		rs.hasWatcher = true
		for _, b := range append(append([]absint.Value{}, fv.Bindings...), args...) {
			if p, ok := b.(*absint.Ptr); ok && strings.HasPrefix(p.Root, "alloc#") {
				shared[p.Root] = "cell"
				in.WatchStores[p.Root] = true
			}
			if p, ok := b.(*absint.Ptr); ok && (p.Root == "cpu" || strings.HasPrefix(p.Root, "*")) {
				rs.watch = append(rs.watch, pos+": the goroutine captures the CPU (or something reached from it)")
			}
		}
		// the goroutine's own behaviour: interpreted on a scratch trace
		saved := in.T
		wst := st.Clone()
		wt := dom.NewTrace(c)
		in.T = wt
		func() {
			defer func() {
				if x := recover(); x != nil {
					rs.watch = append(rs.watch, fmt.Sprintf("%s: the goroutine does something outside the hand-off protocol: %v", pos, x))
				}
			}()
			in.ProbeBound(fv, args, guard, wst)
		}()
		in.T = saved

		var sawRecv, sawPub bool
		if registeredOn != "" {
			sawRecv = true
		}
		for i := range wt.Events {
			e := &wt.Events[i]
			switch e.Kind {
			case "chan.recv":
				if sawRecv {
					rs.watch = append(rs.watch, e.Pos+": a second blocking receive in the goroutine")
				}
				sawRecv = true
				if e.Dev != "ctx.derived" {
					rs.leak = append(rs.leak, e.Pos+": the goroutine waits on Done() of "+e.Dev+", not of the context Run derives and cancels on return: it outlives Run when the caller never cancels")
				}
				if sawPub {
					rs.watch = append(rs.watch, e.Pos+": the goroutine publishes before it has seen the cancellation")
				}
			case "shared.store":
				if !sawRecv {
					rs.watch = append(rs.watch, e.Pos+": the goroutine writes a shared cell before the context is done")
				}
				if sawPub {
					rs.race = append(rs.race, e.Pos+": a shared cell is written after the flag was published: Run can read it before it is written (data race)")
				}
				plainStored[e.Dev] = true
			case "atomic.store":
				sawPub = true
				published[e.Dev] = true
			case "atomic.store-pointer":
				sawPub = true
				published[e.Dev] = true
			case "atomic.store-pointer-bad":
				sawPub = true
				published[e.Dev] = true
				rs.watch = append(rs.watch, e.Pos+": what the published pointer points at is not (yet) the Err() of the caller's or the derived context")
			case "atomic.store-zero":
				rs.watch = append(rs.watch, e.Pos+": the goroutine stores 0 into the flag (never observed as cancelled)")
			}
		}
		for cell := range plainStored {
			if v, ok := wst.Get(cell, ""); !ok || !isCtxErr(v) {
				rs.watch = append(rs.watch, "the value the goroutine leaves in "+cell+" is not the Err() of the caller's or the derived context")
			}
		}
		// from here on Run sees the cells the goroutine writes as changing under it
		for cell := range plainStored {
			in.SharedRoots[cell] = true
		}
		for cell := range published {
			in.SharedRoots[cell] = true
		}
		if !sawRecv {
			rs.watch = append(rs.watch, pos+": the goroutine does not wait for the context")
		}
		if !sawPub {
			rs.watch = append(rs.watch, pos+": the goroutine never publishes the cancellation with an atomic store")
		}
	}
	in.OnPoll = func(dev string) bdd.Node { return c.Atom(fresh("ctx.Done-ready"), 1)[0] }
	in.SharedRoots = map[string]bool{}
	in.WatchStores = map[string]bool{}
	in.SharedLoad = func(root, path string, w int) absint.Value {
		// name the load after the shared cell it falls into
		cell := root
		if path != "" {
			cell = root + "|" + path
		}
		for _, set := range []map[string]bool{published, plainStored, atomLoaded} {
			for c := range set {
				if i := strings.IndexByte(c, '|'); i >= 0 && c[:i] == root {
					if cp := c[i+1:]; path == cp || strings.HasPrefix(path, cp+".") || strings.HasPrefix(path, cp+"[") {
						cell = c
					}
				} else if c == root {
					cell = c
				}
			}
		}
		plainLoads = append(plainLoads, plainLoad{cell, in.CurPred(), ""})
		n := fresh("shared(" + root + ")")
		if w > 0 {
			return c.Atom(n, w)
		}
		return &absint.Iface{Sym: n, Nil: c.Atom("IsNil("+n+")", 1)[0]}
	}
	noop := func(in *absint.Interp, args []absint.Value, guard bdd.Node, st *absint.State, pos string) (absint.Value, bool) {
		return nil, true
	}
	cellOf := func(v absint.Value) string {
		if p, ok := v.(*absint.Ptr); ok {
			if p.Path == "" {
				return p.Root
			}
			return p.Root + "|" + p.Path // a field of a larger object: only that field is the cell
		}
		return "?"
	}
	atomicLoad := func(w int) absint.ModelFunc {
		return func(in *absint.Interp, args []absint.Value, guard bdd.Node, st *absint.State, pos string) (absint.Value, bool) {
			atomLoaded[cellOf(args[0])] = true
			return c.Atom(fresh("atomic.Load"), w), true
		}
	}
	atomicStore := func(in *absint.Interp, args []absint.Value, guard bdd.Node, st *absint.State, pos string) (absint.Value, bool) {
		if len(args) > 1 {
			if bv, ok := args[1].(dom.BV); ok {
				if k, isc := bv.IsConst(); isc && k == 0 {
					tr2 := in.T
					tr2.Emit(guard, "atomic.store-zero", cellOf(args[0]), nil, 0, pos)
					return nil, true
				}
			}
		}
		if len(args) > 1 {
			if p, ok := args[1].(*absint.Ptr); ok {
				kind := "atomic.store-pointer"
				if v, ok := st.Get(p.Root, p.Path); !ok || !isCtxErr(v) {
					kind += "-bad"
				}
				in.WatchStores[p.Root] = true // the pointee is shared from here on
				in.T.Emit(guard, kind, cellOf(args[0]), nil, 0, pos)
				return nil, true
			}
		}
		in.T.Emit(guard, "atomic.store", cellOf(args[0]), nil, 0, pos)
		return nil, true
	}
	in.Models = map[string]absint.ModelFunc{
		"context.AfterFunc": func(in *absint.Interp, args []absint.Value, guard bdd.Node, st *absint.State, pos string) (absint.Value, bool) {
			iv, ok := args[0].(*absint.Iface)
			fv, ok2 := args[1].(*absint.FuncV)
			if !ok || !ok2 || iv.Sym == "" {
				return nil, false
			}
			tr.Emit(guard, "afterfunc", iv.Sym, nil, 0, pos)
			analyseWatcher(in, fv, nil, guard, st, pos, iv.Sym)
			return &absint.Opaque{Why: "afterfunc-stop"}, true
		},
		"context.WithCancel": func(in *absint.Interp, args []absint.Value, guard bdd.Node, st *absint.State, pos string) (absint.Value, bool) {
			return &absint.Tuple{Elems: []absint.Value{&absint.Iface{Sym: "ctx.derived", Nil: bdd.False}, &absint.Opaque{Why: "cancel"}}}, true
		},
		"sync/atomic.LoadInt32": atomicLoad(32), "sync/atomic.LoadUint32": atomicLoad(32), "sync/atomic.LoadInt64": atomicLoad(64),
		"(*sync/atomic.Bool).Load":  atomicLoad(1),
		"(*sync/atomic.Int32).Load": atomicLoad(32),
		"sync/atomic.StoreInt32":    atomicStore, "sync/atomic.StoreUint32": atomicStore, "sync/atomic.StoreInt64": atomicStore,
		"(*sync/atomic.Bool).Store": atomicStore, "(*sync/atomic.Int32).Store": atomicStore,
		"(*sync/atomic.Pointer).Store": atomicStore,
		"(*sync/atomic.Pointer).Load": func(in *absint.Interp, args []absint.Value, guard bdd.Node, st *absint.State, pos string) (absint.Value, bool) {
			atomLoaded[cellOf(args[0])] = true
			n := fresh("atomic.Pointer")
			in.AddSymbolicRoot("*"+n, n+".")
			in.InitOverride["*"+n+"|"] = ctxErrVal()
			return &absint.Ptr{Root: "*" + n, Nil: c.Atom("IsNil("+n+")", 1)[0]}, true
		},
	}
	in.OnInvoke = func(in *absint.Interp, kind, dev string, args []absint.Value, guard bdd.Node, st *absint.State, pos string) (absint.Value, bool) {
		switch {
		case strings.HasSuffix(kind, ".Err"):
			return ctxErrVal(), true
		case strings.HasSuffix(kind, ".Done"):
			return &absint.Opaque{Why: "done:" + dev}, true
		}
		return nil, false
	}
	var args []absint.Value
	for i, p := range run.Params {
		if i == 0 {
			args = append(args, &absint.Ptr{Root: "cpu", Nil: bdd.False})
		} else {
			v := in.SymbolicValue(p.Type(), "ctx")
			if iv, ok := v.(*absint.Iface); ok {
				iv.Nil = bdd.False // precondition of Run: a non-nil context
			}
			args = append(args, v)
		}
	}
	_ = noop
	_, _, err := in.Run(run, args, st)
	if err != nil {
		rs.err = err
		return rs, nil
	}
	rs.steps = stepN
	rs.sites = in.Sites
	for fn := range in.Funcs {
		rs.funcs = append(rs.funcs, fn.String())
	}
	if len(in.Loops) != 1 {
		rs.err = fmt.Errorf("UNDECIDED: Run has %d loops, the summary handles exactly one", len(in.Loops))
		return rs, nil
	}
	ls := in.Loops[0]
	M := c.M
	// classify returns
	var pCtx, pBP, pNil, pOther bdd.Node = bdd.False, bdd.False, bdd.False, bdd.False
	var classify func(v absint.Value, pred bdd.Node)
	classify = func(v absint.Value, pred bdd.Node) {
		if pred == bdd.False {
			return
		}
		switch x := v.(type) {
		case *absint.MuxV:
			classify(x.A, M.And(pred, x.P))
			classify(x.B, M.And(pred, M.Not(x.P)))
		case *absint.Iface:
			nilc := M.And(pred, x.Nil)
			non := M.And(pred, M.Not(x.Nil))
			switch {
			case x.Sym == "ErrBreakPoint":
				pBP = M.Or(pBP, non)
				pNil = M.Or(pNil, nilc)
			case strings.HasPrefix(x.Sym, "ctx.Err") || strings.HasPrefix(x.Sym, "shared("):
				// the context's error as published by the watcher, or read directly;
				// returning it while it is still nil would be 'return nil'
				pCtx = M.Or(pCtx, pred)
			case x.Sym == "" && x.Nil == bdd.True:
				pNil = M.Or(pNil, pred)
			default:
				pOther = M.Or(pOther, pred)
			}
		default:
			pOther = M.Or(pOther, pred)
		}
	}
	for _, r := range in.TopReturns {
		classify(r.Val, r.Pred)
	}
	// events
	gStep := bdd.False
	nStepEvents := 0
	var bpPresent bdd.Node = bdd.False
	var goN int
	stepSeen := false // events are in program order: a lookup before the Step of the iteration is a header test
	for i := range tr.Events {
		e := &tr.Events[i]
		switch e.Kind {
		case "Step":
			nStepEvents++
			stepSeen = true
			gStep = M.Or(gStep, e.Guard)
		case "map.get":
			if e.Dev == "BreakPoints" {
				want := c.Atom(fmt.Sprintf("PostStep%d(PC)", stepN), 16)
				viaHeader := false
				if carried != nil && !stepSeen && e.Args[0].Equal(c.Atom("loop1.mem(cpu|PC)", 16)) {
					// looked up at the loop header: PC as the previous Step left it
					if bv, ok := ls.CarriedBack["cpu|PC"].(dom.BV); ok && bv.Equal(want) {
						viaHeader = true
					}
				}
				if !e.Args[0].Equal(want) && !viaHeader {
					rs.violations = append(rs.violations, e.Pos+": the breakpoint set is looked up with a key other than PC as left by the Step of this iteration ("+c.Describe(e.Args[0])+")")
				}
				bpPresent = M.And(M.Not(c.Atom("IsNil(BreakPoints)", 1)[0]), e.Res[len(e.Res)-1])
			}
		case "go":
			goN++
		}
	}
	if nStepEvents != 1 {
		rs.violations = append(rs.violations, fmt.Sprintf("one iteration of Run's loop calls Step at %d places (exactly one expected)", nStepEvents))
		return rs, nil
	}
	halt := c.Atom(fmt.Sprintf("PostStep%d(HALT)", stepN), 1)[0]
	entry := ls.EntryPred
	say := func(cond bdd.Node, msg string) {
		if cond != bdd.False {
			w, _ := c.Witness(cond)
			rs.violations = append(rs.violations, msg+" - e.g. when {"+strings.Join(c.DescribeAssignment(w), " ")+"}")
		}
	}
	// the loop-carried CPU locations: value entering the loop / value after an iteration
	replInit, replBack := map[string]dom.BV{}, map[string]dom.BV{}
	for _, k := range ls.Carried {
		name := "loop1.mem(" + k + ")"
		if bv, ok := ls.CarriedInit[k].(dom.BV); ok {
			replInit[name] = bv
		}
		if bv, ok := ls.CarriedBack[k].(dom.BV); ok {
			replBack[name] = bv
		}
		_, path := absint.SplitKey(k)
		for i, p := range paths {
			if p != path {
				continue
			}
			if bv, ok := ls.CarriedBack[k].(dom.BV); !ok || !bv.Equal(c.Atom(fmt.Sprintf("PostStep%d(%s)", stepN, p), widths[i])) {
				rs.violations = append(rs.violations, "Run's loop changes CPU."+p+" after Step")
			}
		}
	}
	if os.Getenv("VERIF_DEBUG") != "" {
		for k, v := range replInit {
			fmt.Fprintln(os.Stderr, "carried init", k, c.Describe(v))
		}
		for k, v := range replBack {
			fmt.Fprintln(os.Stderr, "carried back", k, c.Describe(v))
		}
	}
	atFirst := func(f bdd.Node) bdd.Node { return c.Subst(f, replInit) } // at the first header
	atNext := func(f bdd.Node) bdd.Node { return c.Subst(f, replBack) }  // at the header after an iteration
	// returns before / after the Step of the iteration
	pre := func(f bdd.Node) bdd.Node { return M.And(M.And(entry, f), M.Not(gStep)) }
	post := func(f bdd.Node) bdd.Node { return M.And(M.And(entry, f), gStep) }
	cancel := pre(pCtx)                                     // the iteration does not Step because it saw the cancellation
	preExit := M.Or(pre(pNil), M.Or(pre(pBP), pre(pOther))) // any other return before the Step
	say(M.And(ls.BackPred, M.Not(gStep)), "an iteration can go round without calling Step")
	say(post(pCtx), "the context's error is returned after the Step of an iteration (only a test before the Step may return it)")
	say(atFirst(preExit), "Run can return before its first Step for a reason other than cancellation (a stale halted indication, a breakpoint on the start address): zero Steps")
	// every iteration consults a fresh observation of the cancellation state,
	// and the decision depends on nothing else (not on the CPU, not on a counter)
	if cancel == bdd.False {
		rs.violations = append(rs.violations, "no iteration of the loop can observe cancellation (the test is not inside the loop): a tight program loop never returns after the context is cancelled")
	}
	entryAtoms := map[string]bool{}
	for _, a := range c.AtomsIn(entry) {
		entryAtoms[a] = true
	}
	freshObs := false
	notCancel := M.And(M.And(entry, M.Not(cancel)), M.Not(preExit)) // = the iteration Steps
	for _, a := range c.AtomsIn(cancel) {
		obs := false
		for _, pre := range []string{"atomic.Load@", "shared(", "ctx.Err@", "atomic.Pointer@", "ctx.Done-ready@", "IsNil(ctx.Err@", "IsNil(shared(", "IsNil(atomic.Pointer@"} {
			if strings.HasPrefix(a, pre) {
				obs = true
			}
		}
		switch {
		case strings.HasPrefix(a, "loop1.mem("):
			// a header test may come before the cancellation test (for !cpu.HALT { poll }): judged just below
		case strings.HasPrefix(a, "PostStep") || strings.HasPrefix(a, "Init("):
			rs.violations = append(rs.violations, "whether an iteration Steps depends on CPU state ("+a+"): zero Steps or a skipped Step become possible")
		case !obs:
			rs.violations = append(rs.violations, "whether an iteration tests cancellation depends on "+a+": not every iteration observes a cancellation")
		case !entryAtoms[a]:
			freshObs = true
		}
	}
	if cancel != bdd.False && !freshObs {
		rs.violations = append(rs.violations, "the cancellation state is not re-read inside the loop")
	}
	// among the iterations that get past the tests of the loop header, whether the
	// cancellation is honoured depends on the observation only - not on the CPU
	// (a poll made only when some register has a certain value skips iterations)
	reachPoll := M.And(entry, M.Not(preExit))
	if cancel != bdd.False && reachPoll != bdd.False {
		for _, a := range c.AtomsIn(M.Constrain(cancel, reachPoll)) {
			if strings.HasPrefix(a, "loop1.mem(") || strings.HasPrefix(a, "PostStep") || strings.HasPrefix(a, "Init(") {
				rs.violations = append(rs.violations, "whether an iteration tests cancellation depends on CPU state ("+a+"): iterations can go by without observing a cancellation")
			}
		}
	}
	// whenever the iteration neither returns early nor is cancelled, it Steps
	say(M.Xor(gStep, notCancel), "an iteration that is not cancelled must Step")
	// 2. after the Step - including the tests the next loop header makes before
	// anything else: breakpoint first, then HALT, else the next iteration
	bpEff := M.Or(post(pBP), M.And(ls.BackPred, atNext(pre(pBP))))
	nilEff := M.Or(post(pNil), M.And(ls.BackPred, atNext(pre(pNil))))
	othEff := M.Or(post(pOther), M.And(ls.BackPred, atNext(pre(pOther))))
	contEff := M.And(ls.BackPred, M.Not(atNext(preExit)))
	say(M.Xor(bpEff, M.And(gStep, bpPresent)), "ErrBreakPoint must be returned exactly when the Step of this iteration left PC in BreakPoints")
	say(M.Xor(nilEff, M.And(gStep, M.And(M.Not(bpPresent), halt))), "nil must be returned exactly when the Step of this iteration executed HALT and PC is not a breakpoint")
	say(M.Xor(contEff, M.And(gStep, M.And(M.Not(bpPresent), M.Not(halt)))), "the loop must continue exactly when the Step hit no breakpoint and executed no HALT")
	say(othEff, "Run returns something other than nil, ErrBreakPoint or the context's error")
	// hand-off, run side
	if rs.hasWatcher {
		for cell := range published {
			if !atomLoaded[cell] {
				rs.race = append(rs.race, "Run does not atomically load the cell the goroutine publishes through ("+cell+")")
			}
		}
		for cell := range atomLoaded {
			if !published[cell] && shared[cell] != "" {
				rs.race = append(rs.race, "the goroutine does not atomically store the cell Run loads ("+cell+")")
			}
		}
		for cell := range plainStored {
			if atomLoaded[cell] {
				rs.race = append(rs.race, "the goroutine writes "+cell+" with a plain store while Run loads it atomically")
			}
		}
		for i := range tr.Events {
			if e := &tr.Events[i]; e.Kind == "shared.store" {
				rs.race = append(rs.race, e.Pos+": Run itself writes "+e.Dev+" after the goroutine has started (races with the goroutine)")
			}
		}
		for _, pl := range plainLoads {
			if atomLoaded[pl.root] || published[pl.root] {
				rs.race = append(rs.race, "Run reads the published cell "+pl.root+" with a plain load (data race with the goroutine's store)")
				continue
			}
			if M.And(pl.pred, M.Not(cancel)) != bdd.False && plainStored[pl.root] {
				rs.race = append(rs.race, "Run reads "+pl.root+", which the goroutine writes, on a path that has not observed the published flag (unsynchronised read)")
			}
		}
		// no leak: the derived context is cancelled on every return
		covered := bdd.False
		for i := range tr.Events {
			if e := &tr.Events[i]; e.Kind == "deferred:cancel" {
				covered = M.Or(covered, e.Guard)
			}
		}
		for _, rt := range in.TopReturns {
			if !rs.goStarted {
				break // registered with context.AfterFunc only: no goroutine exists while waiting
			}
			if M.And(rt.Pred, M.Not(covered)) != bdd.False {
				rs.leak = append(rs.leak, "Run can return without cancelling the context its goroutine waits on (the derived context's CancelFunc is not run on every return): the goroutine is left behind")
				break
			}
		}
	}
	if carried == nil {
		for _, k := range ls.StoreChanged {
			root, path := absint.SplitKey(k)
			if l := cx.E.LeafByPath(path); root == "cpu" && l != nil && l.Width > 0 {
				changed = append(changed, absint.CarriedLoc{Key: k, Type: l.Type})
			}
		}
	}
	// at every return the CPU is as the last Step (or the caller) left it: Run
	// itself changes nothing after the loop either (HALT:=false on entry apart)
	for _, rt := range in.TopReturns {
		if rt.State == nil || M.And(rt.Pred, entry) == bdd.False {
			continue
		}
		for i, p := range paths {
			v, ok := rt.State.Get("cpu", p)
			bv, isBV := v.(dom.BV)
			if !ok || !isBV {
				continue
			}
			okv := bv.Equal(c.Atom(fmt.Sprintf("PostStep%d(%s)", stepN, p), widths[i])) || bv.Equal(c.Atom("Init("+p+")", widths[i])) ||
				bv.Equal(c.Atom("loop1.mem(cpu|"+p+")", widths[i])) || (p == "HALT" && bv.Equal(c.Const(1, 0)))
			if !okv {
				// a value merged from those (different paths to the return) is fine as well
				sup := c.AtomsIn(bv...)
				okv = true
				for _, a := range sup {
					if a != fmt.Sprintf("PostStep%d(%s)", stepN, p) && a != "Init("+p+")" && a != "loop1.mem(cpu|"+p+")" && !strings.HasPrefix(a, "atomic.") && !strings.HasPrefix(a, "IsNil(") && !strings.HasPrefix(a, "ctx.") && !strings.HasPrefix(a, "shared(") && !strings.HasPrefix(a, "map.get") && !strings.HasPrefix(a, "PostStep") {
						okv = false
					}
				}
				// ... but it must be one of them on each path: evaluate under the return's predicate
				post := c.Atom(fmt.Sprintf("PostStep%d(%s)", stepN, p), widths[i])
				ini := c.Atom("Init("+p+")", widths[i])
				car := c.Atom("loop1.mem(cpu|"+p+")", widths[i])
				isOne := M.Or(c.Eq(bv, post), M.Or(c.Eq(bv, ini), c.Eq(bv, car)))
				if p == "HALT" {
					isOne = M.Or(isOne, c.IsZero(bv))
				}
				if M.And(rt.Pred, M.Not(isOne)) != bdd.False {
					okv = false
				}
			}
			if !okv {
				rs.violations = append(rs.violations, "Run changes CPU."+p+" itself before it returns ("+c.Describe(bv)+")")
			}
		}
	}
	// 3. inside the loop the CPU is changed by Step only
	for _, k := range ls.StoreChanged {
		root, path := absint.SplitKey(k)
		if root != "cpu" {
			continue
		}
		l := cx.E.LeafByPath(path)
		if l == nil || l.Width == 0 {
			rs.violations = append(rs.violations, "Run's loop stores to CPU."+path)
			continue
		}
	}
	if ls.BackState != nil {
		for i, p := range paths {
			v, ok := ls.BackState.Get("cpu", p)
			if bv, isBV := v.(dom.BV); ok && isBV && !bv.Equal(c.Atom(fmt.Sprintf("PostStep%d(%s)", stepN, p), widths[i])) {
				rs.violations = append(rs.violations, "Run's loop changes CPU."+p+" after Step")
			}
		}
	}
	// 4. before the loop: the stale halted indication is discarded, nothing else
	// (checked on the state at loop entry through the loop summary's init state)
	rs.notes = append(rs.notes, fmt.Sprintf("Step guard, returns and back edge compared as boolean functions of %d atoms", c.NumAtoms()))
	rs.returns[retCtx] = boolInt(pCtx != bdd.False)
	rs.returns[retBP] = boolInt(pBP != bdd.False)
	rs.returns[retNil] = boolInt(pNil != bdd.False)
	rs.returns[retElse] = boolInt(pOther != bdd.False)
	// entry state
	if hv := in.EntryStateOf(ls, "cpu", "HALT"); hv != nil {
		if bv, ok := hv.(dom.BV); !ok || !bv.Equal(c.Const(1, 0)) {
			rs.violations = append(rs.violations, "the stale halted indication is not discarded before the first iteration")
		}
	} else {
		rs.violations = append(rs.violations, "the stale halted indication is not discarded before the first iteration")
	}
	for _, k := range in.EntryKeysOf(ls) {
		root, path := absint.SplitKey(k)
		if root == "cpu" && path != "HALT" {
			rs.violations = append(rs.violations, "Run changes CPU."+path+" before its first Step")
		}
	}
	return rs, changed
}

func boolInt(b bool) int {
	if b {
		return 1
	}
	return 0
}
