package checks

import (
	"fmt"
	"go/types"
	"os"
	"strings"

	"golang.org/x/tools/go/ssa"

	"verif/internal/absint"
	"verif/internal/bdd"
	"verif/internal/dom"
	"verif/internal/load"
)

// runSem is the value-based summary of one iteration of (*CPU).Run: the loop
// body is interpreted once (helpers in line, Step opaque and havocking the CPU,
// loads of cells shared with the watcher goroutine and atomic loads as fresh
// atoms), and the conditions under which it Steps, returns each kind of
// result, or goes round again are boolean functions that are compared with the
// property's stopping rule.
type runSem struct {
	err        error
	violations []string
	// watcher goroutine (C13)
	sites      map[ssa.Instruction]*absint.SiteLog // panic-site verdicts of everything the summary interpreted (C12)
	funcs      []string                            // functions the summary interpreted
	hasWatcher bool
	goStarted  bool     // a goroutine is started with a go statement (it must be ended on every return)
	watch      []string // violations of the hand-off protocol
	leak       []string // violations of 'no goroutine left behind'
	race       []string // unsynchronised accesses
	notes      []string
	okSelects  map[string]bool // positions of blocking selects accepted as part of a verified watcher
	syncCalls  map[string]bool // library calls (sync.WaitGroup ...) modelled as part of the hand-off
	steps      int
	returns    map[string]int
}

const (
	retNil  = "nil"
	retBP   = "ErrBreakPoint"
	retCtx  = "context-error"
	retElse = "other"
)

func analyseRunSem(cx *Ctx) *runSem {
	// pass 1 finds the CPU locations the loop body changes; pass 2 generalises
	// them at the loop header, so that the one interpreted iteration stands
	// for every iteration (needed when the loop condition itself reads the
	// CPU, as in `for !cpu.HALT { ... }`)
	rs, changed := runSemPass(cx, nil)
	if rs.err != nil || len(changed) == 0 {
		return rs
	}
	rs2, _ := runSemPass(cx, changed)
	return rs2
}

func runSemPass(cx *Ctx, carried []absint.CarriedLoc) (*runSem, []absint.CarriedLoc) {
	rs, changed := runSemPass1(cx, carried)
	return rs, changed
}

func runSemPass1(cx *Ctx, carried []absint.CarriedLoc) (rs *runSem, changed []absint.CarriedLoc) {
	rs = &runSem{returns: map[string]int{}, okSelects: map[string]bool{}, syncCalls: map[string]bool{}}
	defer func() {
		if x := recover(); x != nil {
			rs = &runSem{err: fmt.Errorf("analyzer panic in the Run summary: %v", x), returns: map[string]int{}}
			changed = nil
		}
	}()
	run := cx.P.Method(load.ModulePath, "CPU", "Run")
	if run == nil || run.Blocks == nil {
		rs.err = fmt.Errorf("UNRESOLVED anchor: (*CPU).Run")
		return rs, nil
	}
	c := dom.NewCtx()
	tr := dom.NewTrace(c)
	in := absint.New(cx.P, c, tr)
	in.AddSymbolicRoot("cpu", "")
	st := cx.E.SeedInterp(in)
	cx.E.Preconditions(in)
	in.LoopBodies = true
	in.NoGlobalEvents = true
	in.Sites = map[ssa.Instruction]*absint.SiteLog{}
	if carried != nil {
		in.LoopCarried = map[int][]absint.CarriedLoc{1: carried}
	}
	// identity of the breakpoint error
	if g := cx.P.SSAPkg(load.ModulePath).Var("ErrBreakPoint"); g != nil {
		in.InitOverride["global:"+g.RelString(nil)+"|"] = &absint.Iface{Sym: "ErrBreakPoint", Nil: bdd.False}
	} else {
		rs.err = fmt.Errorf("UNRESOLVED anchor: ErrBreakPoint")
		return rs, nil
	}
	shared := map[string]string{}    // alloc root -> name, cells captured by a goroutine
	published := map[string]bool{}   // cells the goroutine stores atomically
	plainStored := map[string]bool{} // cells the goroutine stores plainly
	atomLoaded := map[string]bool{}  // cells Run loads atomically
	type plainLoad struct {
		root string
		pred bdd.Node
		pos  string
	}
	var plainLoads []plainLoad
	nShared := 0
	fresh := func(kind string) string { nShared++; return fmt.Sprintf("%s@%d", kind, nShared) }
	ctxErrVal := func() absint.Value {
		n := fresh("ctx.Err")
		return &absint.Iface{Sym: n, Nil: c.Atom("IsNil("+n+")", 1)[0]}
	}
	var isCtxErr func(v absint.Value) bool
	isCtxErr = func(v absint.Value) bool {
		switch x := v.(type) {
		case *absint.MuxV:
			return isCtxErr(x.A) && isCtxErr(x.B)
		case *absint.Iface:
			return strings.HasPrefix(x.Sym, "ctx.Err")
		}
		return false
	}
	paths, widths := cx.E.IntLeaves()
	stepN := 0
	in.OnCall = func(in *absint.Interp, fn *ssa.Function, args []absint.Value, guard bdd.Node, st *absint.State, pos string) (absint.Value, *absint.State, bool) {
		if fn != cx.E.Step {
			return nil, nil, false
		}
		if p, ok := args[0].(*absint.Ptr); !ok || p.Root != "cpu" || p.Path != "" {
			rs.violations = append(rs.violations, pos+": Step is called on something other than the receiver")
		}
		// the Step must start from the state the previous Step (or the caller) left
		for i, p := range paths {
			v := in.Load(st, &absint.Ptr{Root: "cpu", Path: p, Nil: bdd.False}, cx.E.LeafByPath(p).Type, 0).(dom.BV)
			if !v.Equal(c.Atom("Init("+p+")", widths[i])) && !(p == "HALT" && v.Equal(c.Const(1, 0))) &&
				!(carried != nil && v.Equal(c.Atom("loop1.mem(cpu|"+p+")", widths[i]))) {
				rs.violations = append(rs.violations, pos+": CPU."+p+" is modified by Run itself before Step")
			}
		}
		stepN++
		tr.Emit(guard, "Step", fmt.Sprint(stepN), nil, 0, pos)
		for i, p := range paths {
			in.Store(st, &absint.Ptr{Root: "cpu", Path: p, Nil: bdd.False}, cx.E.LeafByPath(p).Type, c.Atom(fmt.Sprintf("PostStep%d(%s)", stepN, p), widths[i]), bdd.True, 0)
		}
		return nil, st, true
	}
	// analyseWatcher interprets the function a goroutine runs.  registeredOn is
	// "" for a go statement, or the context the function was registered on with
	// context.AfterFunc (it then starts only once that context is done: no
	// goroutine exists while waiting, so nothing is left behind).
	// what is known of a goroutine after its function has been interpreted
	type watcherInfo struct {
		pos             string
		goGuard         bdd.Node
		goroutine       bool                // started with a go statement (not registered with AfterFunc)
		releaseByCancel bool                // ends when the derived context is cancelled
		release         []string            // channels whose close ends it
		closes          map[string]bdd.Node // channels it closes, with the paths on which it does
		wgDone          map[string]bdd.Node // WaitGroups it signals
		selects         []string
		seenCancel      bdd.Node            // the paths on which it has seen the context done
		sawPub          bool                // it publishes with an atomic store
		storeAfterClose map[string]string   // channels closed before a plain store to a shared cell (position of the store)
		sends           map[string]bdd.Node // channels it sends the context's error on, with the paths
		sendPos         []string
	}
	ctxChans := map[string]bool{} // channels on which only the context's error is ever sent
	sentVals := map[string][]absint.Value{}
	polled := map[string]string{} // channels Run polls without blocking (position of the first poll)
	var watchers []*watcherInfo
	var analyseWatcher func(in *absint.Interp, fv *absint.FuncV, args []absint.Value, guard bdd.Node, st *absint.State, pos, registeredOn string)
	in.OnGo = func(in *absint.Interp, fv *absint.FuncV, args []absint.Value, guard bdd.Node, st *absint.State, pos string) {
		tr.Emit(guard, "go", "", nil, 0, pos)
		rs.goStarted = true
		if fv == nil {
			return
		}
		analyseWatcher(in, fv, args, guard, st, pos, "")
	}
	analyseWatcher = func(in *absint.Interp, fv *absint.FuncV, args []absint.Value, guard bdd.Node, st *absint.State, pos, registeredOn string) {
		rs.hasWatcher = true
		// everything the goroutine can reach from what it captures or is handed: the
		// cells themselves and the objects the pointers in them lead to
		var reach func(v absint.Value, depth int)
		reach = func(v absint.Value, depth int) {
			switch x := v.(type) {
			case *absint.MuxV:
				reach(x.A, depth)
				reach(x.B, depth)
			case *absint.Struct:
				for _, f := range x.Fields {
					reach(f, depth)
				}
			case *absint.Ptr:
				if x.Root == "cpu" || strings.HasPrefix(x.Root, "*") {
					// the CPU handed to the goroutine directly; when it is merely reachable
					// (through a session object that holds it) what counts is whether the
					// goroutine touches it: judged below on what it loads and stores
					if depth == 0 {
						rs.watch = append(rs.watch, pos+": the goroutine captures the CPU (or something reached from it)")
					}
					return
				}
				if !strings.HasPrefix(x.Root, "alloc#") || shared[x.Root] != "" || depth > 6 {
					return
				}
				shared[x.Root] = "cell"
				in.WatchStores[x.Root] = true
				for _, k := range st.Keys() {
					if r, p := absint.SplitKey(k); r == x.Root {
						if cv, ok := st.Get(r, p); ok {
							reach(cv, depth+1)
						}
					}
				}
			}
		}
		for _, b := range append(append([]absint.Value{}, fv.Bindings...), args...) {
			reach(b, 0)
		}
		// the goroutine's own behaviour: interpreted on a scratch trace
		saved := in.T
		wst := st.Clone()
		wt := dom.NewTrace(c)
		in.T = wt
		in.TouchLog = map[string]bool{}
		func() {
			defer func() {
				if x := recover(); x != nil {
					rs.watch = append(rs.watch, fmt.Sprintf("%s: the goroutine does something outside the hand-off protocol: %v", pos, x))
				}
			}()
			in.ProbeBound(fv, args, guard, wst)
		}()
		in.T = saved
		for root := range in.TouchLog {
			if root == "cpu" || strings.HasPrefix(root, "*") && !strings.HasPrefix(root, "*atomic.Pointer") {
				rs.watch = append(rs.watch, pos+": the goroutine reads or writes the CPU (or something reached from it: "+root+") while Run is stepping it")
			}
		}
		in.TouchLog = nil

		M := c.M
		w := &watcherInfo{pos: pos, goGuard: guard, goroutine: registeredOn == "", closes: map[string]bdd.Node{}, wgDone: map[string]bdd.Node{}, storeAfterClose: map[string]string{}, sends: map[string]bdd.Node{}}
		watchers = append(watchers, w)
		seenCancel := bdd.False // the paths on which the goroutine has seen the context done
		blocked := bdd.False    // the paths that have blocked once
		pubGuard := bdd.False   // the paths on which the cancellation has been published
		if registeredOn != "" {
			seenCancel, blocked = guard, guard
		}
		overlaps := func(a, b bdd.Node) bool { return M.And(a, b) != bdd.False }
		for i := range wt.Events {
			e := &wt.Events[i]
			if os.Getenv("VERIF_DEBUG") != "" {
				fmt.Fprintf(os.Stderr, "watcher event: %s %s at %s\n", e.Kind, e.Dev, e.Pos)
			}
			switch e.Kind {
			case "chan.recv":
				if overlaps(e.Guard, blocked) {
					rs.watch = append(rs.watch, e.Pos+": a second blocking receive in the goroutine")
				}
				blocked = M.Or(blocked, e.Guard)
				switch {
				case strings.HasPrefix(e.Dev, "chan#"):
					rs.watch = append(rs.watch, e.Pos+": the goroutine waits on a channel that is not a context's Done (outside the protocol)")
				case e.Dev == "ctx.derived":
					seenCancel = M.Or(seenCancel, e.Guard)
					w.releaseByCancel = true
				case !callersCtx(e.Dev):
					rs.watch = append(rs.watch, e.Pos+": the goroutine waits on Done() of "+e.Dev+", which is not the caller's context (or derived from it): the caller's cancellation is never seen")
				default:
					seenCancel = M.Or(seenCancel, e.Guard)
					rs.leak = append(rs.leak, e.Pos+": the goroutine waits on Done() of "+e.Dev+", not of the context Run derives and cancels on return: it outlives Run when the caller never cancels")
				}
				if overlaps(e.Guard, pubGuard) {
					rs.watch = append(rs.watch, e.Pos+": the goroutine publishes before it has seen the cancellation")
				}
			case "select":
				// select { case <-done: publish; case <-quit: } : the first alternative
				// is the cancellation, the others end the goroutine when Run is over
				if overlaps(e.Guard, blocked) {
					rs.watch = append(rs.watch, e.Pos+": a second blocking receive in the goroutine")
				}
				blocked = M.Or(blocked, e.Guard)
				names := strings.Split(e.Dev, ",")
				idx := e.Args[0]
				nCancel, nRelease := 0, 0
				for k, n := range names {
					gk := M.And(e.Guard, c.Eq(idx, c.Const(len(idx), uint64(k))))
					switch {
					case strings.HasPrefix(n, "done:") && !callersCtx(strings.TrimPrefix(n, "done:")):
						rs.watch = append(rs.watch, e.Pos+": the goroutine waits on Done() of "+strings.TrimPrefix(n, "done:")+", which is not the caller's context (or derived from it)")
					case strings.HasPrefix(n, "done:"):
						nCancel++
						seenCancel = M.Or(seenCancel, gk)
						if strings.TrimPrefix(n, "done:") == "ctx.derived" {
							w.releaseByCancel = true
							nRelease++
						}
					case strings.HasPrefix(n, "chan#"):
						w.release = append(w.release, n)
						nRelease++
					}
				}
				if nCancel == 0 {
					rs.watch = append(rs.watch, e.Pos+": none of the channels the goroutine waits on is a context's Done")
				}
				if nRelease == 0 {
					rs.leak = append(rs.leak, e.Pos+": the goroutine waits on the caller's context only: it outlives Run when the caller never cancels")
				}
				w.selects = append(w.selects, e.Pos)
			case "shared.store":
				if overlaps(e.Guard, M.Not(seenCancel)) {
					rs.watch = append(rs.watch, e.Pos+": the goroutine writes a shared cell before the context is done")
				}
				if overlaps(e.Guard, pubGuard) {
					rs.race = append(rs.race, e.Pos+": a shared cell is written after the flag was published: Run can read it before it is written (data race)")
				}
				for dev, g := range w.closes {
					if overlaps(e.Guard, g) {
						w.storeAfterClose[dev] = e.Pos
					}
				}
				plainStored[e.Dev] = true
			case "atomic.store", "atomic.store-pointer", "atomic.store-pointer-bad":
				if overlaps(e.Guard, M.Not(seenCancel)) {
					rs.watch = append(rs.watch, e.Pos+": the goroutine publishes a cancellation on a path on which it has not seen the context done")
				}
				pubGuard = M.Or(pubGuard, e.Guard)
				published[e.Dev] = true
				if e.Kind == "atomic.store-pointer-bad" {
					rs.watch = append(rs.watch, e.Pos+": what the published pointer points at is not (yet) the Err() of the caller's or the derived context")
				}
			case "atomic.store-zero":
				rs.watch = append(rs.watch, e.Pos+": the goroutine stores 0 into the flag (never observed as cancelled)")
			case "chan.close":
				if overlaps(e.Guard, w.closes[e.Dev]) {
					rs.watch = append(rs.watch, e.Pos+": the goroutine can close "+e.Dev+" twice (panic)")
				}
				w.closes[e.Dev] = M.Or(w.closes[e.Dev], e.Guard)
			case "wg.done":
				if overlaps(e.Guard, w.wgDone[e.Dev]) {
					rs.watch = append(rs.watch, e.Pos+": the goroutine can signal the WaitGroup twice (negative counter: panic)")
				}
				w.wgDone[e.Dev] = M.Or(w.wgDone[e.Dev], e.Guard)
			case "chan.send":
				// the context's error posted on a buffered channel of the code's own (one
				// send per path into a buffer nobody else fills: it cannot block)
				info := in.Chans[e.Dev]
				var sent absint.Value
				if vs := sentVals[e.Dev]; len(vs) > 0 {
					sent, sentVals[e.Dev] = vs[0], vs[1:]
				}
				switch {
				case info == nil || info.Cap < 1:
					rs.watch = append(rs.watch, e.Pos+": the goroutine sends on an unbuffered channel: it blocks (and is left behind) when Run has returned for another reason")
				case overlaps(e.Guard, w.sends[e.Dev]):
					rs.watch = append(rs.watch, e.Pos+": the goroutine can send twice on "+e.Dev+" (the second send blocks)")
				case overlaps(e.Guard, M.Not(seenCancel)):
					rs.watch = append(rs.watch, e.Pos+": the goroutine posts a cancellation on a path on which it has not seen the context done")
				case sent == nil || !isCtxErr(sent):
					rs.watch = append(rs.watch, e.Pos+": what the goroutine sends is not the Err() of the caller's or the derived context")
					ctxChans[e.Dev] = false
				default:
					if _, seen := ctxChans[e.Dev]; !seen {
						ctxChans[e.Dev] = true
					}
				}
				for _, g := range w.closes {
					if overlaps(e.Guard, g) {
						rs.watch = append(rs.watch, e.Pos+": send after a close in the goroutine (outside the protocol)")
					}
				}
				w.sends[e.Dev] = M.Or(w.sends[e.Dev], e.Guard)
				w.sendPos = append(w.sendPos, e.Pos)
			case "wg.add", "wg.wait", "go":
				rs.watch = append(rs.watch, e.Pos+": "+e.Kind+" in the goroutine (outside the protocol)")
			}
		}
		sawRecv := seenCancel != bdd.False
		sawPub := pubGuard != bdd.False
		w.seenCancel, w.sawPub = seenCancel, sawPub
		if sawPub && overlaps(seenCancel, M.Not(pubGuard)) {
			rs.watch = append(rs.watch, pos+": on some path the goroutine sees the context done and does not publish it")
		}
		// what the goroutine leaves in the plainly written cells is the context's
		// error - on every path that publishes
		var errUnder func(v absint.Value, g bdd.Node) bool
		errUnder = func(v absint.Value, g bdd.Node) bool {
			if g == bdd.False {
				return true
			}
			if mv, ok := v.(*absint.MuxV); ok {
				return errUnder(mv.A, M.And(g, mv.P)) && errUnder(mv.B, M.And(g, M.Not(mv.P)))
			}
			return isCtxErr(v)
		}
		for cell := range plainStored {
			root, path := cell, ""
			if i := strings.IndexByte(cell, '|'); i >= 0 {
				root, path = cell[:i], cell[i+1:]
			}
			if v, ok := wst.Get(root, path); !ok || !errUnder(v, M.And(seenCancel, pubGuard)) {
				rs.watch = append(rs.watch, "the value the goroutine leaves in "+cell+" is not the Err() of the caller's or the derived context")
			}
		}
		// from here on Run sees the cells the goroutine writes as changing under it
		for cell := range plainStored {
			in.SharedRoots[cell] = true
		}
		for cell := range published {
			in.SharedRoots[cell] = true
		}
		if !sawRecv {
			rs.watch = append(rs.watch, pos+": the goroutine does not wait for the context")
		}
		// (a goroutine that publishes by closing a channel Run polls is judged when
		// Run has been interpreted: see below)
	}
	in.OnPoll = func(dev string) bdd.Node {
		if !callersCtx(dev) {
			rs.violations = append(rs.violations, "Run polls Done() of "+dev+", which is not the caller's context (or derived from it)")
			return c.Atom(fresh("foreign.Done-ready"), 1)[0]
		}
		return c.Atom(fresh("ctx.Done-ready"), 1)[0]
	}
	in.OnOpaqueCall = func(in *absint.Interp, why string, args []absint.Value, guard bdd.Node, st *absint.State, pos string) (absint.Value, bool) {
		if why != "cancel" {
			return nil, false
		}
		if in.InDeferred() {
			// the CancelFunc called from a deferred closure: as good as deferring it
			in.T.Emit(guard, "deferred:cancel", "", nil, 0, pos)
		} else {
			rs.watch = append(rs.watch, pos+": the derived context's CancelFunc is called while Run is still going (outside the protocol: the goroutine would report a cancellation the caller never asked for)")
		}
		return nil, true
	}
	in.Chans = map[string]*absint.ChanInfo{}
	in.OnSelect = func(devs []string, guard bdd.Node, pos string) dom.BV {
		// which alternative is taken is a fresh choice; values beyond the last
		// alternative stand for the first one
		bits := 1
		for 1<<uint(bits) < len(devs) {
			bits++
		}
		a := c.Atom(fresh("select"), bits)
		w := in.IntWidth()
		idx := c.Zext(a, w)
		if 1<<uint(bits) != len(devs) {
			idx = c.Mux(c.Lt(idx, c.Const(w, uint64(len(devs))), false), idx, c.Const(w, 0))
		}
		return idx
	}
	in.OnPollChan = func(dev string, guard bdd.Node, pos string) bdd.Node {
		if _, seen := polled[dev]; !seen {
			polled[dev] = pos
		}
		atomLoaded[dev] = true
		return c.Atom(fresh("chan-ready("+dev+")"), 1)[0]
	}
	in.OnSend = func(dev string, v absint.Value, guard bdd.Node, st *absint.State, pos string) {
		sentVals[dev] = append(sentVals[dev], v)
	}
	in.OnRecv = func(dev string, t types.Type, guard bdd.Node, pos string) absint.Value {
		if _, isIface := t.Underlying().(*types.Interface); isIface {
			n := fresh("recv(" + dev + ")")
			return &absint.Iface{Sym: n, Nil: c.Atom("IsNil("+n+")", 1)[0]}
		}
		return in.SymbolicValue(t, fresh("recv("+dev+")"))
	}
	in.SharedRoots = map[string]bool{}
	in.WatchStores = map[string]bool{}
	in.SharedLoad = func(root, path string, w int) absint.Value {
		// name the load after the shared cell it falls into
		cell := root
		if path != "" {
			cell = root + "|" + path
		}
		for _, set := range []map[string]bool{published, plainStored, atomLoaded} {
			for c := range set {
				if i := strings.IndexByte(c, '|'); i >= 0 && c[:i] == root {
					if cp := c[i+1:]; path == cp || strings.HasPrefix(path, cp+".") || strings.HasPrefix(path, cp+"[") {
						cell = c
					}
				} else if c == root {
					cell = c
				}
			}
		}
		plainLoads = append(plainLoads, plainLoad{cell, in.CurPred(), ""})
		n := fresh("shared(" + root + ")")
		if w > 0 {
			return c.Atom(n, w)
		}
		return &absint.Iface{Sym: n, Nil: c.Atom("IsNil("+n+")", 1)[0]}
	}
	noop := func(in *absint.Interp, args []absint.Value, guard bdd.Node, st *absint.State, pos string) (absint.Value, bool) {
		return nil, true
	}
	cellOf := func(v absint.Value) string {
		if p, ok := v.(*absint.Ptr); ok {
			if p.Path == "" {
				return p.Root
			}
			return p.Root + "|" + p.Path // a field of a larger object: only that field is the cell
		}
		return "?"
	}
	lastObs := map[string]bdd.Node{}
	atomicLoad := func(w int) absint.ModelFunc {
		return func(in *absint.Interp, args []absint.Value, guard bdd.Node, st *absint.State, pos string) (absint.Value, bool) {
			cell := cellOf(args[0])
			atomLoaded[cell] = true
			v := c.Atom(fresh("atomic.Load"), w)
			if w == 1 {
				// a boolean flag that is only ever set (a store of false by the goroutine
				// or any store by Run after the goroutine started is reported): once it
				// has been seen set, every later load sees it set
				if prev, ok := lastObs[cell]; ok {
					v = dom.BV{c.M.Or(v[0], prev)}
				}
				lastObs[cell] = v[0]
			}
			return v, true
		}
	}
	atomicStore := func(in *absint.Interp, args []absint.Value, guard bdd.Node, st *absint.State, pos string) (absint.Value, bool) {
		if len(args) > 1 {
			if bv, ok := args[1].(dom.BV); ok {
				if k, isc := bv.IsConst(); isc && k == 0 {
					tr2 := in.T
					tr2.Emit(guard, "atomic.store-zero", cellOf(args[0]), nil, 0, pos)
					return nil, true
				}
			}
		}
		if len(args) > 1 {
			if p, ok := args[1].(*absint.Ptr); ok {
				kind := "atomic.store-pointer"
				if v, ok := st.Get(p.Root, p.Path); !ok || !isCtxErr(v) {
					kind += "-bad"
				}
				in.WatchStores[p.Root] = true // the pointee is shared from here on
				in.T.Emit(guard, kind, cellOf(args[0]), nil, 0, pos)
				return nil, true
			}
		}
		in.T.Emit(guard, "atomic.store", cellOf(args[0]), nil, 0, pos)
		return nil, true
	}
	in.Models = map[string]absint.ModelFunc{
		"context.AfterFunc": func(in *absint.Interp, args []absint.Value, guard bdd.Node, st *absint.State, pos string) (absint.Value, bool) {
			iv, ok := args[0].(*absint.Iface)
			fv, ok2 := args[1].(*absint.FuncV)
			if !ok || !ok2 || iv.Sym == "" {
				return nil, false
			}
			if !callersCtx(iv.Sym) {
				rs.watch = append(rs.watch, pos+": context.AfterFunc on a context that is not the caller's (or derived from it)")
			}
			tr.Emit(guard, "afterfunc", iv.Sym, nil, 0, pos)
			analyseWatcher(in, fv, nil, guard, st, pos, iv.Sym)
			return &absint.Opaque{Why: "afterfunc-stop"}, true
		},
		"context.WithCancel": func(in *absint.Interp, args []absint.Value, guard bdd.Node, st *absint.State, pos string) (absint.Value, bool) {
			// derived from the caller's context (directly or through another derived
			// one) - anything else does not see the caller's cancellation
			sym := "ctx.foreign"
			if iv, ok := args[0].(*absint.Iface); ok && callersCtx(iv.Sym) {
				sym = "ctx.derived"
			} else {
				rs.watch = append(rs.watch, pos+": context.WithCancel of a context that is not the caller's (or derived from it): the caller's cancellation does not reach it")
			}
			return &absint.Tuple{Elems: []absint.Value{&absint.Iface{Sym: sym, Nil: bdd.False}, &absint.Opaque{Why: "cancel"}}}, true
		},
		"sync/atomic.LoadInt32": atomicLoad(32), "sync/atomic.LoadUint32": atomicLoad(32), "sync/atomic.LoadInt64": atomicLoad(64),
		"(*sync/atomic.Bool).Load":  atomicLoad(1),
		"(*sync/atomic.Int32).Load": atomicLoad(32),
		"sync/atomic.StoreInt32":    atomicStore, "sync/atomic.StoreUint32": atomicStore, "sync/atomic.StoreInt64": atomicStore,
		"(*sync/atomic.Bool).Store": atomicStore, "(*sync/atomic.Int32).Store": atomicStore,
		"(*sync/atomic.Uint32).Load": atomicLoad(32), "(*sync/atomic.Uint32).Store": atomicStore,
		"(*sync/atomic.Int64).Load": atomicLoad(64), "(*sync/atomic.Int64).Store": atomicStore,
		"(*sync/atomic.Uint64).Load": atomicLoad(64), "(*sync/atomic.Uint64).Store": atomicStore,
		"sync/atomic.LoadUint64": atomicLoad(64), "sync/atomic.StoreUint64": atomicStore,
		"(*sync/atomic.Pointer).Store": atomicStore,
		"(*sync.WaitGroup).Add": func(in *absint.Interp, args []absint.Value, guard bdd.Node, st *absint.State, pos string) (absint.Value, bool) {
			d, ok := args[1].(dom.BV)
			if !ok {
				return nil, false
			}
			rs.syncCalls["(*sync.WaitGroup).Add"] = true
			in.T.Emit(guard, "wg.add", cellOf(args[0]), []dom.BV{d}, 0, pos)
			return nil, true
		},
		"(*sync.WaitGroup).Done": func(in *absint.Interp, args []absint.Value, guard bdd.Node, st *absint.State, pos string) (absint.Value, bool) {
			rs.syncCalls["(*sync.WaitGroup).Done"] = true
			in.T.Emit(guard, "wg.done", cellOf(args[0]), nil, 0, pos)
			return nil, true
		},
		"(*sync.WaitGroup).Wait": func(in *absint.Interp, args []absint.Value, guard bdd.Node, st *absint.State, pos string) (absint.Value, bool) {
			rs.syncCalls["(*sync.WaitGroup).Wait"] = true
			in.T.Emit(guard, "wg.wait", cellOf(args[0]), nil, 0, pos)
			return nil, true
		},
		"(*sync/atomic.Pointer).Load": func(in *absint.Interp, args []absint.Value, guard bdd.Node, st *absint.State, pos string) (absint.Value, bool) {
			atomLoaded[cellOf(args[0])] = true
			n := fresh("atomic.Pointer")
			in.AddSymbolicRoot("*"+n, n+".")
			in.InitOverride["*"+n+"|"] = ctxErrVal()
			return &absint.Ptr{Root: "*" + n, Nil: c.Atom("IsNil("+n+")", 1)[0]}, true
		},
	}
	in.OnInvoke = func(in *absint.Interp, kind, dev string, args []absint.Value, guard bdd.Node, st *absint.State, pos string) (absint.Value, bool) {
		switch {
		case strings.HasSuffix(kind, ".Err") && callersCtx(dev):
			return ctxErrVal(), true
		case strings.HasSuffix(kind, ".Err"):
			// the error of some other context: not what Run has to return
			n := fresh("foreign.Err")
			return &absint.Iface{Sym: n, Nil: c.Atom("IsNil("+n+")", 1)[0]}, true
		case strings.HasSuffix(kind, ".Done"):
			return &absint.Opaque{Why: "done:" + dev}, true
		}
		return nil, false
	}
	var args []absint.Value
	for i, p := range run.Params {
		if i == 0 {
			args = append(args, &absint.Ptr{Root: "cpu", Nil: bdd.False})
		} else {
			v := in.SymbolicValue(p.Type(), "ctx")
			if iv, ok := v.(*absint.Iface); ok {
				iv.Nil = bdd.False // precondition of Run: a non-nil context
			}
			args = append(args, v)
		}
	}
	_ = noop
	_, _, err := in.Run(run, args, st)
	if err != nil {
		rs.err = err
		return rs, nil
	}
	rs.steps = stepN
	rs.sites = in.Sites
	for fn := range in.Funcs {
		rs.funcs = append(rs.funcs, fn.String())
	}
	if len(in.Loops) != 1 {
		rs.err = fmt.Errorf("UNDECIDED: Run has %d loops, the summary handles exactly one", len(in.Loops))
		return rs, nil
	}
	ls := in.Loops[0]
	M := c.M
	// classify returns
	var pCtx, pBP, pNil, pOther bdd.Node = bdd.False, bdd.False, bdd.False, bdd.False
	var classify func(v absint.Value, pred bdd.Node)
	classify = func(v absint.Value, pred bdd.Node) {
		if pred == bdd.False {
			return
		}
		switch x := v.(type) {
		case *absint.MuxV:
			classify(x.A, M.And(pred, x.P))
			classify(x.B, M.And(pred, M.Not(x.P)))
		case *absint.Iface:
			nilc := M.And(pred, x.Nil)
			non := M.And(pred, M.Not(x.Nil))
			switch {
			case x.Sym == "ErrBreakPoint":
				pBP = M.Or(pBP, non)
				pNil = M.Or(pNil, nilc)
			case strings.HasPrefix(x.Sym, "recv(") && ctxChans[x.Sym[len("recv("):strings.Index(x.Sym, ")")]]:
				// received from a channel on which the goroutine posts the context's error only
				pCtx = M.Or(pCtx, pred)
			case strings.HasPrefix(x.Sym, "ctx.Err") || strings.HasPrefix(x.Sym, "shared("):
				// the context's error as published by the watcher, or read directly;
				// returning it while it is still nil would be 'return nil'
				pCtx = M.Or(pCtx, pred)
			case x.Sym == "" && x.Nil == bdd.True:
				pNil = M.Or(pNil, pred)
			default:
				pOther = M.Or(pOther, pred)
			}
		default:
			pOther = M.Or(pOther, pred)
		}
	}
	// (when the loop is in a function Run calls, the paths of that function are
	// merged at its return and the caller goes on under its own predicate: the
	// region in which the iteration goes round again is no return)
	notBack := M.Not(ls.BackPred)
	for _, r := range in.TopReturns {
		if os.Getenv("VERIF_DEBUG") != "" {
			fmt.Fprintf(os.Stderr, "top return: %s\n", absint.DescribeValue(c, r.Val))
		}
		classify(r.Val, M.And(r.Pred, notBack))
	}
	// events
	gStep := bdd.False
	nStepEvents := 0
	var bpPresent bdd.Node = bdd.False
	var goN int
	stepSeen := false // events are in program order: a lookup before the Step of the iteration is a header test
	for i := range tr.Events {
		e := &tr.Events[i]
		switch e.Kind {
		case "Step":
			nStepEvents++
			stepSeen = true
			gStep = M.Or(gStep, e.Guard)
		case "map.get":
			if e.Dev == "BreakPoints" {
				want := c.Atom(fmt.Sprintf("PostStep%d(PC)", stepN), 16)
				viaHeader := false
				if carried != nil && !stepSeen && e.Args[0].Equal(c.Atom("loop1.mem(cpu|PC)", 16)) {
					// looked up at the loop header: PC as the previous Step left it
					if bv, ok := ls.CarriedBack["cpu|PC"].(dom.BV); ok && bv.Equal(want) {
						viaHeader = true
					}
				}
				if !e.Args[0].Equal(want) && !viaHeader {
					rs.violations = append(rs.violations, e.Pos+": the breakpoint set is looked up with a key other than PC as left by the Step of this iteration ("+c.Describe(e.Args[0])+")")
				}
				bpPresent = M.And(M.Not(c.Atom("IsNil(BreakPoints)", 1)[0]), e.Res[len(e.Res)-1])
			}
		case "go":
			goN++
		}
	}
	if nStepEvents != 1 {
		rs.violations = append(rs.violations, fmt.Sprintf("one iteration of Run's loop calls Step at %d places (exactly one expected)", nStepEvents))
		return rs, nil
	}
	halt := c.Atom(fmt.Sprintf("PostStep%d(HALT)", stepN), 1)[0]
	entry := ls.EntryPred
	say := func(cond bdd.Node, msg string) {
		if cond != bdd.False {
			w, _ := c.Witness(cond)
			rs.violations = append(rs.violations, msg+" - e.g. when {"+strings.Join(c.DescribeAssignment(w), " ")+"}")
		}
	}
	// the loop-carried CPU locations: value entering the loop / value after an iteration
	replInit, replBack := map[string]dom.BV{}, map[string]dom.BV{}
	for _, k := range ls.Carried {
		name := "loop1.mem(" + k + ")"
		if bv, ok := ls.CarriedInit[k].(dom.BV); ok {
			replInit[name] = bv
		}
		if bv, ok := ls.CarriedBack[k].(dom.BV); ok {
			replBack[name] = bv
		}
		_, path := absint.SplitKey(k)
		for i, p := range paths {
			if p != path {
				continue
			}
			if bv, ok := ls.CarriedBack[k].(dom.BV); !ok || !bv.Equal(c.Atom(fmt.Sprintf("PostStep%d(%s)", stepN, p), widths[i])) {
				rs.violations = append(rs.violations, "Run's loop changes CPU."+p+" after Step")
			}
		}
	}
	if os.Getenv("VERIF_DEBUG") != "" {
		for k, v := range replInit {
			fmt.Fprintln(os.Stderr, "carried init", k, c.Describe(v))
		}
		for k, v := range replBack {
			fmt.Fprintln(os.Stderr, "carried back", k, c.Describe(v))
		}
	}
	atFirst := func(f bdd.Node) bdd.Node { return c.Subst(f, replInit) } // at the first header
	atNext := func(f bdd.Node) bdd.Node { return c.Subst(f, replBack) }  // at the header after an iteration
	// returns before / after the Step of the iteration
	pre := func(f bdd.Node) bdd.Node { return M.And(M.And(entry, f), M.Not(gStep)) }
	post := func(f bdd.Node) bdd.Node { return M.And(M.And(entry, f), gStep) }
	cancel := pre(pCtx)                                     // the iteration does not Step because it saw the cancellation
	preExit := M.Or(pre(pNil), M.Or(pre(pBP), pre(pOther))) // any other return before the Step
	say(M.And(ls.BackPred, M.Not(gStep)), "an iteration can go round without calling Step")
	say(post(pCtx), "the context's error is returned after the Step of an iteration (only a test before the Step may return it)")
	say(atFirst(preExit), "Run can return before its first Step for a reason other than cancellation (a stale halted indication, a breakpoint on the start address): zero Steps")
	// every iteration consults a fresh observation of the cancellation state,
	// and the decision depends on nothing else (not on the CPU, not on a counter)
	if cancel == bdd.False {
		rs.violations = append(rs.violations, "no iteration of the loop can observe cancellation (the test is not inside the loop): a tight program loop never returns after the context is cancelled")
	}
	entryAtoms := map[string]bool{}
	for _, a := range c.AtomsIn(entry) {
		entryAtoms[a] = true
	}
	// a context whose Done() is nil can never be cancelled, so a poll that is
	// skipped for it misses nothing: the rules below are judged for contexts that
	// can be cancelled (Done() != nil) - the decision must hold up under that
	// assumption, not merely mention it
	cancellable := bdd.True
	for _, a := range c.AtomsIn(cancel) {
		if strings.HasPrefix(a, "IsNil(done:") {
			cancellable = M.And(cancellable, M.Not(c.Atom(a, 1)[0]))
		}
	}
	cancelC := cancel
	if cancellable != bdd.True {
		if M.And(cancel, cancellable) == bdd.False {
			rs.violations = append(rs.violations, "cancellation is only looked for when the context's Done() is nil (a context that can never be cancelled): a cancellable context is never observed")
		} else {
			cancelC = M.Constrain(cancel, M.And(entry, cancellable))
		}
	}
	freshObs := false
	notCancel := M.And(M.And(entry, M.Not(cancel)), M.Not(preExit)) // = the iteration Steps
	for _, a := range c.AtomsIn(cancelC) {
		obs := false
		for _, pre := range []string{"atomic.Load@", "shared(", "ctx.Err@", "atomic.Pointer@", "ctx.Done-ready@", "chan-ready(", "IsNil(recv(", "IsNil(ctx.Err@", "IsNil(shared(", "IsNil(atomic.Pointer@"} {
			if strings.HasPrefix(a, pre) {
				obs = true
			}
		}
		switch {
		case strings.HasPrefix(a, "IsNil(done:"):
			// a context whose Done() is nil can never be cancelled: nothing to observe
		case strings.HasPrefix(a, "loop1.mem("):
			// a header test may come before the cancellation test (for !cpu.HALT { poll }): judged just below
		case strings.HasPrefix(a, "PostStep") || strings.HasPrefix(a, "Init("):
			rs.violations = append(rs.violations, "whether an iteration Steps depends on CPU state ("+a+"): zero Steps or a skipped Step become possible")
		case !obs:
			rs.violations = append(rs.violations, "whether an iteration tests cancellation depends on "+a+": not every iteration observes a cancellation")
		case !entryAtoms[a]:
			freshObs = true
		}
	}
	if cancel != bdd.False && !freshObs {
		rs.violations = append(rs.violations, "the cancellation state is not re-read inside the loop")
	}
	// among the iterations that get past the tests of the loop header, whether the
	// cancellation is honoured depends on the observation only - not on the CPU
	// (a poll made only when some register has a certain value skips iterations)
	reachPoll := M.And(entry, M.Not(preExit))
	if cancel != bdd.False && reachPoll != bdd.False {
		for _, a := range c.AtomsIn(M.Constrain(cancel, M.And(reachPoll, cancellable))) {
			if strings.HasPrefix(a, "loop1.mem(") || strings.HasPrefix(a, "PostStep") || strings.HasPrefix(a, "Init(") {
				rs.violations = append(rs.violations, "whether an iteration tests cancellation depends on CPU state ("+a+"): iterations can go by without observing a cancellation")
			}
		}
	}
	// whenever the iteration neither returns early nor is cancelled, it Steps
	say(M.Xor(gStep, notCancel), "an iteration that is not cancelled must Step")
	// 2. after the Step - including the tests the next loop header makes before
	// anything else: breakpoint first, then HALT, else the next iteration
	bpEff := M.Or(post(pBP), M.And(ls.BackPred, atNext(pre(pBP))))
	nilEff := M.Or(post(pNil), M.And(ls.BackPred, atNext(pre(pNil))))
	othEff := M.Or(post(pOther), M.And(ls.BackPred, atNext(pre(pOther))))
	contEff := M.And(ls.BackPred, M.Not(atNext(preExit)))
	say(M.Xor(bpEff, M.And(gStep, bpPresent)), "ErrBreakPoint must be returned exactly when the Step of this iteration left PC in BreakPoints")
	say(M.Xor(nilEff, M.And(gStep, M.And(M.Not(bpPresent), halt))), "nil must be returned exactly when the Step of this iteration executed HALT and PC is not a breakpoint")
	say(M.Xor(contEff, M.And(gStep, M.And(M.Not(bpPresent), M.Not(halt)))), "the loop must continue exactly when the Step hit no breakpoint and executed no HALT")
	say(othEff, "Run returns something other than nil, ErrBreakPoint or the context's error")
	// publication by closing a channel Run polls: the close happens on exactly the
	// paths that saw the context done, after the plain stores
	for _, w := range watchers {
		pubByClose := false
		for dev, pos := range polled {
			g, closesIt := w.closes[dev]
			if gs, sendsIt := w.sends[dev]; sendsIt && !closesIt {
				g, closesIt = gs, true
			}
			if !closesIt {
				continue
			}
			pubByClose = true
			published[dev] = true
			if M.And(g, M.Not(w.seenCancel)) != bdd.False {
				rs.watch = append(rs.watch, pos+": the channel Run polls ("+dev+") is closed or posted on by the goroutine on a path on which it has not seen the context done")
			}
			if M.And(w.seenCancel, M.Not(g)) != bdd.False {
				rs.watch = append(rs.watch, pos+": on some path the goroutine sees the context done and neither closes nor posts on the channel Run polls ("+dev+")")
			}
			if at, bad := w.storeAfterClose[dev]; bad {
				rs.race = append(rs.race, at+": a shared cell is written after the channel Run polls was closed: Run can read it before it is written (data race)")
			}
		}
		if !w.sawPub && !pubByClose {
			rs.watch = append(rs.watch, w.pos+": the goroutine never publishes the cancellation (no atomic store, no close of a channel Run polls)")
		}
	}
	senders := map[string]int{}
	for _, w := range watchers {
		for dev := range w.sends {
			senders[dev]++
		}
	}
	for dev, n := range senders {
		if n > 1 {
			rs.watch = append(rs.watch, fmt.Sprintf("%d goroutines send on %s: the buffer has room for one of them only", n, dev))
		}
	}
	for dev, pos := range polled {
		closedBySomeone := false
		for _, w := range watchers {
			if _, ok := w.closes[dev]; ok {
				closedBySomeone = true
			}
			if _, ok := w.sends[dev]; ok {
				closedBySomeone = true
			}
		}
		if !closedBySomeone {
			rs.watch = append(rs.watch, pos+": Run polls "+dev+", which no goroutine closes or posts on")
		}
	}
	// hand-off, run side
	if rs.hasWatcher {
		for cell := range published {
			if !atomLoaded[cell] {
				rs.race = append(rs.race, "Run does not atomically load the cell the goroutine publishes through ("+cell+")")
			}
		}
		for cell := range atomLoaded {
			if !published[cell] && shared[cell] != "" {
				rs.race = append(rs.race, "the goroutine does not atomically store the cell Run loads ("+cell+")")
			}
		}
		for cell := range plainStored {
			if atomLoaded[cell] {
				rs.race = append(rs.race, "the goroutine writes "+cell+" with a plain store while Run loads it atomically")
			}
		}
		for i := range tr.Events {
			if e := &tr.Events[i]; e.Kind == "shared.store" {
				rs.race = append(rs.race, e.Pos+": Run itself writes "+e.Dev+" after the goroutine has started (races with the goroutine)")
			}
		}
		for _, pl := range plainLoads {
			if atomLoaded[pl.root] || published[pl.root] {
				rs.race = append(rs.race, "Run reads the published cell "+pl.root+" with a plain load (data race with the goroutine's store)")
				continue
			}
			if M.And(pl.pred, M.Not(cancel)) != bdd.False && plainStored[pl.root] {
				rs.race = append(rs.race, "Run reads "+pl.root+", which the goroutine writes, on a path that has not observed the published flag (unsynchronised read)")
			}
		}
		// Run itself must not write the published cell once the goroutine exists
		// (a reset of the flag can lose a cancellation)
		started := false
		for i := range tr.Events {
			e := &tr.Events[i]
			switch {
			case e.Kind == "go" || e.Kind == "afterfunc":
				started = true
			case started && strings.HasPrefix(e.Kind, "atomic.store") && (published[e.Dev] || atomLoaded[e.Dev]):
				rs.race = append(rs.race, e.Pos+": Run itself stores to the published cell "+e.Dev+" after the goroutine has started (a cancellation can be lost)")
			}
		}
		// no leak: whatever ends the goroutine's wait (the derived context's
		// cancellation, the close of a channel it selects on) happens on every return
		// on which the goroutine was started
		trigger := func(w *watcherInfo, upTo int) bdd.Node {
			covered := bdd.False
			for i := range tr.Events {
				if upTo >= 0 && i >= upTo {
					break
				}
				e := &tr.Events[i]
				switch {
				case e.Kind == "deferred:cancel" && w.releaseByCancel:
					covered = M.Or(covered, e.Guard)
				case e.Kind == "chan.close":
					for _, r := range w.release {
						if r == e.Dev {
							covered = M.Or(covered, e.Guard)
						}
					}
				}
			}
			return covered
		}
		for _, w := range watchers {
			if !w.goroutine {
				continue // registered with context.AfterFunc only: no goroutine exists while waiting
			}
			covered := trigger(w, -1)
			for _, rt := range in.TopReturns {
				if M.And(M.And(M.And(rt.Pred, notBack), w.goGuard), M.Not(covered)) != bdd.False {
					what := "cancelling the context its goroutine waits on (the derived context's CancelFunc is not run on every return)"
					if len(w.release) > 0 {
						what = "closing the channel that ends its goroutine (" + strings.Join(w.release, ", ") + ") or " + what
					}
					rs.leak = append(rs.leak, "Run can return without "+what+": the goroutine is left behind")
					break
				}
			}
		}
		// closes: Run closes a channel at most once, and never one the goroutine closes
		closed := map[string]bdd.Node{}
		for i := range tr.Events {
			e := &tr.Events[i]
			if e.Kind != "chan.close" {
				continue
			}
			if M.And(e.Guard, closed[e.Dev]) != bdd.False {
				rs.watch = append(rs.watch, e.Pos+": Run can close "+e.Dev+" twice (panic)")
			}
			closed[e.Dev] = M.Or(closed[e.Dev], e.Guard)
			for _, w := range watchers {
				if _, both := w.closes[e.Dev]; both {
					rs.watch = append(rs.watch, e.Pos+": "+e.Dev+" is closed by Run and by the goroutine (panic)")
				}
			}
			isRelease := false
			for _, w := range watchers {
				for _, r := range w.release {
					isRelease = isRelease || r == e.Dev
				}
			}
			if !isRelease {
				rs.watch = append(rs.watch, e.Pos+": Run closes "+e.Dev+", which no goroutine waits on (outside the protocol)")
			}
		}
		// waits: Run may wait for the goroutine to be gone, after it has told it to go
		for i := range tr.Events {
			e := &tr.Events[i]
			switch e.Kind {
			case "chan.recv", "wg.wait":
				if e.Kind == "chan.recv" && !strings.HasPrefix(e.Dev, "chan#") {
					rs.watch = append(rs.watch, e.Pos+": Run blocks on "+e.Dev)
					continue
				}
				okWait := false
				for _, w := range watchers {
					sig := w.closes[e.Dev]
					if e.Kind == "wg.wait" {
						sig = w.wgDone[e.Dev]
					}
					if _, has := w.closes[e.Dev]; e.Kind == "chan.recv" && !has {
						continue
					}
					if _, has := w.wgDone[e.Dev]; e.Kind == "wg.wait" && !has {
						continue
					}
					switch {
					case M.And(w.goGuard, M.Not(sig)) != bdd.False:
						rs.leak = append(rs.leak, e.Pos+": Run waits for a signal the goroutine does not give on every one of its paths: Run can hang")
					case M.And(e.Guard, M.Not(w.goGuard)) != bdd.False:
						rs.leak = append(rs.leak, e.Pos+": Run waits for the goroutine to exit on a path on which none was started: Run hangs")
					case M.And(e.Guard, M.Not(trigger(w, i))) != bdd.False:
						rs.leak = append(rs.leak, e.Pos+": Run waits for the goroutine to exit before it has told it to: Run hangs until the caller cancels")
					default:
						okWait = true
					}
				}
				if !okWait {
					rs.leak = append(rs.leak, e.Pos+": Run blocks ("+e.Kind+" "+e.Dev+") on something no goroutine is shown to signal on all its paths")
				}
			case "wg.add":
				// one Add(1) per goroutine, on exactly the paths that start it
				okAdd := false
				if k, isc := e.Args[0].IsConst(); isc && k == 1 {
					for _, w := range watchers {
						if _, has := w.wgDone[e.Dev]; has && w.goGuard == e.Guard {
							okAdd = true
						}
					}
				}
				if !okAdd {
					rs.leak = append(rs.leak, e.Pos+": WaitGroup.Add is not matched by exactly one goroutine that calls Done (Wait can hang or the counter go negative)")
				}
			case "wg.done", "chan.send":
				rs.watch = append(rs.watch, e.Pos+": "+e.Kind+" in Run (outside the protocol)")
			case "select":
				rs.watch = append(rs.watch, e.Pos+": blocking select in Run (outside the protocol)")
			}
		}
		for _, w := range watchers {
			for dev := range w.wgDone {
				n := 0
				for i := range tr.Events {
					if e := &tr.Events[i]; e.Kind == "wg.add" && e.Dev == dev {
						n++
					}
				}
				if n != 1 {
					rs.leak = append(rs.leak, fmt.Sprintf("%s: the goroutine calls Done on a WaitGroup Run adds to %d times (exactly one Add(1) expected)", w.pos, n))
				}
			}
			for _, p := range w.selects {
				rs.okSelects[p] = true
			}
			for _, p := range w.sendPos {
				rs.okSelects[p] = true
			}
			// a channel the goroutine sends on is closed by nobody (a send on a closed channel panics)
			for dev := range w.sends {
				if _, c1 := w.closes[dev]; c1 {
					rs.watch = append(rs.watch, w.pos+": the goroutine sends on and closes "+dev+" (panic)")
				}
				if _, c2 := closed[dev]; c2 {
					rs.watch = append(rs.watch, w.pos+": Run closes "+dev+", on which the goroutine sends (panic)")
				}
			}
		}
	}
	if carried == nil {
		for _, k := range ls.StoreChanged {
			root, path := absint.SplitKey(k)
			if l := cx.E.LeafByPath(path); root == "cpu" && l != nil && l.Width > 0 {
				changed = append(changed, absint.CarriedLoc{Key: k, Type: l.Type})
			}
		}
	}
	// at every return the CPU is as the last Step (or the caller) left it: Run
	// itself changes nothing after the loop either (HALT:=false on entry apart)
	for _, rt := range in.TopReturns {
		if rt.State == nil || M.And(rt.Pred, entry) == bdd.False {
			continue
		}
		for i, p := range paths {
			v, ok := rt.State.Get("cpu", p)
			bv, isBV := v.(dom.BV)
			if !ok || !isBV {
				continue
			}
			okv := bv.Equal(c.Atom(fmt.Sprintf("PostStep%d(%s)", stepN, p), widths[i])) || bv.Equal(c.Atom("Init("+p+")", widths[i])) ||
				bv.Equal(c.Atom("loop1.mem(cpu|"+p+")", widths[i])) || (p == "HALT" && bv.Equal(c.Const(1, 0)))
			if !okv {
				// a value merged from those (different paths to the return) is fine as well
				sup := c.AtomsIn(bv...)
				okv = true
				for _, a := range sup {
					if a != fmt.Sprintf("PostStep%d(%s)", stepN, p) && a != "Init("+p+")" && a != "loop1.mem(cpu|"+p+")" && !strings.HasPrefix(a, "atomic.") && !strings.HasPrefix(a, "IsNil(") && !strings.HasPrefix(a, "ctx.") && !strings.HasPrefix(a, "shared(") && !strings.HasPrefix(a, "map.get") && !strings.HasPrefix(a, "PostStep") {
						okv = false
					}
				}
				// ... but it must be one of them on each path: evaluate under the return's predicate
				post := c.Atom(fmt.Sprintf("PostStep%d(%s)", stepN, p), widths[i])
				ini := c.Atom("Init("+p+")", widths[i])
				car := c.Atom("loop1.mem(cpu|"+p+")", widths[i])
				isOne := M.Or(c.Eq(bv, post), M.Or(c.Eq(bv, ini), c.Eq(bv, car)))
				if p == "HALT" {
					isOne = M.Or(isOne, c.IsZero(bv))
				}
				if M.And(rt.Pred, M.Not(isOne)) != bdd.False {
					okv = false
				}
			}
			if !okv {
				rs.violations = append(rs.violations, "Run changes CPU."+p+" itself before it returns ("+c.Describe(bv)+")")
			}
		}
	}
	// ... and that holds for the fields that are not integers as well (the pending
	// request, the attachments, the handlers, the breakpoint set) and for what
	// they point to: whatever Run has stored there by the time it returns is the
	// value that was there
	intLeaf := map[string]bool{}
	for _, p := range paths {
		intLeaf[p] = true
	}
	for _, rt := range in.TopReturns {
		if rt.State == nil || rt.Pred == bdd.False {
			continue
		}
		for _, k := range rt.State.Keys() {
			root, path := absint.SplitKey(k)
			if !(root == "cpu" && !intLeaf[path]) && !(strings.HasPrefix(root, "*") && !strings.HasPrefix(root, "*atomic.Pointer")) {
				continue
			}
			v, _ := rt.State.Get(root, path)
			if iv, ok := in.InitValueOf(root, path); ok && absint.SameValue(v, iv) {
				continue
			}
			what := "CPU." + path
			if root != "cpu" {
				what = "(" + root + ")." + path
			}
			rs.violations = append(rs.violations, "Run itself changes "+what+" before it returns (a pending request, an attachment, a handler or the breakpoint set is not what the last Step left)")
		}
	}
	// 3. inside the loop the CPU is changed by Step only
	for _, k := range ls.StoreChanged {
		root, path := absint.SplitKey(k)
		if root != "cpu" {
			continue
		}
		l := cx.E.LeafByPath(path)
		if l == nil || l.Width == 0 {
			rs.violations = append(rs.violations, "Run's loop stores to CPU."+path)
			continue
		}
	}
	if ls.BackState != nil {
		for i, p := range paths {
			v, ok := ls.BackState.Get("cpu", p)
			if bv, isBV := v.(dom.BV); ok && isBV && !bv.Equal(c.Atom(fmt.Sprintf("PostStep%d(%s)", stepN, p), widths[i])) {
				rs.violations = append(rs.violations, "Run's loop changes CPU."+p+" after Step")
			}
		}
	}
	// 4. before the loop: the stale halted indication is discarded, nothing else
	// (checked on the state at loop entry through the loop summary's init state)
	rs.notes = append(rs.notes, fmt.Sprintf("Step guard, returns and back edge compared as boolean functions of %d atoms", c.NumAtoms()))
	rs.returns[retCtx] = boolInt(pCtx != bdd.False)
	rs.returns[retBP] = boolInt(pBP != bdd.False)
	rs.returns[retNil] = boolInt(pNil != bdd.False)
	rs.returns[retElse] = boolInt(pOther != bdd.False)
	// entry state
	if hv := in.EntryStateOf(ls, "cpu", "HALT"); hv != nil {
		if bv, ok := hv.(dom.BV); !ok || !bv.Equal(c.Const(1, 0)) {
			rs.violations = append(rs.violations, "the stale halted indication is not discarded before the first iteration")
		}
	} else {
		rs.violations = append(rs.violations, "the stale halted indication is not discarded before the first iteration")
	}
	for _, k := range in.EntryKeysOf(ls) {
		root, path := absint.SplitKey(k)
		if root == "cpu" && path != "HALT" {
			rs.violations = append(rs.violations, "Run changes CPU."+path+" before its first Step")
		}
	}
	return rs, changed
}

func boolInt(b bool) int {
	if b {
		return 1
	}
	return 0
}

// callersCtx: the symbolic name of the context Run was given, or of one derived
// from it with context.WithCancel.
func callersCtx(sym string) bool { return sym == "ctx" || sym == "ctx.derived" }
