package checks

import (
	"fmt"
	"go/constant"
	"go/token"
	"go/types"
	"os"
	"sort"
	"strings"

	"golang.org/x/tools/go/ssa"

	"verif/internal/engine"
	"verif/internal/ev"
	"verif/internal/load"
	"verif/internal/rules"
)

func init() {
	register("C08", "proof", true, c08)
	register("C13", "other", true, c13)
}

// ---------------------------------------------------------------------------
// recognisers (resolved objects, never text)

type runInfo struct {
	cx   *Ctx
	run  *ssa.Function
	cpu  *ssa.Parameter
	ctx  *ssa.Parameter
	step *ssa.Function

	// cancellation machinery
	withCancel  *ssa.Call     // context.WithCancel(ctx) (nil if absent)
	derivedCtx  ssa.Value     // extract #0
	cancelFn    ssa.Value     // extract #1
	goInstr     *ssa.Go       // the watcher start
	closure     *ssa.Function // watcher body
	bindings    []ssa.Value
	depth       int
	flagCell    ssa.Value // *int32 cell accessed atomically
	errCell     ssa.Value // *error cell written by the watcher
	deferInstr  *ssa.Defer
	otherDefers []string
}

func deref(v ssa.Value) ssa.Value {
	if u, ok := v.(*ssa.UnOp); ok && u.Op == token.MUL {
		return u.X
	}
	return nil
}

// cpuField returns the dotted path if addr is a FieldAddr chain rooted at the
// receiver parameter.
func (ri *runInfo) cpuField(addr ssa.Value) (string, bool) {
	var path []string
	v := addr
	for {
		fa, ok := v.(*ssa.FieldAddr)
		if !ok {
			break
		}
		st := fa.X.Type().Underlying().(*types.Pointer).Elem().Underlying().(*types.Struct)
		fd := st.Field(fa.Field)
		if !fd.Embedded() {
			path = append([]string{fd.Name()}, path...)
		}
		v = fa.X
	}
	if v != ssa.Value(ri.cpu) || len(path) == 0 {
		return "", false
	}
	return strings.Join(path, "."), true
}

func (ri *runInfo) loadOfCPUField(v ssa.Value) (string, *ssa.UnOp, bool) {
	u, ok := v.(*ssa.UnOp)
	if !ok || u.Op != token.MUL {
		return "", nil, false
	}
	p, ok := ri.cpuField(u.X)
	return p, u, ok
}

func calleeName(c *ssa.CallCommon) string {
	if f := c.StaticCallee(); f != nil {
		return f.String()
	}
	return ""
}

func isAtomicLoad(c *ssa.CallCommon) bool {
	n := calleeName(c)
	return strings.HasPrefix(n, "sync/atomic.Load") || strings.HasPrefix(n, "(*sync/atomic.") && strings.HasSuffix(n, ").Load")
}

func isAtomicStore(c *ssa.CallCommon) bool {
	n := calleeName(c)
	return strings.HasPrefix(n, "sync/atomic.Store") || strings.HasPrefix(n, "(*sync/atomic.") && strings.HasSuffix(n, ").Store") ||
		strings.HasPrefix(n, "sync/atomic.CompareAndSwap") || strings.HasPrefix(n, "sync/atomic.Swap") || strings.HasPrefix(n, "sync/atomic.Add")
}

func isContextType(t types.Type) bool {
	n, ok := t.(*types.Named)
	return ok && n.Obj().Pkg() != nil && n.Obj().Pkg().Path() == "context" && n.Obj().Name() == "Context"
}

// ctxOrigin traces a context.Context value back: "param" (the ctx argument),
// "derived" (the WithCancel result) or "".
func (ri *runInfo) ctxOrigin(v ssa.Value, fn *ssa.Function) string {
	for depth := 0; depth < 6; depth++ {
		switch {
		case v == ssa.Value(ri.ctx):
			return "param"
		case ri.derivedCtx != nil && v == ri.derivedCtx:
			return "derived"
		}
		cell := deref(v)
		if cell == nil {
			return ""
		}
		// a free variable of the watcher: map to the binding in Run
		if fv, ok := cell.(*ssa.FreeVar); ok && fn == ri.closure {
			for i, f := range fn.FreeVars {
				if f == fv && i < len(ri.bindings) {
					cell = ri.bindings[i]
				}
			}
		}
		// the cell must be assigned exactly once, in Run
		var stored ssa.Value
		n := 0
		if refs := cell.Referrers(); refs != nil {
			for _, r := range *refs {
				if s, ok := r.(*ssa.Store); ok && s.Addr == cell {
					stored = s.Val
					n++
				}
			}
		}
		if n != 1 {
			return ""
		}
		v = stored
	}
	return ""
}

func (ri *runInfo) resolveCell(v ssa.Value, fn *ssa.Function) ssa.Value {
	if fv, ok := v.(*ssa.FreeVar); ok && fn == ri.closure {
		for i, f := range fn.FreeVars {
			if f == fv && i < len(ri.bindings) {
				return ri.bindings[i]
			}
		}
	}
	return v
}

func analyseRun(cx *Ctx) (*runInfo, error) {
	run := cx.P.Method(load.ModulePath, "CPU", "Run")
	if run == nil || run.Blocks == nil {
		return nil, fmt.Errorf("UNRESOLVED anchor: method (*CPU).Run")
	}
	ri := &runInfo{cx: cx, run: run, step: cx.E.Step}
	for _, p := range run.Params {
		switch {
		case p == run.Params[0]:
			ri.cpu = p
		case isContextType(p.Type()):
			ri.ctx = p
		}
	}
	if ri.cpu == nil || ri.ctx == nil {
		return nil, fmt.Errorf("UNRESOLVED anchor: Run(ctx context.Context) signature")
	}
	for _, b := range run.Blocks {
		for _, in := range b.Instrs {
			switch x := in.(type) {
			case *ssa.Call:
				if (calleeName(&x.Call) == "context.WithCancel" || calleeName(&x.Call) == "context.WithCancelCause") && len(x.Call.Args) > 0 && x.Call.Args[0] == ssa.Value(ri.ctx) {
					// (derived from the caller's context itself: anything else does not see
					// the caller's cancellation and is not recognised as the derived context)
					ri.withCancel = x
					for _, r := range *x.Referrers() {
						if e, ok := r.(*ssa.Extract); ok {
							if e.Index == 0 {
								ri.derivedCtx = e
							} else {
								ri.cancelFn = e
							}
						}
					}
				}
			case *ssa.Go:
				ri.goInstr = x
				if mc, ok := x.Call.Value.(*ssa.MakeClosure); ok {
					ri.closure, _ = mc.Fn.(*ssa.Function)
					ri.bindings = mc.Bindings
				}
			case *ssa.Defer:
				if ri.cancelFn != nil && x.Call.Value == ri.cancelFn {
					ri.deferInstr = x
				} else if f := x.Call.StaticCallee(); f == nil || load.InModule(f) {
					// a deferred function of the module can rewrite named results or the
					// CPU after the loop: outside what the CFG automaton sees
					ri.otherDefers = append(ri.otherDefers, cx.P.Pos(x.Pos()))
				}
			}
		}
	}
	return ri, nil
}

// ---------------------------------------------------------------------------
// the automaton

const (
	qInit    = iota // before the stale halted indication is discarded
	qTop            // loop head: a cancellation check is due
	qCancel         // cancellation observed: must return the context's error
	qChecked        // check passed: exactly one Step is due
	qStepped        // Step done: breakpoint test due (on the new PC)
	qBP             // PC is a breakpoint: must return ErrBreakPoint
	qNoBP           // no breakpoint: HALT test due
	qHalt           // halted: must return nil
)

var qNames = []string{"entry", "loop-head", "cancelled", "checked", "stepped", "breakpoint-hit", "no-breakpoint", "halted"}

type autoResult struct {
	violations []string // with positions
	accepted   map[string]int
	visited    int
	// epochs in which the loads feeding the stop tests were executed
	loadStates map[ssa.Instruction]map[int]bool
	usedLoads  map[ssa.Instruction]string
	events     []string
	hasCheck   bool
}

type condClass struct {
	kind  string // cancel | bpnil | bp | halt | ""
	truth bool   // meaning of the If's true successor: cancelled / map non-nil / is breakpoint / halted
	loads []ssa.Instruction
}

// classifyCond recognises the tests of Run's loop.
func (ri *runInfo) classifyCond(v ssa.Value) condClass {
	neg := false
	for {
		if u, ok := v.(*ssa.UnOp); ok && u.Op == token.NOT {
			neg = !neg
			v = u.X
			continue
		}
		break
	}
	// halted indication: load of cpu.HALT
	if p, u, ok := ri.loadOfCPUField(v); ok && p == "HALT" {
		return condClass{kind: "halt", truth: !neg, loads: []ssa.Instruction{u}}
	}
	// comma-ok map lookup in cpu.BreakPoints keyed by cpu.PC
	if e, ok := v.(*ssa.Extract); ok && e.Index == 1 {
		if lk, ok := e.Tuple.(*ssa.Lookup); ok && lk.CommaOk {
			mp, mu, ok1 := ri.loadOfCPUField(lk.X)
			kp, ku, ok2 := ri.loadOfCPUField(lk.Index)
			if ok1 && ok2 && mp == "BreakPoints" && kp == "PC" {
				return condClass{kind: "bp", truth: !neg, loads: []ssa.Instruction{mu, ku}}
			}
		}
	}
	if b, ok := v.(*ssa.BinOp); ok && (b.Op == token.NEQ || b.Op == token.EQL) {
		isNE := b.Op == token.NEQ
		x, y := b.X, b.Y
		if isNilConst(x) || isZeroConst(x) {
			x, y = y, x
		}
		// cpu.BreakPoints != nil
		if isNilConst(y) {
			if p, u, ok := ri.loadOfCPUField(x); ok && p == "BreakPoints" {
				return condClass{kind: "bpnil", truth: isNE != neg, loads: []ssa.Instruction{u}}
			}
			// ctx.Err() != nil
			if c, ok := x.(*ssa.Call); ok && c.Call.IsInvoke() && c.Call.Method.Name() == "Err" && ri.ctxOrigin(c.Call.Value, ri.run) != "" {
				return condClass{kind: "cancel", truth: isNE != neg}
			}
		}
		// atomic flag != 0
		if isZeroConst(y) {
			if c, ok := x.(*ssa.Call); ok && isAtomicLoad(&c.Call) {
				if len(c.Call.Args) > 0 {
					ri.flagCell = c.Call.Args[0]
				}
				return condClass{kind: "cancel", truth: isNE != neg}
			}
		}
	}
	// a pure helper method of the CPU whose result is one of the tests above
	// (e.g. cpu.atBreakPoint()): classified through its return values; its
	// loads execute at the call
	if c, ok := v.(*ssa.Call); ok && ri.depth < 3 {
		if cal := c.Call.StaticCallee(); cal != nil && cal != ri.step && load.InModule(cal) && cal.Blocks != nil &&
			len(c.Call.Args) > 0 && c.Call.Args[0] == ssa.Value(ri.cpu) && len(cal.Params) > 0 && pureHelper(cal) {
			sub := &runInfo{cx: ri.cx, run: cal, cpu: cal.Params[0], ctx: ri.ctx, step: ri.step, depth: ri.depth + 1}
			var vals []ssa.Value
			for _, b := range cal.Blocks {
				for _, in := range b.Instrs {
					if r, ok := in.(*ssa.Return); ok && len(r.Results) == 1 {
						vals = append(vals, flattenPhi(r.Results[0], 0)...)
					}
				}
			}
			var agg condClass
			okAll := len(vals) > 0
			for _, rv := range vals {
				if k, isC := rv.(*ssa.Const); isC && k.Value != nil && k.Value.Kind() == constant.Bool {
					continue // checked against the classification below
				}
				cc := sub.classifyCond(rv)
				if cc.kind == "" || agg.kind != "" && (agg.kind != cc.kind || agg.truth != cc.truth) {
					okAll = false
					break
				}
				agg = cc
			}
			if okAll && agg.kind != "" {
				for _, rv := range vals {
					if k, isC := rv.(*ssa.Const); isC && k.Value != nil && k.Value.Kind() == constant.Bool {
						// a constant result must mean "condition does not hold"
						if constant.BoolVal(k.Value) == agg.truth {
							okAll = false
						}
					}
				}
			}
			if okAll && agg.kind != "" {
				return condClass{kind: agg.kind, truth: agg.truth != neg, loads: []ssa.Instruction{c}}
			}
		}
	}
	// atomic.Bool.Load()
	if c, ok := v.(*ssa.Call); ok && isAtomicLoad(&c.Call) {
		if len(c.Call.Args) > 0 {
			ri.flagCell = c.Call.Args[0]
		}
		return condClass{kind: "cancel", truth: !neg}
	}
	return condClass{}
}

// pureHelper: no stores (except to locals), no calls except builtins.
func pureHelper(fn *ssa.Function) bool { return pureHelperD(fn, 0) }

func pureHelperD(fn *ssa.Function, depth int) bool {
	if depth > 3 {
		return false
	}
	for _, b := range fn.Blocks {
		for _, in := range b.Instrs {
			switch x := in.(type) {
			case *ssa.Store:
				if _, ok := x.Addr.(*ssa.Alloc); !ok {
					return false
				}
			case ssa.CallInstruction:
				if _, ok := x.Common().Value.(*ssa.Builtin); ok {
					continue
				}
				if cal := x.Common().StaticCallee(); cal != nil && load.InModule(cal) && cal.Blocks != nil && cal != fn && pureHelperD(cal, depth+1) {
					continue
				}
				return false
			case *ssa.MapUpdate, *ssa.Send, *ssa.Go, *ssa.Defer, *ssa.Panic:
				return false
			}
		}
	}
	return true
}

func flattenPhi(v ssa.Value, depth int) []ssa.Value {
	if p, ok := v.(*ssa.Phi); ok && depth < 4 {
		var out []ssa.Value
		for _, e := range p.Edges {
			out = append(out, flattenPhi(e, depth+1)...)
		}
		return out
	}
	return []ssa.Value{v}
}

func isZeroConst(v ssa.Value) bool {
	c, ok := v.(*ssa.Const)
	if !ok || c.Value == nil {
		return false
	}
	if c.Value.Kind() != constant.Int {
		return false
	}
	i, ok := constant.Int64Val(c.Value)
	return ok && i == 0
}

// returnClass classifies the value a Return hands back, looking through the
// named-result spill that defer introduces.
func (ri *runInfo) returnClass(ret *ssa.Return) string {
	if len(ret.Results) != 1 {
		return "other"
	}
	v := ret.Results[0]
	if u, ok := v.(*ssa.UnOp); ok && u.Op == token.MUL {
		if al, ok := u.X.(*ssa.Alloc); ok {
			// last store to the spill cell in this block
			var last ssa.Value
			for _, in := range ret.Block().Instrs {
				if s, ok := in.(*ssa.Store); ok && s.Addr == ssa.Value(al) {
					last = s.Val
				}
			}
			if last != nil {
				v = last
			}
		}
	}
	if isNilConst(v) {
		return "nil"
	}
	if u, ok := v.(*ssa.UnOp); ok && u.Op == token.MUL {
		if g, ok := u.X.(*ssa.Global); ok {
			if g.Name() == "ErrBreakPoint" && g.Pkg.Pkg.Path() == load.ModulePath {
				return "ErrBreakPoint"
			}
			return "global " + g.Name()
		}
		// the error cell the watcher fills
		ri.errCell = u.X
		if _, ok := u.X.(*ssa.Alloc); ok {
			return "ctxerr"
		}
	}
	if c, ok := v.(*ssa.Call); ok && c.Call.IsInvoke() && (c.Call.Method.Name() == "Err") && ri.ctxOrigin(c.Call.Value, ri.run) != "" {
		return "ctxerr"
	}
	if c, ok := v.(*ssa.Call); ok && calleeName(&c.Call) == "context.Cause" {
		return "ctxerr"
	}
	return "other"
}

func (ri *runInfo) explore() *autoResult {
	res := &autoResult{accepted: map[string]int{}, loadStates: map[ssa.Instruction]map[int]bool{}, usedLoads: map[ssa.Instruction]string{}}
	type node struct {
		b *ssa.BasicBlock
		q int
	}
	for _, d := range ri.otherDefers {
		res.violations = append(res.violations, d+": a deferred function of the module runs after the loop (it can rewrite the result or the CPU): outside the event vocabulary of the CFG automaton (UNDECIDED)")
	}
	seen := map[node]bool{}
	work := []node{{ri.run.Blocks[0], qInit}}
	viol := func(in ssa.Instruction, format string, args ...interface{}) {
		msg := fmt.Sprintf("%s: %s", ri.cx.P.Pos(in.Pos()), fmt.Sprintf(format, args...))
		for _, v := range res.violations {
			if v == msg {
				return
			}
		}
		res.violations = append(res.violations, msg)
	}
	for len(work) > 0 {
		n := work[len(work)-1]
		work = work[:len(work)-1]
		if seen[n] {
			continue
		}
		seen[n] = true
		res.visited++
		q := n.q
		dead := false
		for _, in := range n.b.Instrs {
			if dead {
				break
			}
			switch x := in.(type) {
			case *ssa.UnOp:
				if x.Op == token.MUL {
					if p, ok := ri.cpuField(x.X); ok {
						if res.loadStates[x] == nil {
							res.loadStates[x] = map[int]bool{}
						}
						res.loadStates[x][q] = true
						_ = p
					}
				}
			case *ssa.Store:
				if p, ok := ri.cpuField(x.Addr); ok {
					c, isC := x.Val.(*ssa.Const)
					if p == "HALT" && isC && c.Value != nil && c.Value.Kind() == constant.Bool && !constant.BoolVal(c.Value) {
						if q == qInit {
							q = qTop
						}
						// clearing it again later is harmless only before a Step of the iteration
						if q == qStepped || q == qNoBP || q == qHalt {
							viol(in, "the halted indication is cleared after Step (state %s): a HALT executed by that Step would be lost", qNames[q])
						}
					} else {
						viol(in, "Run stores to CPU.%s itself (only Step may change the CPU, apart from discarding the stale halted indication)", p)
					}
				}
			case *ssa.Call:
				if cal := x.Call.StaticCallee(); cal != nil && cal != ri.step && load.InModule(cal) && len(x.Call.Args) > 0 && x.Call.Args[0] == ssa.Value(ri.cpu) {
					if res.loadStates[x] == nil {
						res.loadStates[x] = map[int]bool{}
					}
					res.loadStates[x][q] = true
				}
				if x.Call.StaticCallee() == ri.step && len(x.Call.Args) > 0 && x.Call.Args[0] == ssa.Value(ri.cpu) {
					switch q {
					case qChecked:
						q = qStepped
					case qInit:
						viol(in, "Step before the stale halted indication is discarded")
						q = qStepped
					case qTop:
						viol(in, "Step without a cancellation check in this iteration")
						q = qStepped
					default:
						viol(in, "a second Step before the stop conditions of the previous one were examined (state %s)", qNames[q])
						q = qStepped
					}
				}
			case *ssa.If:
				cc := ri.classifyCond(x.Cond)
				tq, fq := q, q
				if cc.kind != "" {
					res.events = append(res.events, fmt.Sprintf("%s@%s", cc.kind, ri.cx.P.Pos(x.Pos())))
				}
				for _, l := range cc.loads {
					res.usedLoads[l] = cc.kind
				}
				set := func(meaning bool, to int) {
					if cc.truth == meaning {
						tq = to
					} else {
						fq = to
					}
				}
				switch cc.kind {
				case "cancel":
					res.hasCheck = true
					switch q {
					case qTop, qInit:
						if q == qInit {
							viol(in, "cancellation is tested before the stale halted indication is discarded")
						}
						set(true, qCancel)
						set(false, qChecked)
					case qChecked:
						set(true, qCancel)
						set(false, qChecked)
					default:
						viol(in, "cancellation is tested in state %s: returning here would hide the stop condition of the Step just executed", qNames[q])
						set(true, qCancel)
						set(false, q)
					}
				case "bpnil":
					if q == qStepped {
						set(true, qStepped)
						set(false, qNoBP) // a nil set has no members
					} else {
						viol(in, "BreakPoints examined in state %s (must be after the Step of the same iteration)", qNames[q])
					}
				case "bp":
					if q == qStepped {
						set(true, qBP)
						set(false, qNoBP)
					} else {
						viol(in, "breakpoint membership tested in state %s (must directly follow the Step, before the HALT test)", qNames[q])
						set(true, qBP)
						set(false, q)
					}
				case "halt":
					switch q {
					case qNoBP:
						set(true, qHalt)
						set(false, qTop)
					case qStepped:
						viol(in, "the halted indication is tested before the breakpoint set: when both hold the breakpoint must win")
						set(true, qHalt)
						set(false, qStepped)
					default:
						viol(in, "the halted indication is tested in state %s (zero Steps possible, or stale)", qNames[q])
						set(true, qHalt)
						set(false, q)
					}
				default:
					viol(in, "branch on an unrecognised condition in Run's loop (UNDECIDED: outside the event vocabulary)")
				}
				work = append(work, node{n.b.Succs[0], tq}, node{n.b.Succs[1], fq})
				dead = true
			case *ssa.Jump:
				if n.b.Succs[0].Index <= n.b.Index && q != qTop && q != qInit {
					// a back edge must start a fresh iteration
					if q != qTop {
						viol(in, "loop back edge taken in state %s: the iteration did not examine all stop conditions", qNames[q])
					}
				}
				work = append(work, node{n.b.Succs[0], q})
				dead = true
			case *ssa.Return:
				rc := ri.returnClass(x)
				res.accepted[qNames[q]+"->"+rc]++
				ok := q == qCancel && rc == "ctxerr" || q == qBP && rc == "ErrBreakPoint" || q == qHalt && rc == "nil"
				if !ok {
					viol(in, "return of %s in state %s (allowed: the context's error after a positive cancellation check, ErrBreakPoint after a breakpoint hit, nil after an executed HALT)", rc, qNames[q])
				}
				dead = true
			case *ssa.Panic:
				viol(in, "panic in Run")
				dead = true
			}
		}
	}
	return res
}

// ---------------------------------------------------------------------------

func c08(cx *Ctx, r *ev.Report) {
	ri, err := analyseRun(cx)
	if err != nil {
		r.Fatal = err.Error()
		return
	}
	pos := cx.P.Pos(ri.run.Pos())
	res := ri.explore()
	ruleA := "RUN-ITERATION: one iteration of Run's loop (summarised by value: helpers in line, Step opaque and havocking the CPU) Steps unless it returns the context's error - a decision independent of CPU state -, then returns ErrBreakPoint iff the Step left PC in BreakPoints, else nil iff the Step executed HALT, else continues; the CPU is touched by Step only and HALT is cleared once before the loop.  Fallback when the summary is undecided: R-AUTOMATON(Run), inclusion of the CFG projected on {H0, C?, Step, B?, H?, return} in  H0 (C?f S B?f H?f)* ( C?t Rctx | C?f S B?t Rbp | C?f S B?f H?t Rnil )"
	sem := cx.runSem()
	semantic := sem.err == nil
	if os.Getenv("VERIF_DEBUG") != "" {
		fmt.Fprintln(os.Stderr, "run summary:", sem.err, sem.violations)
	}
	r.Analysed["run_decided_by"] = map[bool]string{true: "value summary of the loop iteration", false: "CFG automaton (summary undecided: " + fmt.Sprint(sem.err) + ")"}[semantic]
	switch {
	case semantic && len(sem.violations) > 0:
		r.Violate("C08/run-automaton/func=(*CPU).Run", ruleA, pos, sem.violations...)
	case semantic:
		r.Hold("C08/run-automaton/func=(*CPU).Run", ruleA, pos, "summary-equality")
	case len(res.violations) > 0:
		sort.Strings(res.violations)
		r.Violate("C08/run-automaton/func=(*CPU).Run", ruleA, pos, res.violations...)
	default:
		r.Hold("C08/run-automaton/func=(*CPU).Run", ruleA, pos, "shape")
	}
	bpFresh(cx, r, ri.run)
	// all three exits exist (otherwise the rule is matched vacuously)
	for _, want := range [][2]string{{"cancelled->ctxerr", retCtx}, {"breakpoint-hit->ErrBreakPoint", retBP}, {"halted->nil", retNil}} {
		key := "C08/run-exits/exit=" + want[0]
		have := res.accepted[want[0]] > 0
		if semantic {
			have = sem.returns[want[1]] > 0
		}
		r.Check(have, key, "RUN-EXITS: Run has a return for each stop condition", pos, "shape", "no return of kind "+want[0]+" found in Run")
	}
	// fresh reads
	ruleF := "FRESH-READS: the loads of CPU.PC, CPU.BreakPoints and CPU.HALT that feed the stop tests execute after the Step of the same iteration; CPU.Interrupt is not read or cached by Run"
	var det []string
	for l, kind := range res.usedLoads {
		for q := range res.loadStates[l] {
			if q != qStepped && q != qNoBP {
				p := "state (helper call)"
				if u, ok := l.(*ssa.UnOp); ok {
					p, _ = ri.cpuField(u.X)
				}
				det = append(det, fmt.Sprintf("%s: the load of CPU.%s used by the %s test can execute in state %s, i.e. before the Step whose result it should reflect", cx.P.Pos(l.Pos()), p, kind, qNames[q]))
			}
		}
	}
	fns := []*ssa.Function{ri.run}
	fns = append(fns, ri.run.AnonFuncs...)
	for _, fn := range fns {
		for _, b := range fn.Blocks {
			for _, in := range b.Instrs {
				if fa, ok := in.(*ssa.FieldAddr); ok {
					if p, ok := ri.cpuField(fa); ok && strings.HasPrefix(p, "Interrupt") {
						det = append(det, cx.P.Pos(in.Pos())+": Run touches CPU.Interrupt itself")
					}
				}
			}
		}
	}
	sort.Strings(det)
	if semantic {
		// the summary compares the lookup key with PostStep(PC) and the HALT test with PostStep(HALT): fresh by value
		var d2 []string
		for _, d := range det {
			if strings.Contains(d, "CPU.Interrupt") {
				d2 = append(d2, d)
			}
		}
		r.Check(len(d2) == 0, "C08/fresh-reads/func=(*CPU).Run", ruleF+" (by value: the breakpoint key is PostStep(PC), the halt test reads PostStep(HALT))", pos, "summary-equality", d2...)
	} else {
		r.Check(len(det) == 0, "C08/fresh-reads/func=(*CPU).Run", ruleF, pos, "shape", det...)
		r.AddFloor("stop_test_loads", len(res.usedLoads), 2)
	}
	// only Step touches the CPU
	ruleO := "ONLY-STEP: Run and its closures use the receiver only to clear HALT on entry, to read PC/BreakPoints/HALT, and as the receiver of Step"
	det = nil
	for _, fn := range fns {
		for _, b := range fn.Blocks {
			for _, in := range b.Instrs {
				for _, op := range in.Operands(nil) {
					if *op != ssa.Value(ri.cpu) {
						continue
					}
					switch x := in.(type) {
					case *ssa.FieldAddr:
						continue
					case *ssa.Call:
						if x.Call.StaticCallee() == ri.step {
							continue
						}
						if cal := x.Call.StaticCallee(); cal != nil && load.InModule(cal) && cal.Blocks != nil && pureHelper(cal) {
							continue // a read-only helper
						}
						det = append(det, fmt.Sprintf("%s: the CPU is passed to %s", cx.P.Pos(in.Pos()), x.Call.Value.Name()))
					case *ssa.DebugRef:
						continue
					default:
						det = append(det, fmt.Sprintf("%s: the CPU pointer is used by %T (captured, stored or passed on)", cx.P.Pos(in.Pos()), in))
					}
				}
				if fa, ok := in.(*ssa.FieldAddr); ok {
					if p, ok := ri.cpuField(fa); ok {
						for _, ref := range *fa.Referrers() {
							switch ref.(type) {
							case *ssa.FieldAddr, *ssa.UnOp, *ssa.Store, *ssa.DebugRef:
							default:
								det = append(det, fmt.Sprintf("%s: the address of CPU.%s escapes (%T)", cx.P.Pos(ref.Pos()), p, ref))
							}
						}
					}
				}
			}
		}
	}
	sort.Strings(det)
	if semantic {
		// by value: the summary shows Step is called on the receiver as the previous Step left it,
		// the loop's back-edge state and the state at every return are what Step left, and the
		// goroutine captures nothing of the CPU - however the receiver is passed around
		r.Hold("C08/only-step/func=(*CPU).Run", ruleO+" (by value: the CPU at the back edge and at every return is as Step left it)", pos, "summary-equality")
	} else {
		r.Check(len(det) == 0, "C08/only-step/func=(*CPU).Run", ruleO, pos, "shape", det...)
	}
	// who may write HALT: Run's entry store and functions below the decoder
	below := map[string]bool{}
	for _, a := range cx.Arms() {
		for _, f := range a.Funcs {
			below[f] = true
		}
	}
	zfns := map[*ssa.Function]bool{}
	for fn := range allFunctions(cx.P) {
		if fn.Pkg != nil && fn.Pkg.Pkg.Path() == load.ModulePath || fn.Parent() != nil && load.InModule(fn) {
			zfns[fn] = true
		}
	}
	sites := rules.Writers(zfns, rules.SuffixMatch("HALT"))
	ruleW := "R-WRITERS(HALT): the halted indication is stored only by Run's entry (false) and by functions below the decoder"
	reach := reachableFromStepOrRun(cx)
	for _, s := range sites {
		key := fmt.Sprintf("C08/halt-writers/func=%s", s.Fn)
		if !reach[s.Fn] {
			// a helper the user has to call himself (a Reset method, say): it cannot act while Step or Run execute
			r.Hold(key, ruleW+" (not reachable from Step or Run: acts only when the user calls it)", cx.P.Pos(s.Pos.Pos()), "shape")
			continue
		}
		ok := s.Fn == ri.run || below[s.Fn.String()]
		if !ok && semantic && len(sem.violations) == 0 {
			// a helper the value summary of Run interpreted in line (Run's body moved
			// into an unexported method): what it does to HALT was judged by value
			// (cleared once before the loop, untouched by Run afterwards)
			for _, f := range sem.funcs {
				if f == s.Fn.String() {
					ok = true
				}
			}
		}
		r.Check(ok, key, ruleW, cx.P.Pos(s.Pos.Pos()), "shape", fmt.Sprintf("%s writes CPU.HALT (%s) outside instruction execution", s.Fn, s.Kind))
	}
	r.AddFloor("halt_write_sites", len(sites), 1)
	// the HALT arm
	n := armObligations(cx, r, armSelection{prop: "C08", rule: "SUMMARY-EQ(arm): HALT leaves PC on the opcode, sets the halted indication, changes nothing else but R", keyPart: "halt-arm", classes: classSet("halt")})
	r.AddFloor("halt_arms", n, 1)
	// no other arm sets the indication: follows from C01's equality, restated here on HALT only
	armObligations(cx, r, armSelection{prop: "C08", rule: "HALT-FIELD(arm): post[HALT] equals the reference (changed by the HALT instruction only)", keyPart: "halt-field",
		diffKeep: func(a *engine.ArmResult, d engine.Diff) bool { return d.What == "HALT" }})
	// Step is what C06 says it is; here: Run adds nothing (automaton) - record context
	r.Analysed["automaton_nodes_visited"] = res.visited
	r.Analysed["run_returns"] = res.accepted
	r.Analysed["events_recognised"] = res.events
	r.Analysed["function"] = ri.run.String()
	r.Analysed["blocks"] = len(ri.run.Blocks)
	r.Samples = []interface{}{map[string]interface{}{"returns": res.accepted, "events": res.events}}
	r.Rules = append(r.Rules, ruleA, ruleF, ruleO, ruleW)
	r.Assumptions = append(r.Assumptions, commonAssumptions...)
	r.Trusted = []string{"golang.org/x/tools/go/ssa v0.29.0 (CFG of Run)", "verif/internal/checks/c08.go (event recognisers, product exploration)", "C01/C06 for what one Step does"}
	r.Explanation = "Run is decided on a value summary of one iteration of its loop (" + fmt.Sprint(r.Analysed["run_decided_by"]) + "): the body is interpreted once with helpers, deferred functions and closures in line, (*CPU).Step opaque and replacing every CPU field by a fresh value, the CPU fields the body changes generalised at the loop header (so the iteration stands for every iteration, also for loops whose condition reads the CPU), and each observation of the cancellation state a fresh atom. The conditions 'this iteration Steps', 'returns ErrBreakPoint / nil / the context's error' and 'goes round again' - composed with the tests the next loop header makes - are compared as boolean functions with the stopping rule: no Step iff cancelled iff the context's error is returned; after the Step ErrBreakPoint iff PC as the Step left it is in BreakPoints, else nil iff the Step executed HALT, else the next iteration; nothing else is returned; no return before the first Step other than cancellation; Step runs on the receiver as the previous Step (or the caller) left it, and the CPU at the back edge and at every return is as Step left it (only HALT:=false before the loop). When the summary is undecided the CFG automaton of DESIGN.md 5/C08 is used instead. What a Step does is C01/C06; only arm 76 (and its DD/FD mirrors) sets the indication and leaves PC on the opcode (HALT-FIELD over all 1786 arms)."
}

func isNilConst(v ssa.Value) bool {
	c, ok := v.(*ssa.Const)
	return ok && c.Value == nil
}

// reachableFromStepOrRun: the module functions that can execute during a call
// of Step or Run (static calls, function literals, methods of module types -
// rules.DAG), including Step and Run themselves.
func reachableFromStepOrRun(cx *Ctx) map[*ssa.Function]bool {
	out := map[*ssa.Function]bool{}
	var add func(fn *ssa.Function)
	add = func(fn *ssa.Function) {
		if fn == nil || out[fn] {
			return
		}
		out[fn] = true
		for _, af := range fn.AnonFuncs {
			add(af)
		}
	}
	roots := []*ssa.Function{cx.E.Step}
	if run := cx.P.Method(load.ModulePath, "CPU", "Run"); run != nil {
		roots = append(roots, run)
	}
	for _, root := range roots {
		add(root)
		for _, f := range rules.DAG(cx.P, root).Funcs {
			add(f)
		}
	}
	return out
}

// bpFresh: membership in BreakPoints is judged on the field as it is after the
// Step.  A value loaded from CPU.BreakPoints (the map, or anything computed
// from it: its nil-ness, its length, a lookup) is stale once a Step has been
// made since the load - a memory or port callback may have replaced or created
// the set during that Step.  The rule: in Run and its helpers (outside Step)
// no such value is used on a path  load -> Step -> use  on which the load is
// not executed again between the Step and the use, and none is saved to
// memory at a point from which a Step can follow.
func bpFresh(cx *Ctx, r *ev.Report, run *ssa.Function) {
	rule := "BREAKPOINTS-FRESH: in Run and its helpers (outside Step) a value loaded or computed from CPU.BreakPoints is never used after a Step made since the load, nor saved to memory before a Step (nothing derived from the set is cached across Steps)"
	isBPLoad := func(in ssa.Instruction) bool {
		fa, ok := in.(*ssa.FieldAddr)
		if !ok {
			return false
		}
		pt, ok := fa.X.Type().Underlying().(*types.Pointer)
		if !ok {
			return false
		}
		st, ok := pt.Elem().Underlying().(*types.Struct)
		if !ok || fa.Field >= st.NumFields() || st.Field(fa.Field).Name() != "BreakPoints" {
			return false
		}
		n, ok := pt.Elem().(*types.Named)
		return ok && n.Obj().Name() == "CPU"
	}
	callees := func(in ssa.Instruction) []*ssa.Function {
		var out []*ssa.Function
		switch x := in.(type) {
		case ssa.CallInstruction:
			if f := x.Common().StaticCallee(); f != nil && load.InModule(f) && f.Blocks != nil {
				out = append(out, f)
			}
			if mc, ok := x.Common().Value.(*ssa.MakeClosure); ok {
				if f, ok := mc.Fn.(*ssa.Function); ok {
					out = append(out, f)
				}
			}
		}
		return out
	}
	memo := func(base func(f *ssa.Function) (bool, bool), instr func(in ssa.Instruction) bool) func(f *ssa.Function) bool {
		state := map[*ssa.Function]int{} // 1 no, 2 yes, 3 in progress
		var rec func(f *ssa.Function) bool
		rec = func(f *ssa.Function) bool {
			if v, done := base(f); done {
				return v
			}
			switch state[f] {
			case 1, 3:
				return false
			case 2:
				return true
			}
			state[f] = 3
			res := false
			for _, b := range f.Blocks {
				for _, in := range b.Instrs {
					if instr != nil && instr(in) {
						res = true
					}
					for _, g := range callees(in) {
						if rec(g) {
							res = true
						}
					}
				}
			}
			state[f] = 1
			if res {
				state[f] = 2
			}
			return res
		}
		return rec
	}
	reaches := memo(func(f *ssa.Function) (bool, bool) { return f == cx.E.Step, f == cx.E.Step }, nil)
	loads := memo(func(f *ssa.Function) (bool, bool) { return false, f == cx.E.Step }, isBPLoad)

	var det []string
	loadsSeen := 0
	seen := map[*ssa.Function]bool{}
	type site struct {
		b   *ssa.BasicBlock
		idx int
		in  ssa.Instruction
	}
	var visit func(f *ssa.Function)
	visit = func(f *ssa.Function) {
		if f == nil || seen[f] || f == cx.E.Step || f.Blocks == nil {
			return
		}
		seen[f] = true
		for _, af := range f.AnonFuncs {
			visit(af)
		}
		pos := map[ssa.Instruction]site{}
		var steps, bps []site
		for _, b := range f.Blocks {
			for i, in := range b.Instrs {
				pos[in] = site{b, i, in}
				isStep, isLoad := false, isBPLoad(in)
				for _, g := range callees(in) {
					visit(g)
					if reaches(g) {
						isStep = true
					} else if loads(g) {
						isLoad = true
					}
				}
				if isStep {
					steps = append(steps, site{b, i, in})
				}
				if isLoad {
					bps = append(bps, site{b, i, in})
				}
			}
		}
		loadsSeen += len(bps)
		if len(steps) == 0 || len(bps) == 0 {
			return
		}
		// block reachability (one or more edges), optionally avoiding a block
		reachFrom := func(from []*ssa.BasicBlock, avoid *ssa.BasicBlock) map[*ssa.BasicBlock]bool {
			m := map[*ssa.BasicBlock]bool{}
			work := append([]*ssa.BasicBlock{}, from...)
			for len(work) > 0 {
				x := work[len(work)-1]
				work = work[:len(work)-1]
				if m[x] {
					continue
				}
				m[x] = true // x is entered
				if x == avoid {
					continue // ... but not passed through
				}
				work = append(work, x.Succs...)
			}
			return m
		}
		before := func(a, b site) bool { // b can execute after a
			return a.b == b.b && a.idx < b.idx || reachFrom(a.b.Succs, nil)[b.b]
		}
		// staleAt: a path  l -> s -> u  exists on which l is not executed between s and u
		staleAt := func(l, s, u site) bool {
			if !before(l, s) {
				return false
			}
			if s.b == u.b && s.idx < u.idx && !(l.b == s.b && s.idx < l.idx && l.idx < u.idx) {
				return true // straight on in the block of the Step
			}
			if l.b == s.b && l.idx > s.idx {
				return false // the load follows the Step in its block: every way on passes it
			}
			entered := reachFrom(s.b.Succs, l.b)
			return entered[u.b] && (u.b != l.b || u.idx < l.idx)
		}
		for _, l := range bps {
			// everything computed from the loaded value
			taint := map[ssa.Value]bool{}
			var work []ssa.Value
			add := func(v ssa.Value) {
				if v != nil && !taint[v] {
					taint[v] = true
					work = append(work, v)
				}
			}
			if v, ok := l.in.(ssa.Value); ok {
				add(v)
			}
			for len(work) > 0 {
				v := work[len(work)-1]
				work = work[:len(work)-1]
				refs := v.Referrers()
				if refs == nil {
					continue
				}
				for _, ref := range *refs {
					u, known := pos[ref]
					if !known {
						continue
					}
					// a use: stale after a Step?
					for _, s := range steps {
						if staleAt(l, s, u) {
							det = append(det, fmt.Sprintf("%s: a value taken from CPU.BreakPoints at %s is used in %s after the Step at %s without being read again: a set replaced or created by a callback during that Step is not seen", cx.P.Pos(ref.Pos()), cx.P.Pos(l.in.Pos()), f, cx.P.Pos(s.in.Pos())))
						}
					}
					switch x := ref.(type) {
					case *ssa.Store:
						if taint[x.Val] {
							if _, isFA := v.(*ssa.FieldAddr); isFA && x.Addr == v {
								break // a store TO the field itself is no use of its value
							}
							for _, s := range steps {
								if before(u, s) {
									det = append(det, fmt.Sprintf("%s: something taken from CPU.BreakPoints is saved in %s before the Step at %s (cached across Steps)", cx.P.Pos(ref.Pos()), f, cx.P.Pos(s.in.Pos())))
								}
							}
						}
					case *ssa.MapUpdate, *ssa.Send:
						for _, s := range steps {
							if before(u, s) {
								det = append(det, fmt.Sprintf("%s: something taken from CPU.BreakPoints is saved in %s before the Step at %s (cached across Steps)", cx.P.Pos(ref.Pos()), f, cx.P.Pos(s.in.Pos())))
							}
						}
					}
					if val, ok := ref.(ssa.Value); ok {
						add(val)
					}
				}
			}
		}
	}
	visit(run)
	r.Check(len(det) == 0, "C08/breakpoints-fresh/func=(*CPU).Run", rule, cx.P.Pos(run.Pos()), "shape", uniqueStrings(det)...)
	r.Analysed["breakpoint_set_loads_examined"] = loadsSeen
	r.AddFloor("breakpoint_set_loads", loadsSeen, 1)
}
