package checks

import (
	"fmt"
	"go/types"

	"golang.org/x/tools/go/ssa"

	"verif/internal/absint"
	"verif/internal/bdd"
	"verif/internal/dom"
	"verif/internal/ev"
	"verif/internal/isa"
	"verif/internal/load"
)

func init() { register("C16", "proof", false, c16) }

type accessorRun struct {
	c   *dom.Ctx
	in  *absint.Interp
	res absint.Value
	out *absint.State
	tr  *dom.Trace
	err error
}

// runAccessor summarises a method whose receiver is a GPR / Register, by
// value or by pointer, with every other parameter a fresh atom "arg<i>".
func runAccessor(cx *Ctx, fn *ssa.Function, recvPrefix string) *accessorRun {
	c := dom.NewCtx()
	tr := dom.NewTrace(c)
	in := absint.New(cx.P, c, tr)
	in.AddSymbolicRoot("recv", recvPrefix)
	in.InterpretExternal = map[string]bool{
		"(encoding/binary.littleEndian).PutUint16": true, "(encoding/binary.bigEndian).PutUint16": true,
		"(encoding/binary.littleEndian).Uint16": true, "(encoding/binary.bigEndian).Uint16": true,
	}
	var args []absint.Value
	for i, p := range fn.Params {
		if i == 0 {
			if _, isPtr := p.Type().Underlying().(*types.Pointer); isPtr {
				args = append(args, &absint.Ptr{Root: "recv", Nil: bdd.False})
			} else {
				args = append(args, in.SymbolicValue(p.Type(), recvPrefix))
			}
			continue
		}
		args = append(args, in.SymbolicValue(p.Type(), fmt.Sprintf("arg%d", i)))
	}
	st := absint.NewState()
	res, out, err := in.Run(fn, args, st)
	return &accessorRun{c: c, in: in, res: res, out: out, tr: tr, err: err}
}

func c16(cx *Ctx, r *ev.Report) {
	pk := cx.P.Pkg(load.ModulePath)
	gprObj := pk.Types.Scope().Lookup("GPR")
	regObj := pk.Types.Scope().Lookup("Register")
	if gprObj == nil || regObj == nil {
		r.Fatal = "UNRESOLVED anchors: types GPR / Register"
		return
	}
	gprLeaves := []string{}
	collectLeaves(gprObj.Type(), "", func(p string) { gprLeaves = append(gprLeaves, p) })
	r.AddFloor("gpr_leaf_fields", len(gprLeaves), 8)

	type want func(c *dom.Ctx, F, f dom.BV) dom.BV
	frame := func(key, rule string, fn *ssa.Function, a *accessorRun, newF want) {
		pos := cx.P.Pos(fn.Pos())
		if a.err != nil {
			r.Undecide(key, rule, pos, a.err.Error())
			return
		}
		c := a.c
		F := c.Atom("Init("+isa.LocF+")", 8)
		f := c.Atom("Init(arg1)", 8)
		var det []string
		for _, l := range gprLeaves {
			exp := c.Atom("Init("+l+")", 8)
			if l == isa.LocF {
				exp = newF(c, F, f)
			}
			got := exp
			if v, ok := a.out.Get("recv", l); ok {
				got = v.(dom.BV)
			}
			if !got.Equal(exp) {
				w, _ := c.Witness(c.M.Not(c.Eq(got, exp)))
				det = append(det, fmt.Sprintf("%s becomes %#x, expected %#x, for {%v}", l, c.EvalBV(got, w), c.EvalBV(exp, w), c.DescribeAssignment(w)))
			}
		}
		if len(a.tr.Events) > 0 {
			det = append(det, "the accessor calls out: "+c.DescribeEvent(&a.tr.Events[0]))
		}
		for _, k := range a.out.Keys() {
			root, p := absint.SplitKey(k)
			if root == "recv" {
				found := false
				for _, l := range gprLeaves {
					if l == p {
						found = true
					}
				}
				if !found {
					det = append(det, "stores to "+p)
				}
			} else if len(root) < 6 || root[:6] != "alloc#" {
				det = append(det, "stores to "+root+"."+p)
			}
		}
		r.Check(len(det) == 0, key, rule, pos, "summary-equality", det...)
	}

	// SetFlag / ResetFlag
	if fn := cx.P.Method(load.ModulePath, "GPR", "SetFlag"); fn != nil {
		frame("C16/accessor/func=(*GPR).SetFlag", "ACCESSOR-EQ: F' = F | f bitwise, every other byte of GPR unchanged, for all F, f, registers", fn, runAccessor(cx, fn, ""),
			func(c *dom.Ctx, F, f dom.BV) dom.BV { return c.Or(F, f) })
	} else {
		r.Undecide("C16/accessor/func=(*GPR).SetFlag", "anchor", "", "UNRESOLVED anchor")
	}
	if fn := cx.P.Method(load.ModulePath, "GPR", "ResetFlag"); fn != nil {
		frame("C16/accessor/func=(*GPR).ResetFlag", "ACCESSOR-EQ: F' = F &^ f bitwise, every other byte of GPR unchanged", fn, runAccessor(cx, fn, ""),
			func(c *dom.Ctx, F, f dom.BV) dom.BV { return c.AndNot(F, f) })
	} else {
		r.Undecide("C16/accessor/func=(*GPR).ResetFlag", "anchor", "", "UNRESOLVED anchor")
	}
	// GetFlag: value receiver, result = any named bit set, no store reaches the caller
	if fn := cx.P.Method(load.ModulePath, "GPR", "GetFlag"); fn != nil {
		a := runAccessor(cx, fn, "")
		key := "C16/accessor/func=(GPR).GetFlag"
		rule := "ACCESSOR-EQ: result = (F & f) != 0; the receiver is a copy, nothing is stored outside locals"
		pos := cx.P.Pos(fn.Pos())
		if a.err != nil {
			r.Undecide(key, rule, pos, a.err.Error())
		} else {
			c := a.c
			F := c.Atom("Init("+isa.LocF+")", 8)
			f := c.Atom("Init(arg1)", 8)
			exp := c.M.Not(c.IsZero(c.And(F, f)))
			var det []string
			got, ok := a.res.(dom.BV)
			if !ok || len(got) != 1 {
				det = append(det, "result is not a bool")
			} else if got[0] != exp {
				w, _ := c.Witness(c.M.Xor(got[0], exp))
				det = append(det, fmt.Sprintf("result is %v, expected %v, for {%v}", c.M.Eval(got[0], w), c.M.Eval(exp, w), c.DescribeAssignment(w)))
			}
			if _, isPtr := fn.Params[0].Type().Underlying().(*types.Pointer); isPtr {
				for _, k := range a.out.Keys() {
					if root, p := absint.SplitKey(k); root == "recv" {
						det = append(det, "GetFlag stores to "+p)
					}
				}
			}
			r.Check(len(det) == 0, key, rule, pos, "summary-equality", det...)
		}
	} else {
		r.Undecide("C16/accessor/func=(GPR).GetFlag", "anchor", "", "UNRESOLVED anchor")
	}
	// Register.U16 / SetU16
	if fn := cx.P.Method(load.ModulePath, "Register", "U16"); fn != nil {
		a := runAccessor(cx, fn, "")
		key := "C16/accessor/func=(Register).U16"
		rule := "ACCESSOR-EQ: U16 = Hi*256 + Lo"
		if a.err != nil {
			r.Undecide(key, rule, cx.P.Pos(fn.Pos()), a.err.Error())
		} else {
			c := a.c
			exp := c.Concat(c.Atom("Init(Hi)", 8), c.Atom("Init(Lo)", 8))
			got, ok := a.res.(dom.BV)
			r.Check(ok && got.Equal(exp), key, rule, cx.P.Pos(fn.Pos()), "summary-equality", "U16 is "+absint.DescribeValue(c, a.res))
		}
	} else {
		r.Undecide("C16/accessor/func=(Register).U16", "anchor", "", "UNRESOLVED anchor")
	}
	if fn := cx.P.Method(load.ModulePath, "Register", "SetU16"); fn != nil {
		a := runAccessor(cx, fn, "")
		key := "C16/accessor/func=(*Register).SetU16"
		rule := "ACCESSOR-EQ: Hi = v[15:8], Lo = v[7:0] (so SetU16;U16 is the identity on all 65536 values)"
		if a.err != nil {
			r.Undecide(key, rule, cx.P.Pos(fn.Pos()), a.err.Error())
		} else {
			c := a.c
			v := c.Atom("Init(arg1)", 16)
			hi, _ := a.out.Get("recv", "Hi")
			lo, _ := a.out.Get("recv", "Lo")
			hb, ok1 := hi.(dom.BV)
			lb, ok2 := lo.(dom.BV)
			okv := ok1 && ok2 && hb.Equal(v.Slice(8, 16)) && lb.Equal(v.Slice(0, 8)) && len(a.tr.Events) == 0
			r.Check(okv, key, rule, cx.P.Pos(fn.Pos()), "summary-equality", "Hi="+absint.DescribeValue(c, hi)+" Lo="+absint.DescribeValue(c, lo))
		}
	} else {
		r.Undecide("C16/accessor/func=(*Register).SetU16", "anchor", "", "UNRESOLVED anchor")
	}
	// constants
	consts := map[string]uint64{"FlagC": isa.FC, "FlagN": isa.FN, "FlagPV": isa.FPV, "Flag3": isa.F3, "FlagH": isa.FH, "Flag5": isa.F5, "FlagZ": isa.FZ, "FlagS": isa.FS}
	for name, v := range consts {
		key := "C16/constant/" + name
		rule := "R-TYPES(constants): the exported flag constants are the Z80 bit positions (the same positions the reference model's F uses, which C02 ties to the ALU)"
		obj, ok := pk.Types.Scope().Lookup(name).(*types.Const)
		if !ok {
			r.Undecide(key, rule, "", "UNRESOLVED anchor: constant "+name)
			continue
		}
		got := obj.Val().ExactString()
		r.Check(got == fmt.Sprint(v), key, rule, cx.P.Pos(obj.Pos()), "types", fmt.Sprintf("%s = %s, expected %#02x", name, got, v))
	}
	r.Analysed["accessors_summarised"] = 5
	r.Analysed["constants_checked"] = len(consts)
	r.Samples = []interface{}{map[string]string{"SetFlag": "post[AF.Lo] == Init(AF.Lo) | arg, other 7 bytes == Init", "GetFlag": "result == !IsZero(Init(AF.Lo) & arg)", "SetU16": "Hi == v[15:8], Lo == v[7:0]"}}
	r.Rules = append(r.Rules, "ACCESSOR-EQ(fn): the summary of the accessor (abstract interpretation, mask/value parameters as atoms) equals the textbook formula as boolean functions, for all 256x256 (F, mask) pairs and all register contents")
	r.Assumptions = append(r.Assumptions, commonAssumptions[0], commonAssumptions[2])
	r.Trusted = summaryTrusted
	r.Explanation = "GetFlag/SetFlag/ResetFlag/U16/SetU16 are summarised with the mask and value parameters as atoms; results and post-states are per-bit functions of two atom bits and are compared with the defining formulas, so the statement holds for every flag mask, F value and register content; the frame (A and the other six bytes unchanged) is part of the comparison. The exported constants are read with go/types constant evaluation."
}
