package checks

import (
	"fmt"
	"os"
	"sort"
	"strings"

	"golang.org/x/tools/go/ssa"

	"verif/internal/absint"
	"verif/internal/bdd"
	"verif/internal/dom"
	"verif/internal/engine"
	"verif/internal/ev"
	"verif/internal/isa"
	"verif/internal/load"
	"verif/internal/rules"
)

func init() { register("C12", "other", true, c12) }

func c12(cx *Ctx, r *ev.Report) {
	run := cx.P.Method(load.ModulePath, "CPU", "Run")
	if run == nil {
		r.Fatal = "UNRESOLVED anchor: (*CPU).Run"
		return
	}
	// 1. termination of Step
	d := noLoopsBelowStep(cx, r, "C12")
	// Run returns once its program halts: the automaton of C08
	if sem := cx.runSem(); sem.err == nil {
		det := append([]string{}, sem.violations...)
		// ... and what Run does with its goroutine on the way out neither blocks
		// for ever nor panics (a wait for a signal that is not given, a channel
		// closed twice)
		for _, m := range uniqueStrings(append(append([]string{}, sem.leak...), sem.watch...)) {
			if strings.Contains(m, "hang") || strings.Contains(m, "(panic)") || strings.Contains(m, "blocks") {
				det = append(det, m)
			}
		}
		r.Check(len(det) == 0 && sem.returns[retNil] > 0, "C12/terminates/func=(*CPU).Run",
			"RUN-ITERATION: the loop leaves through 'return nil' on the first Step after which the halted indication is set; Run's exit path does not wait for something its goroutine does not signal and closes no channel twice", cx.P.Pos(run.Pos()), "summary-equality", det...)
	} else if ri, err := analyseRun(cx); err == nil {
		res := ri.explore()
		sort.Strings(res.violations)
		r.Check(len(res.violations) == 0 && res.accepted["halted->nil"] > 0, "C12/terminates/func=(*CPU).Run",
			"R-AUTOMATON(Run): the loop leaves through 'return nil' on the first Step after which the halted indication is set", cx.P.Pos(run.Pos()), "shape", res.violations...)
	} else {
		r.Undecide("C12/terminates/func=(*CPU).Run", "R-AUTOMATON(Run)", "", err.Error())
	}
	// ... and the HALT instruction does set it, whatever else is pending (else a
	// program that halts would keep Run going for ever)
	nh := armObligations(cx, r, armSelection{prop: "C12", rule: "HALT-SETS(arm): the HALT instruction sets the halted indication in every state (so Run returns once the program halts)", keyPart: "halt-sets", classes: classSet("halt"),
		diffKeep: func(a *engine.ArmResult, d engine.Diff) bool { return d.What == "HALT" }})
	r.AddFloor("halt_arms", nh, 1)
	// 2. panic sites below Step, Run, and the accessors of the bundled device types
	fns := map[*ssa.Function]bool{}
	roots := map[*ssa.Function]bool{cx.E.Step: true, run: true}
	for _, f := range d.Funcs {
		fns[f] = true
	}
	for _, f := range rules.DAG(cx.P, run).Funcs {
		fns[f] = true
	}
	devMethods := 0
	for _, tm := range [][2]string{{"DumbMemory", "Get"}, {"DumbMemory", "Set"}, {"DumbIO", "In"}, {"DumbIO", "Out"}, {"MapMemory", "Get"}, {"MapMemory", "Set"}} {
		m := cx.P.Method(load.ModulePath, tm[0], tm[1])
		if m == nil {
			r.Undecide("C12/no-panic/anchor="+tm[0]+"."+tm[1], "anchor", "", "UNRESOLVED anchor: method "+tm[0]+"."+tm[1])
			continue
		}
		devMethods++
		fns[m] = true
		roots[m] = true
		if back, _ := rules.HasBackEdge(m); back {
			r.Violate("C12/terminates/func="+m.String(), "LOOP-FREE(device accessor)", cx.P.Pos(m.Pos()), "loop in a bundled memory/port accessor")
		}
	}
	cfg := &rules.PanicCfg{P: cx.P, NonNilFieldOfRecv: map[string]bool{".Memory": true}, Roots: roots, Fns: fns}
	sites := cfg.Sites()
	// value-based verdicts from the summaries (all arms, the Step summary with
	// the overlay's methods probed, the mode-0 runs, the accessors)
	type vagg struct {
		ok, bad int
		witness string
	}
	vals := map[ssa.Instruction]*vagg{}
	addLog := func(m map[ssa.Instruction]*absint.SiteLog) {
		for in, l := range m {
			a := vals[in]
			if a == nil {
				a = &vagg{}
				vals[in] = a
			}
			a.ok += l.OK
			a.bad += l.Bad
			if a.witness == "" {
				a.witness = l.Witness
			}
		}
	}
	var undecidedArms []string
	for _, a := range cx.Arms() {
		if a.Undecided != nil {
			undecidedArms = append(undecidedArms, a.Enc)
		}
	}
	covered := map[string]bool{} // functions some exhaustive summary interprets
	for _, a := range cx.Arms() {
		addLog(a.Sites)
		if a.Undecided == nil {
			for _, f := range a.Funcs {
				covered[f] = true
			}
		}
	}
	incomplete := map[string]string{} // functions a cut-short probe entered: never "unreached"
	if sa := cx.stepAnalysis(); sa != nil && sa.impl != nil {
		addLog(sa.impl.Sites)
		for _, f := range sa.impl.Funcs {
			covered[f] = true
		}
		for f, why := range sa.impl.Incomplete {
			incomplete[f] = why
		}
		for _, m := range sa.im0Sites {
			addLog(m)
		}
	}
	if sem := cx.runSem(); sem.err == nil {
		// Run itself, its helpers and the watcher goroutine: every path, with the
		// CPU state generalised at the loop header
		addLog(sem.sites)
		for _, f := range sem.funcs {
			covered[f] = true
		}
	}
	for _, tm := range [][2]string{{"DumbMemory", "Get"}, {"DumbMemory", "Set"}, {"DumbIO", "In"}, {"DumbIO", "Out"}, {"MapMemory", "Get"}, {"MapMemory", "Set"}} {
		m := cx.P.Method(load.ModulePath, tm[0], tm[1])
		if m == nil {
			continue
		}
		c := dom.NewCtx()
		in := absint.New(cx.P, c, dom.NewTrace(c))
		in.Sites = map[ssa.Instruction]*absint.SiteLog{}
		var args []absint.Value
		for i, p := range m.Params {
			args = append(args, in.SymbolicValue(p.Type(), fmt.Sprintf("arg%d", i)))
		}
		// precondition of the property: a non-nil MapMemory
		if mp, ok := args[0].(*absint.Map); ok {
			mp.Nil = bdd.False
		}
		in.Run(m, args, absint.NewState())
		addLog(in.Sites)
	}
	byKind := map[string]int{}
	byRule := map[string]int{}
	type agg struct {
		n   int
		pos string
		det []string
	}
	// one obligation per (function, kind, what): keyed by construct, not line
	obl := map[string]*agg{}
	for _, s := range sites {
		byKind[s.Kind]++
		key := fmt.Sprintf("C12/no-panic/func=%s/%s/%s", shortFn(s.Fn), s.Kind, s.What)
		a := obl[key]
		if a == nil {
			a = &agg{pos: cx.P.Pos(s.Instr.Pos())}
			obl[key] = a
		}
		a.n++
		va := vals[s.Instr]
		switch {
		case va != nil && va.bad > 0 && (s.Kind == "index" || s.Kind == "nil-deref" || s.Kind == "nil-invoke" || s.Kind == "map-update") && !strings.HasPrefix(s.By, "NIL-GUARD: precondition"):
			a.det = append(a.det, fmt.Sprintf("%s: %s (%s) in %s: %s", cx.P.Pos(s.Instr.Pos()), s.What, s.Kind, s.Fn, va.witness))
		case s.Discharged:
			byRule[strings.SplitN(s.By, ":", 2)[0]]++
		case incomplete[s.Fn.String()] != "":
			// the probes of this function were cut short by a construct outside the
			// modelled fragment: the evidence by value is partial
			a.det = append(a.det, fmt.Sprintf("%s: %s (%s) in %s: UNDECIDED - the function was interpreted only partly (%s) and no shape rule applies: %s", cx.P.Pos(s.Instr.Pos()), s.What, s.Kind, s.Fn, incomplete[s.Fn.String()], s.Why))
		case va != nil && va.ok > 0 && va.bad == 0:
			byRule["SUMMARY-VALUE"]++
		case va == nil && covered[s.Fn.String()] && len(undecidedArms) == 0 && loggedWhenExecuted(s.Kind, s.What):
			// the function is interpreted by the exhaustive summaries and no
			// feasible path of any of them reaches this instruction
			byRule["SUMMARY-UNREACHED"]++
			if os.Getenv("VERIF_DEBUG") != "" {
				fmt.Fprintf(os.Stderr, "UNREACHED %s %s %s %s\n", s.Kind, s.What, s.Fn, cx.P.Pos(s.Instr.Pos()))
			}
		default:
			a.det = append(a.det, fmt.Sprintf("%s: %s (%s) in %s can panic: %s (and no summary reaches it with a value-based verdict)", cx.P.Pos(s.Instr.Pos()), s.What, s.Kind, s.Fn, s.Why))
		}
	}
	rule := "NO-PANIC(site): every instruction below Step/Run and in the bundled accessors that can panic in Go (index, slice, nil dereference, nil interface call, nil-map insert, unchecked type assertion, division, explicit panic, negative make) is discharged by a guard-dominance, by-construction, by-type or precondition rule, or by SUMMARY-VALUE: in every summary that executes it (all 1786 decoder specialisations, the Step summary with the overlay memory's methods probed for arbitrary arguments, the accessors) its failing condition is unsatisfiable under the path predicate"
	keys := make([]string, 0, len(obl))
	for k := range obl {
		keys = append(keys, k)
	}
	sort.Strings(keys)
	for _, k := range keys {
		a := obl[k]
		if len(a.det) > 0 {
			r.Violate(k, rule, a.pos, a.det...)
		} else {
			r.Hold(k, rule, a.pos, "guard-dominance")
		}
	}
	r.Analysed["panic_sites"] = len(sites)
	r.Analysed["panic_sites_by_kind"] = byKind
	r.Analysed["discharged_by_rule"] = byRule
	r.Analysed["functions_examined"] = len(fns)
	r.Analysed["device_accessors_examined"] = devMethods
	r.AddFloor("panic_sites", len(sites), 50)
	r.AddFloor("slice_index_sites", byKind["index"], 1)
	r.AddFloor("nil_invoke_sites", byKind["nil-invoke"], 10)

	// 3. any request: empty data in modes 0 and 2, any IM, any type
	sa := cx.stepAnalysis()
	pos := cx.P.Pos(cx.E.Step.Pos())
	ruleQ := "ANY-REQUEST(row): the Step summary is defined (no undecided construct, no panic event) on every row of the request table, including empty data in modes 0/2 and IM outside 0..2"
	if sa.err != nil {
		r.Undecide("C12/any-request", ruleQ, pos, sa.err.Error())
	} else {
		rows := sa.rows
		extra := []stepRow{}
		_ = extra
		for _, row := range rows {
			// what the row does in detail is C06's subject; here only what keeps Run
			// from going on: an accepted request must be consumed (else every Step
			// accepts it again and the program never reaches its HALT), a refused one
			// must not stop the instruction at PC from being executed
			ds := diffStrings(cx.E.CompareUnder(sa.impl, sa.ref, row.pred), func(d engine.Diff) bool {
				return d.What == "Interrupt" || eventKind(d) == isa.KindExec
			})
			r.Check(len(ds) == 0, "C12/any-request/row="+row.name, ruleQ+"; an accepted request is consumed, a refused one leaves the instruction at PC to be executed", pos, "summary-equality", ds...)
		}
		for _, row := range sa.emptyRows {
			ds := diffStrings(cx.E.CompareUnder(sa.impl, sa.ref, row.pred), nil)
			r.Check(len(ds) == 0, "C12/any-request/row="+row.name, ruleQ+" (empty data: the request is consumed and nothing else happens)", pos, "summary-equality", ds...)
		}
		for i := range sa.impl.Trace.Events {
			if e := &sa.impl.Trace.Events[i]; e.Kind == "Panic" {
				r.Violate("C12/any-request/panic", ruleQ, e.Pos, "a feasible path of Step reaches a panic at "+e.Pos)
			}
		}
	}
	// 4. unsupported opcodes are consumed and logged, nothing else
	n := armObligations(cx, r, armSelection{prop: "C12", rule: "INVALID-OPCODE(arm): an encoding without an arm consumes its bytes (PC advanced past them, modulo 2^16), counts its opcode fetches, logs a warning and changes nothing else", keyPart: "invalid-opcode", classes: classSet("invalid", "prefix")})
	r.Analysed["unsupported_prefixes"] = n
	r.AddFloor("unsupported_prefixes", n, 800)
	// and no arm at all is undecided / panics
	for _, a := range cx.Arms() {
		if a.Undecided != nil {
			r.Undecide(armKey("C12", "decided", a), "every arm is inside the analysed fragment", a.Pos, a.Undecided.Error())
			continue
		}
		for _, e := range a.ImplEvents {
			if strings.HasPrefix(e, "Panic") {
				r.Violate(armKey("C12", "arm-panic", a), "no arm reaches a panic", a.Pos, e)
			}
		}
	}
	armAnalysed(cx, r)
	r.Samples = nil
	cnt := 0
	for _, s := range sites {
		if s.Kind == "index" || s.Kind == "nil-deref" && strings.HasPrefix(s.By, "NIL-GUARD") || strings.HasPrefix(s.By, "OVERLAY") {
			if cnt < 12 {
				r.Samples = append(r.Samples, map[string]string{"site": cx.P.Pos(s.Instr.Pos()), "function": s.Fn.String(), "kind": s.Kind, "what": s.What, "discharged_by": s.By})
				cnt++
			}
		}
	}
	r.Rules = append(r.Rules, rule, ruleQ)
	r.Assumptions = append(r.Assumptions, commonAssumptions...)
	r.Assumptions = append(r.Assumptions, "preconditions of the property: cpu != nil, cpu.Memory != nil, a non-nil MapMemory, ctx != nil", "log.Printf and the context/atomic library functions do not panic")
	r.Trusted = []string{"golang.org/x/tools/go/ssa v0.29.0", "verif/internal/rules/panics.go (site enumeration and discharge rules)", "verif/internal/rules/dag.go", "summary engine for the unsupported-opcode arms and the request table"}
	r.Explanation = "Termination: the call graph below Step (calls through function values resolved by what every summary called there) is acyclic and every function in it is loop-free or has loops with a fixed trip count (followed concretely in every summary), so Step returns after a statically bounded number of actions whenever the callbacks it makes return; the HALT instruction sets the halted indication in every state and Run leaves its loop through 'return nil' on the first Step after which it is set. No panic: every SSA instruction below Step and Run and in Get/Set/In/Out of DumbMemory, DumbIO and MapMemory that can panic in Go is enumerated; each is discharged by value - its failing condition, logged by the interpreter under the path predicate, is unsatisfiable in every summary that reaches it (1786 decoder specialisations, the Step rows with the overlay's methods probed, the Run summary, the accessors), or no exhaustive summary reaches it - or else by a rule (dominating len comparison on the same slice, dominating nil test on the same access path with no call or aliasing store in between - also across the Step->processInterrupt call -, address-of/fresh object, constant index into a fixed array, index type bounded by the array length, constant divisor, API precondition); data[addr-start] in the overlay is a named exception with its four structural obligations checked. Any interrupt request: all rows of the request table, including empty data and IM outside 0..2, are decided without a panic. Unsupported opcodes: 856 prefixes without an arm are each shown to consume their bytes, log, and change nothing else (PC arithmetic modulo 2^16 covers prefixes cut off at 0xFFFF). Relative to the callback assumption and the stated preconditions."
}

func shortFn(f *ssa.Function) string {
	return strings.ReplaceAll(strings.ReplaceAll(f.String(), "github.com/koron-go/z80.", ""), "(*CPU).", "cpu.")
}

// loggedWhenExecuted: the interpreter records a verdict for this kind of site
// every time it executes one - only then does "no verdict" mean "not reached".
// (Slice bounds, unchecked type assertions, divisions, shifts, make and string
// indexing are evaluated or refused without a site record.)
func loggedWhenExecuted(kind, what string) bool {
	switch kind {
	case "nil-deref", "nil-invoke", "map-update", "explicit-panic":
		return true
	case "index":
		return what == "slice element" || what == "array element" || what == "array value element"
	case "call-value":
		return what == "call of a function value" || what == "close"
	}
	return false
}

func uniqueStrings(in []string) []string {
	sort.Strings(in)
	var out []string
	for i, s := range in {
		if i == 0 || s != in[i-1] {
			out = append(out, s)
		}
	}
	return out
}
