package checks

import (
	"fmt"
	"strings"

	"verif/internal/absint"

	"golang.org/x/tools/go/ssa"

	"verif/internal/bdd"
	"verif/internal/dom"
	"verif/internal/engine"
	"verif/internal/ev"
	"verif/internal/isa"
	"verif/internal/load"
)

func init() {
	register("C06", "proof", true, c06)
	register("C07", "other", true, c07)
}

type stepRow struct {
	name string
	pred bdd.Node
	desc string
}

type stepAnalysis struct {
	c         *dom.Ctx
	impl      *engine.ImplSummary
	ref       *engine.RefSummary
	rows      []stepRow
	emptyRows []stepRow
	im0Sites  []map[ssa.Instruction]*absint.SiteLog
	im0Funcs  []string
	err       error
	im0       []im0Case
	implE     []string
	refE      []string
}

type im0Case struct {
	name   string
	pushed string // what the implementation pushes, rendered (part of the finding key)
	und    error
	diffs  []engine.Diff
	implE  []string
	refE   []string
}

func diffStrings(ds []engine.Diff, keep func(engine.Diff) bool) []string {
	var out []string
	for _, d := range ds {
		if keep == nil || keep(d) {
			out = append(out, d.String())
		}
	}
	return out
}

func describeEvents(c *dom.Ctx, t *dom.Trace) []string {
	var out []string
	for i := range t.Events {
		e := &t.Events[i]
		if e.Kind == isa.KindExec {
			s := "Exec[" + e.Dev + "]"
			if e.Guard != bdd.True {
				s += " [" + c.DescribeGuard(e.Guard) + "]"
			}
			out = append(out, s)
			continue
		}
		out = append(out, c.DescribeEvent(e))
	}
	return out
}

func analyseStep(cx *Ctx) *stepAnalysis {
	c := dom.NewCtx()
	sa := &stepAnalysis{c: c}
	sa.impl = cx.E.RunStepImpl(c, engine.StepMode{HavocInterrupt: true})
	if sa.impl.Err != nil {
		sa.err = sa.impl.Err
		return sa
	}
	ref, rows, err := cx.E.RunStepRef(c)
	if err != nil {
		sa.err = err
		return sa
	}
	sa.ref = ref
	sa.implE, sa.refE = describeEvents(c, sa.impl.Trace), describeEvents(c, ref.Trace)
	sa.rows = []stepRow{
		{"no-request", rows.None, "CPU.Interrupt == nil: the instruction at PC is executed, nothing else"},
		{"NMI", rows.NMI, "NMI: always accepted; PC pushed, PC=0x0066, IFF2=old IFF1, IFF1=0, request consumed, no instruction executed"},
		{"refused", rows.Refused, "maskable request with IFF1 clear: changes nothing, stays pending, the instruction at PC is executed"},
		{"IM1", rows.IM1, "maskable, IFF1 set, mode 1: PC pushed, PC=0x0038, IFF1=IFF2=0, consumed"},
		{"IM2", rows.IM2, "maskable, IFF1 set, mode 2, vector supplied: PC pushed, PC=word at I*256+(vector&0xFE), IFF1=IFF2=0, consumed"},
		{"IM-other", rows.IMOther, "maskable, IFF1 set, IM outside 0..2: treated as refused"},
	}
	sa.emptyRows = []stepRow{
		{"IM0-empty-data", rows.IM0Empty, "mode 0 request without data bytes"},
		{"IM2-empty-data", rows.IM2Empty, "mode 2 request without a vector"},
	}
	// mode 0 with RST p / CALL nn
	for k := 0; k < 9; k++ {
		cc := dom.NewCtx()
		var data []dom.BV
		if k < 8 {
			data = []dom.BV{cc.Const(8, uint64(0xC7|k<<3))}
		} else {
			data = []dom.BV{cc.Const(8, 0xCD), cc.Atom("im0.operand.lo", 8), cc.Atom("im0.operand.hi", 8)}
		}
		ic := im0Case{}
		ref, ok := cx.E.RunIM0Ref(cc, data)
		if !ok {
			continue
		}
		ic.name = strings.TrimPrefix(ref.Info.Name, "IM0 ")
		// the overlay covers [PC, PC+len-1]; for a multi-byte instruction the
		// comparison assumes that range does not wrap past 0xFFFF
		care := bdd.True
		if len(data) > 1 {
			care = cc.Ult(cc.Atom("Init("+isa.LocPC+")", 16), cc.Const(16, uint64(0x10000-(len(data)-1))))
		}
		impl := cx.E.RunStepImpl(cc, engine.StepMode{IM0Data: data, HavocInterrupt: true, Assume: care, HasAssume: care != bdd.True})
		sa.im0Sites = append(sa.im0Sites, impl.Sites)
		sa.im0Funcs = append(sa.im0Funcs, impl.Funcs...)
		if impl.Err != nil {
			ic.und = impl.Err
		} else {
			ic.diffs = cx.E.CompareUnder(impl, ref, care)
			ic.implE, ic.refE = describeEvents(cc, impl.Trace), describeEvents(cc, ref.Trace)
			ic.pushed = describePush(cc, impl.Trace)
		}
		sa.im0 = append(sa.im0, ic)
	}
	return sa
}

// describePush renders the word the trace stores at SP-1 (high) / SP-2 (low).
func describePush(c *dom.Ctx, t *dom.Trace) string {
	sp := c.Atom("Init("+isa.LocSP+")", 16)
	var hi, lo dom.BV
	cond := false
	n := 0
	for i := range t.Events {
		e := &t.Events[i]
		if e.Kind != isa.KindMemSet {
			continue
		}
		n++
		if e.Guard != bdd.True {
			cond = true
		}
		switch {
		case e.Args[0].Equal(c.AddK(sp, -1)):
			hi = e.Args[1]
		case e.Args[0].Equal(c.AddK(sp, -2)):
			lo = e.Args[1]
		}
	}
	if hi == nil || lo == nil || n != 2 {
		return fmt.Sprintf("%d-writes", n)
	}
	s := c.Describe(c.Concat(hi, lo))
	if cond {
		s += ",dropped-where-the-stack-overlaps-the-overlay"
	}
	return s
}

func (cx *Ctx) stepAnalysis() *stepAnalysis {
	cx.stepOnce.Do(func() { cx.step = analyseStep(cx) })
	return cx.step
}

func c06(cx *Ctx, r *ev.Report) {
	sa := cx.stepAnalysis()
	pos := cx.P.Pos(cx.E.Step.Pos())
	ruleS := "STEP-EQ(row): the summary of (*CPU).Step (decoder kept opaque as an Exec event carrying the register state it starts from) equals the reference decision table on the row's pre-states"
	if sa.err != nil {
		r.Undecide("C06/step", ruleS, pos, sa.err.Error())
	} else {
		for _, row := range sa.rows {
			key := "C06/step/row=" + row.name
			ds := cx.E.CompareUnder(sa.impl, sa.ref, row.pred)
			if len(ds) == 0 {
				r.Hold(key, ruleS, pos, "summary-equality")
				continue
			}
			det := append([]string{"row: " + row.desc}, diffStrings(ds, nil)...)
			det = append(det, "implementation: "+strings.Join(sa.implE, "; "), "reference:      "+strings.Join(sa.refE, "; "))
			r.Violate(key, ruleS, pos, det...)
		}
		ruleI := "STEP-EQ(IM0 instr): Step with a mode-0 request supplying RST p / CALL nn (decoder interpreted in line through the overlay) equals: IFF1=IFF2=0, PC pushed, PC=target, request consumed"
		for _, ic := range sa.im0 {
			key := "C06/im0/instr=" + ic.name
			if ic.und != nil {
				r.Undecide(key, ruleI, pos, ic.und.Error())
				continue
			}
			// the resume address itself belongs to C07; here: flip-flops, consumption, target, frame
			ds := diffStrings(ic.diffs, func(d engine.Diff) bool {
				return !(d.Cat == "event" && d.What == isa.KindMemSet) && !(d.Cat == "state" && d.What == isa.LocSP)
			})
			if len(ds) == 0 {
				r.Hold(key, ruleI, pos, "summary-equality")
			} else {
				r.Violate(key, ruleI, pos, append(ds, "implementation: "+strings.Join(ic.implE, "; "), "reference:      "+strings.Join(ic.refE, "; "))...)
			}
		}
	}
	// EI / DI / IM n / RETN / RETI arms, and handler notifications in every arm
	n := armObligations(cx, r, armSelection{prop: "C06", rule: "SUMMARY-EQ(arm): EI/DI/IM/RETN/RETI effect and handler notification", keyPart: "arms", classes: classSet("intctl", "retint")})
	r.AddFloor("interrupt_control_arms", n, 7)
	notify := 0
	for _, a := range cx.Arms() {
		if a.Undecided != nil {
			continue
		}
		var det []string
		for _, d := range a.Diffs {
			if k := eventKind(d); k == isa.KindRETN || k == isa.KindRETI {
				det = append(det, d.String())
			}
		}
		hasNotify := false
		for _, e := range a.ImplEvents {
			if strings.HasPrefix(e, isa.KindRETN) || strings.HasPrefix(e, isa.KindRETI) {
				hasNotify = true
			}
		}
		if hasNotify {
			notify++
		}
		if effClass(a) == "retint" {
			continue // already covered above
		}
		key := armKey("C06", "notify", a)
		if len(det) > 0 {
			r.Violate(key, "NOTIFY(arm): RETN/RETI handlers are called exactly once by RETN/RETI and by nothing else", a.Pos, det...)
		} else if hasNotify {
			r.Hold(key, "NOTIFY(arm)", a.Pos, "summary-equality")
		}
	}
	r.Analysed["arms_notifying_a_handler"] = notify
	r.AddFloor("arms_notifying_a_handler", notify, 2)
	c06InvokeSites(cx, r)
	c06Constructors(cx, r)
	armAnalysed(cx, r)
	r.Analysed["step_rows"] = len(sa.rows)
	r.Analysed["im0_instructions"] = len(sa.im0)
	r.Samples = []interface{}{
		map[string]interface{}{"step_summary_implementation_calls": sa.implE, "step_summary_reference_calls": sa.refE},
	}
	for _, row := range sa.rows {
		r.Samples = append(r.Samples, map[string]string{"row": row.name, "meaning": row.desc})
	}
	r.Rules = append(r.Rules, ruleS)
	r.Assumptions = append(r.Assumptions, commonAssumptions...)
	r.Assumptions = append(r.Assumptions, "after every device call CPU.Interrupt is replaced by an unknown pointer (a callback may raise or replace a request); mode 0/2 requests with empty data are outside C06's rows (C12 covers them)")
	r.Trusted = append(append([]string{}, summaryTrusted...), "verif/internal/isa (reference decision table of interrupt acceptance)")
	r.Explanation = "The complete transition relation of one Step with respect to the pending request is compared with the reference decision table over IsNil(Interrupt) x Type x IFF1 x IM x len(Data)>0, symbolically for all register states; 'stays pending and is taken once IFF1 is set' is post[Interrupt]=Init(Interrupt) on the refusal row plus the examination being the first thing every Step does. Mode 0 is decided for the supplied instructions RST p and CALL nn by interpreting the decoder in line through the overlay memory. EI/DI/IM/RETN/RETI arms equal the reference, and handler notifications occur in exactly the RETN/RETI arms, once, under 'handler != nil'."
}

func c06InvokeSites(cx *Ctx, r *ev.Report) {
	// every call site of the handler interfaces in the module lies in a
	// function that only RETN/RETI arms interpret
	allowed := map[string]bool{}
	for _, a := range cx.Arms() {
		if a.Info.Class == "retint" {
			for _, f := range a.Funcs {
				allowed[f] = true
			}
		}
	}
	other := map[string]bool{}
	for _, a := range cx.Arms() {
		if a.Info.Class != "retint" {
			for _, f := range a.Funcs {
				other[f] = true
			}
		}
	}
	sites := 0
	for fn := range allFunctions(cx.P) {
		for _, b := range fn.Blocks {
			for _, in := range b.Instrs {
				ci, ok := in.(ssa.CallInstruction)
				if !ok || !ci.Common().IsInvoke() {
					continue
				}
				tn := ci.Common().Value.Type().String()
				if !strings.HasSuffix(tn, ".RETNHandler") && !strings.HasSuffix(tn, ".RETIHandler") {
					continue
				}
				sites++
				key := fmt.Sprintf("C06/notify-site/func=%s", fn)
				name := fn.String()
				if allowed[name] && !other[name] {
					r.Hold(key, "NOTIFY-SITES: handler interfaces are invoked only in functions reached from RETN/RETI arms alone", cx.P.Pos(in.Pos()), "shape")
				} else {
					r.Violate(key, "NOTIFY-SITES: handler interfaces are invoked only in functions reached from RETN/RETI arms alone", cx.P.Pos(in.Pos()),
						fmt.Sprintf("%s invokes %s but is not exclusive to the RETN/RETI arms", name, tn))
				}
			}
		}
	}
	r.Analysed["handler_invoke_sites"] = sites
	r.AddFloor("handler_invoke_sites", sites, 2)
}

// allFunctions lists the source functions of the module's non-test packages.
func allFunctions(p *load.Program) map[*ssa.Function]bool {
	out := map[*ssa.Function]bool{}
	for _, pk := range p.Prog.AllPackages() {
		if pk.Pkg.Path() != load.ModulePath && !strings.HasPrefix(pk.Pkg.Path(), load.ModulePath+"/") {
			continue
		}
		var add func(fn *ssa.Function)
		add = func(fn *ssa.Function) {
			if fn == nil || out[fn] || fn.Blocks == nil {
				return
			}
			out[fn] = true
			for _, af := range fn.AnonFuncs {
				add(af)
			}
		}
		for _, m := range pk.Members {
			switch x := m.(type) {
			case *ssa.Function:
				add(x)
			case *ssa.Type:
				for _, t := range []interface{ String() string }{x.Type()} {
					_ = t
				}
				for _, recv := range []bool{false, true} {
					tt := x.Type()
					if recv {
						tt = ptrTo(tt)
					}
					ms := p.Prog.MethodSets.MethodSet(tt)
					for i := 0; i < ms.Len(); i++ {
						add(p.Prog.MethodValue(ms.At(i)))
					}
				}
			}
		}
	}
	return out
}

// C07: the property's own equivalent formulation - the pushed return address
// is the address of the first instruction not yet executed.
func c07(cx *Ctx, r *ev.Report) {
	sa := cx.stepAnalysis()
	pos := cx.P.Pos(cx.E.Step.Pos())
	ruleR := "RESUME(path): on acceptance the word pushed at SP-1/SP-2 is PC at Step entry (Memory.Set events and SP of the Step summary equal the reference's)"
	stackOnly := func(d engine.Diff) bool {
		return d.Cat == "event" && d.What == isa.KindMemSet || d.Cat == "state" && (d.What == isa.LocSP)
	}
	if sa.err != nil {
		r.Undecide("C07/resume-address", ruleR, pos, sa.err.Error())
	} else {
		for _, row := range sa.rows {
			switch row.name {
			case "NMI", "IM1", "IM2":
			default:
				continue
			}
			key := "C07/resume-address/path=" + row.name
			ds := diffStrings(cx.E.CompareUnder(sa.impl, sa.ref, row.pred), stackOnly)
			if len(ds) == 0 {
				r.Hold(key, ruleR, pos, "summary-equality")
			} else {
				r.Violate(key, ruleR, pos, append(ds, "implementation: "+strings.Join(sa.implE, "; "))...)
			}
		}
		for _, ic := range sa.im0 {
			if ic.und != nil {
				r.Undecide("C07/resume-address/path=IM0 "+ic.name, ruleR, pos, ic.und.Error())
				continue
			}
			ds := diffStrings(ic.diffs, stackOnly)
			if len(ds) == 0 {
				r.Hold("C07/resume-address/path=IM0 "+ic.name, ruleR, pos, "summary-equality")
				continue
			}
			// the key names what is pushed instead, so that a different wrong
			// address is a different finding
			key := "C07/resume-address/path=IM0 " + ic.name + "/pushed=" + ic.pushed
			r.Violate(key, ruleR, pos, append(ds, "implementation: "+strings.Join(ic.implE, "; "), "reference:      "+strings.Join(ic.refE, "; "))...)
		}
		// refusal leaves the request pending and executes the program
		for _, row := range sa.rows {
			if row.name != "refused" && row.name != "no-request" {
				continue
			}
			key := "C07/pending/row=" + row.name
			ds := diffStrings(cx.E.CompareUnder(sa.impl, sa.ref, row.pred), nil)
			r.Check(len(ds) == 0, key, "PENDING(row): a refused request changes nothing and stays in CPU.Interrupt", pos, "summary-equality", ds...)
		}
	}
	// PC at every Step boundary addresses the first instruction not yet completed
	n := armObligations(cx, r, armSelection{prop: "C07", rule: "BOUNDARY-PC(arm): after the arm PC is Init(PC)+len, the instruction's transfer target, or exactly Init(PC) (repeat / HALT) - equal to the reference's PC", keyPart: "boundary-pc",
		diffKeep: func(a *engine.ArmResult, d engine.Diff) bool { return d.Cat == "state" && d.What == isa.LocPC }})
	r.Analysed["arms_selected"] = n
	// return path
	armObligations(cx, r, armSelection{prop: "C07", rule: "RETURN(arm): RET/RETI/RETN pop the pushed word into PC; EI sets both flip-flops; RETN restores IFF1 from IFF2", keyPart: "return", classes: classSet("ret", "retint", "intctl", "halt", "block")})
	c07RefShape(cx, r)
	armAnalysed(cx, r)
	r.Samples = append(r.Samples, map[string]interface{}{"step_calls": sa.implE})
	for _, ic := range sa.im0 {
		r.Samples = append(r.Samples, map[string]interface{}{"im0_instruction": ic.name, "implementation_calls": ic.implE, "reference_calls": ic.refE, "differences": len(ic.diffs)})
	}
	r.Assumptions = append(r.Assumptions, commonAssumptions...)
	r.Trusted = append(append([]string{}, summaryTrusted...), "verif/internal/isa")
	r.Explanation = "Decided (for all states): the return address pushed on NMI / mode 1 / mode 2 / mode 0 (RST, CALL) acceptance is PC at Step entry; after every arm PC is the next instruction, the transfer target, or the instruction's own address (repeating block instructions while their predicate holds, HALT), never inside an instruction, so PC at a Step boundary is the first instruction not yet executed; RET/RETI/RETN pop that word, EI/RETN restore the flip-flops; a refused request stays pending. NOT decided: the two-run statement (equal final state of interrupted and uninterrupted runs for arbitrary programs and injection points), which is a hyperproperty over programs and schedules."
}

// c07RefShape checks, on the reference itself, the shape C07 relies on:
// repeating block instructions leave PC = Init(PC) under their repeat
// predicate and Init(PC)+2 otherwise; HALT leaves PC = Init(PC).
func c07RefShape(cx *Ctx, r *ev.Report) {
	for _, a := range cx.Arms() {
		if a.Undecided != nil || !a.Implemented {
			continue
		}
		if a.Info.Class != "block" && a.Info.Class != "halt" {
			continue
		}
		c := dom.NewCtx()
		ref := cx.E.RunRef(c, a.Spec, engine.Options{}, false)
		pc0 := c.Atom("Init("+isa.LocPC+")", 16)
		var want dom.BV
		if a.Info.Class == "halt" {
			want = c.AddK(pc0, int64(len(a.Spec.Pattern)-1))
		} else {
			want = c.Mux(ref.Info.Repeat, pc0, c.AddK(pc0, 2))
		}
		key := armKey("C07", "rewind", a)
		r.Check(ref.Loc[isa.LocPC].Equal(want), key, "REWIND(arm): PC stays on the instruction exactly while it is to be executed again", a.Pos, "summary-equality",
			"reference PC is "+c.Describe(ref.Loc[isa.LocPC]))
	}
}

// c06Constructors: the exported request constructors build the request the
// decision table is about (type, data bytes in order, nothing else).
func c06Constructors(cx *Ctx, r *ev.Report) {
	nmiT, err1 := cx.E.ConstValue("NMIType")
	imT, err2 := cx.E.ConstValue("IMType")
	rule := "CONSTRUCTOR-EQ: the request constructors return a fresh Interrupt with the documented Type and exactly the supplied data bytes in order"
	if err1 != nil || err2 != nil {
		r.Undecide("C06/constructor", rule, "", "UNRESOLVED anchors NMIType/IMType")
		return
	}
	n := 0
	for _, name := range []string{"NMIInterrupt", "IM0Interrupt", "IM1Interrupt", "IM2Interrupt"} {
		fn := cx.P.Func(load.ModulePath, name)
		key := "C06/constructor/func=" + name
		if fn == nil {
			r.Undecide(key, rule, "", "UNRESOLVED anchor: func "+name)
			continue
		}
		n++
		c := dom.NewCtx()
		tr := dom.NewTrace(c)
		in := absint.New(cx.P, c, tr)
		var args []absint.Value
		for i, p := range fn.Params {
			args = append(args, in.SymbolicValue(p.Type(), fmt.Sprintf("arg%d", i)))
		}
		res, out, err := in.Run(fn, args, absint.NewState())
		pos := cx.P.Pos(fn.Pos())
		if err != nil {
			r.Undecide(key, rule, pos, err.Error())
			continue
		}
		var det []string
		p, ok := res.(*absint.Ptr)
		if !ok || p.Nil != bdd.False || !strings.HasPrefix(p.Root, "alloc#") {
			r.Violate(key, rule, pos, "does not return a freshly allocated request")
			continue
		}
		wantT := imT
		if name == "NMIInterrupt" {
			wantT = nmiT
		}
		tv, _ := out.Get(p.Root, "Type")
		if tb, ok := tv.(dom.BV); !ok && wantT != 0 {
			det = append(det, "Type is not set")
		} else if ok {
			if k, isc := tb.IsConst(); !isc || k != wantT {
				det = append(det, fmt.Sprintf("Type is %s, expected %d", c.Describe(tb), wantT))
			}
		}
		dv, hasData := out.Get(p.Root, "Data")
		iw := cx.E.IntW
		switch name {
		case "NMIInterrupt", "IM1Interrupt":
			if hasData {
				if sl, ok := dv.(*absint.Slice); !ok || !sl.Len.Equal(c.Const(iw, 0)) {
					det = append(det, "carries data bytes")
				}
			}
		case "IM2Interrupt":
			sl, ok := dv.(*absint.Slice)
			if !ok || sl.Sym != "" || !sl.Len.Equal(c.Const(iw, 1)) {
				det = append(det, "Data is not a one-byte slice")
			} else {
				ev0, _ := out.Get(sl.Root, fmt.Sprintf("%s[%d]", sl.Path, sl.Lo))
				if b, ok := ev0.(dom.BV); !ok || !b.Equal(c.Atom("Init(arg0)", 8)) {
					det = append(det, "Data[0] is not the vector argument")
				}
			}
		case "IM0Interrupt":
			sl, ok := dv.(*absint.Slice)
			olen := c.Zext(c.Atom("len(arg1)", iw-1), iw)
			if !ok || sl.Sym == "" || sl.LoV != nil || !sl.Len.Equal(c.AddK(olen, 1)) {
				det = append(det, "Data is not a fresh slice of 1+len(others) bytes")
			} else {
				e0, _ := out.Get("elems:"+sl.Sym, "[0]")
				if b, ok := e0.(dom.BV); !ok || !b.Equal(c.Atom("Init(arg0)", 8)) {
					det = append(det, "Data[0] is not the first argument")
				}
				exp := dom.NewTrace(c)
				exp.Emit(bdd.True, "slice.copy<-arg1", sl.Sym, []dom.BV{c.Const(iw, 1), olen, olen}, 0, "ref")
				for _, d := range c.DiffMultiset(tr.MultisetChar(nil), exp.MultisetChar(nil)) {
					det = append(det, "the remaining bytes are not copied to Data[1:] in order: "+d)
				}
			}
		}
		r.Check(len(det) == 0, key, rule, pos, "summary-equality", det...)
	}
	r.AddFloor("request_constructors", n, 4)
}
