package checks

import (
	"fmt"
	"strings"

	"go/types"

	"golang.org/x/tools/go/ssa"

	"verif/internal/absint"
	"verif/internal/bdd"
	"verif/internal/dom"
	"verif/internal/ev"
	"verif/internal/load"
)

func init() { register("C19", "other", false, c19) }

// The commands are summarised with the buffered writer as an event sink:
//   out.byte(c)            one byte
//   out.write[n](b0..bn-1) a write of n bytes with known contents
//   out.write:<handle>(len) a write of a whole opaque byte slice
//   out.flush
// Library calls are modelled by a whitelist resolved by callee object.

type cmdRun struct {
	c      *dom.Ctx
	tr     *dom.Trace
	err    error
	nerr   int
	in     *absint.Interp
	unseen []string
}

func (cr *cmdRun) newErr(c *dom.Ctx, callee string) *absint.Iface {
	cr.nerr++
	name := fmt.Sprintf("err#%d(%s)", cr.nerr, callee)
	return &absint.Iface{Sym: name, Nil: c.Atom("IsNil("+name+")", 1)[0]}
}

func errNil(c *dom.Ctx, n int, callee string) bdd.Node {
	return c.Atom(fmt.Sprintf("IsNil(err#%d(%s))", n, callee), 1)[0]
}

func writeEvent(in *absint.Interp, st *absint.State, tr *dom.Trace, guard bdd.Node, v absint.Value, pos string) bool {
	sl, ok := v.(*absint.Slice)
	if !ok {
		return false
	}
	if sl.Sym != "" {
		if sl.LoV != nil || sl.Lo != 0 {
			return false
		}
		tr.Emit(guard, "out.write:"+sl.Sym, "w", []dom.BV{sl.Len}, 0, pos)
		return true
	}
	n, isc := sl.Len.IsConst()
	if !isc || n > 64 {
		return false
	}
	var args []dom.BV
	for i := 0; i < int(n); i++ {
		ev, ok := st.Get(sl.Root, fmt.Sprintf("%s[%d]", sl.Path, sl.Lo+i))
		bv, ok2 := ev.(dom.BV)
		if !ok || !ok2 {
			bv = in.C.Const(8, 0)
		}
		args = append(args, bv)
	}
	tr.Emit(guard, fmt.Sprintf("out.write[%d]", n), "w", args, 0, pos)
	return true
}

// runCommand interprets init() then run() of a command package.
func runCommand(cx *Ctx, pkgPath string, assume func(c *dom.Ctx) bdd.Node) *cmdRun {
	sp := cx.P.SSAPkg(pkgPath)
	cr := &cmdRun{}
	if sp == nil {
		cr.err = fmt.Errorf("UNRESOLVED anchor: package %s", pkgPath)
		return cr
	}
	run := sp.Func("run")
	initf := sp.Func("init")
	if run == nil || initf == nil {
		cr.err = fmt.Errorf("UNRESOLVED anchor: %s.run", pkgPath)
		return cr
	}
	c := dom.NewCtx()
	tr := dom.NewTrace(c)
	in := absint.New(cx.P, c, tr)
	in.NoGlobalEvents = true
	cr.c, cr.tr, cr.in = c, tr, in
	st := absint.NewState()
	noop := func(in *absint.Interp, args []absint.Value, guard bdd.Node, st *absint.State, pos string) (absint.Value, bool) {
		return nil, true
	}
	in.Models = map[string]absint.ModelFunc{
		"flag.StringVar": noop, "flag.UintVar": noop, "flag.IntVar": noop, "flag.BoolVar": noop, "flag.Parse": noop,
		"bufio.init": noop, "flag.init": noop, "io.init": noop, "log.init": noop, "os.init": noop, "fmt.init": noop, "errors.init": noop,
		"os.ReadFile": func(in *absint.Interp, args []absint.Value, guard bdd.Node, st *absint.State, pos string) (absint.Value, bool) {
			iw := int(cx.P.Sizes.Sizeof(types.Typ[types.Int])) * 8
			return &absint.Tuple{Elems: []absint.Value{
				&absint.Slice{Sym: "file", Nil: bdd.False, Len: c.Zext(c.Atom("len(file)", iw-1), iw)},
				cr.newErr(c, "os.ReadFile")}}, true
		},
		"os.Create": func(in *absint.Interp, args []absint.Value, guard bdd.Node, st *absint.State, pos string) (absint.Value, bool) {
			in.AddSymbolicRoot("osfile", "osfile.")
			return &absint.Tuple{Elems: []absint.Value{&absint.Ptr{Root: "osfile", Nil: bdd.False}, cr.newErr(c, "os.Create")}}, true
		},
		"bufio.NewWriter": func(in *absint.Interp, args []absint.Value, guard bdd.Node, st *absint.State, pos string) (absint.Value, bool) {
			iv, ok := args[0].(*absint.Iface)
			if !ok || iv.Conc == nil {
				return nil, false
			}
			if p, ok := iv.Conc.(*absint.Ptr); !ok || p.Root != "osfile" {
				return nil, false
			}
			in.AddSymbolicRoot("bufio.Writer", "bufio.Writer.")
			return &absint.Ptr{Root: "bufio.Writer", Nil: bdd.False}, true
		},
		"(*bufio.Writer).WriteByte": func(in *absint.Interp, args []absint.Value, guard bdd.Node, st *absint.State, pos string) (absint.Value, bool) {
			if p, ok := args[0].(*absint.Ptr); !ok || p.Root != "bufio.Writer" {
				return nil, false
			}
			bv, ok := args[1].(dom.BV)
			if !ok {
				return nil, false
			}
			tr.Emit(guard, "out.byte", "w", []dom.BV{bv}, 0, pos)
			return cr.newErr(c, "WriteByte"), true
		},
		"(*bufio.Writer).Write": func(in *absint.Interp, args []absint.Value, guard bdd.Node, st *absint.State, pos string) (absint.Value, bool) {
			if p, ok := args[0].(*absint.Ptr); !ok || p.Root != "bufio.Writer" {
				return nil, false
			}
			if !writeEvent(in, st, tr, guard, args[1], pos) {
				return nil, false
			}
			return &absint.Tuple{Elems: []absint.Value{c.Atom(fmt.Sprintf("n#%d", cr.nerr+1), 64), cr.newErr(c, "Write")}}, true
		},
		"(*bufio.Writer).Flush": func(in *absint.Interp, args []absint.Value, guard bdd.Node, st *absint.State, pos string) (absint.Value, bool) {
			if p, ok := args[0].(*absint.Ptr); !ok || p.Root != "bufio.Writer" {
				return nil, false
			}
			tr.Emit(guard, "out.flush", "w", nil, 0, pos)
			return cr.newErr(c, "Flush"), true
		},
	}
	// package initialisation builds the constant tables (it has not run yet)
	if g := sp.Var("init$guard"); g != nil {
		in.InitOverride["global:"+g.RelString(nil)+"|"] = c.Const(1, 0)
	}
	_, st1, err := in.Run(initf, nil, st)
	if err != nil {
		cr.err = err
		return cr
	}
	// keep the tables built by package initialisation
	tr.Events = nil
	if assume != nil {
		in.Assume, in.HasAssume = assume(c), true
	}
	_, out, err := in.Run(run, nil, st1)
	cr.err = err
	if err == nil {
		for _, k := range out.Keys() {
			if root, p := absint.SplitKey(k); strings.HasPrefix(root, "elems:") {
				cr.unseen = append(cr.unseen, "run() stores into "+strings.TrimPrefix(root, "elems:")+p)
			}
		}
	}
	return cr
}

func describeCmdEvents(c *dom.Ctx, t *dom.Trace) []string {
	var out []string
	for i := range t.Events {
		if strings.HasPrefix(t.Events[i].Kind, "out.") {
			out = append(out, c.DescribeEvent(&t.Events[i]))
		}
	}
	return out
}

func keepOut(e *dom.Event) bool { return strings.HasPrefix(e.Kind, "out.") }

type refStream struct {
	c  *dom.Ctx
	tr *dom.Trace
	g  bdd.Node
	n  int
}

func (rs *refStream) after(callee string) {
	rs.n++
	rs.g = rs.c.M.And(rs.g, errNil(rs.c, rs.n, callee))
}

func (rs *refStream) u16(v dom.BV) {
	rs.tr.Emit(rs.g, "out.write[2]", "w", []dom.BV{v.Slice(0, 8), v.Slice(8, 16)}, 0, "ref")
	rs.after("Write")
}

func (rs *refStream) consts(bs ...byte) {
	var args []dom.BV
	for _, b := range bs {
		args = append(args, rs.c.Const(8, uint64(b)))
	}
	rs.tr.Emit(rs.g, fmt.Sprintf("out.write[%d]", len(bs)), "w", args, 0, "ref")
	rs.after("Write")
}

func globalAtom(c *dom.Ctx, name string, w int) dom.BV { return c.Atom("Init(global "+name+")", w) }

// refCommon emits the start/end/exec words and the body.
func (rs *refStream) tail(intW int) {
	c := rs.c
	off := c.Trunc(globalAtom(c, "off0", intW), 16)
	flen := c.Zext(c.Atom("len(file)", intW-1), intW)
	rs.u16(off)
	rs.u16(c.AddK(c.Add(off, c.Trunc(flen, 16)), -1))
	rs.u16(off)
	rs.tr.Emit(rs.g, "out.write:file", "w", []dom.BV{flen}, 0, "ref")
	rs.after("Write")
	rs.tr.Emit(rs.g, "out.flush", "w", nil, 0, "ref")
	rs.after("Flush")
}

func cmdCompare(cx *Ctx, r *ev.Report, key, rule string, cr *cmdRun, build func(rs *refStream), fnPos string) {
	if cr.err != nil {
		r.Undecide(key, rule, fnPos, cr.err.Error())
		return
	}
	c := cr.c
	rs := &refStream{c: c, tr: dom.NewTrace(c), g: bdd.True}
	if cr.in.HasAssume {
		rs.g = cr.in.Assume
	}
	rs.after("os.ReadFile")
	rs.after("os.Create")
	build(rs)
	var det []string
	for _, d := range c.DiffSequence(cr.tr.SequenceChar(keepOut), rs.tr.SequenceChar(keepOut)) {
		det = append(det, "output stream: "+d)
	}
	for _, u := range cr.unseen {
		det = append(det, "the bytes read from the input are modified before they are written: "+u)
	}
	for i := range cr.tr.Events {
		e := &cr.tr.Events[i]
		if strings.HasPrefix(e.Kind, "slice.set") || strings.HasPrefix(e.Kind, "slice.copy") {
			det = append(det, "the image bytes are modified before they are written: "+c.DescribeEvent(e))
		}
	}
	if len(det) > 0 {
		det = append(det, "implementation: "+strings.Join(describeCmdEvents(c, cr.tr), "; "), "reference:      "+strings.Join(describeCmdEvents(c, rs.tr), "; "))
		r.Violate(key, rule, fnPos, det...)
	} else {
		r.Hold(key, rule, fnPos, "summary-equality")
	}
}

func c19(cx *Ctx, r *ev.Report) {
	intW := int(cx.P.Sizes.Sizeof(types.Typ[types.Int])) * 8
	binPkg := load.ModulePath + "/cmd/cim2bin"
	casPkg := load.ModulePath + "/cmd/cim2cas"
	posOf := func(pkg string) string {
		if sp := cx.P.SSAPkg(pkg); sp != nil && sp.Func("run") != nil {
			return cx.P.Pos(sp.Func("run").Pos())
		}
		return "-"
	}
	ruleB := "STREAM-EQ(cim2bin): on the path where every error is nil the writer receives exactly 0xFE, U16(off), U16(off+len-1), U16(off), the very byte slice ReadFile returned, Flush - in this order; after any error nothing more is written; U16(v) = v[7:0], v[15:8]"
	bin := runCommand(cx, binPkg, nil)
	cmdCompare(cx, r, "C19/sequence/cmd=cim2bin", ruleB, bin, func(rs *refStream) {
		rs.tr.Emit(rs.g, "out.byte", "w", []dom.BV{rs.c.Const(8, 0xFE)}, 0, "ref")
		rs.after("WriteByte")
		rs.tail(intW)
	}, posOf(binPkg))

	ruleC := "STREAM-EQ(cim2cas): sync header 1F A6 DE BA CC 13 7D 74, ten D0, the name as six bytes (byte i = i < len(name) ? name[i] : 0x20), the sync header again, U16(off), U16(off+len-1), U16(off), the unmodified image, Flush; nothing after an error"
	header := []byte{0x1f, 0xa6, 0xde, 0xba, 0xcc, 0x13, 0x7d, 0x74}
	for _, variant := range []struct {
		name   string
		source string
		assume func(c *dom.Ctx) bdd.Node
	}{
		{"name-given", "nam", func(c *dom.Ctx) bdd.Node {
			return c.M.Not(c.IsZero(c.Zext(c.Atom("len(global nam)", intW-1), intW)))
		}},
		{"name-empty", "cim", func(c *dom.Ctx) bdd.Node {
			return c.IsZero(c.Zext(c.Atom("len(global nam)", intW-1), intW))
		}},
	} {
		cas := runCommand(cx, casPkg, variant.assume)
		src := variant.source
		cmdCompare(cx, r, "C19/sequence/cmd=cim2cas/"+variant.name, ruleC+" (name = -nam, or the input file name when -nam is empty)", cas, func(rs *refStream) {
			c := rs.c
			rs.consts(header...)
			rs.consts(0xd0, 0xd0, 0xd0, 0xd0, 0xd0, 0xd0, 0xd0, 0xd0, 0xd0, 0xd0)
			nlen := c.Zext(c.Atom("len(global "+src+")", intW-1), intW)
			var args []dom.BV
			for i := 0; i < 6; i++ {
				in := c.Slt(c.Const(intW, uint64(i)), nlen)
				args = append(args, c.Mux(in, c.Atom(fmt.Sprintf("Init(global %s[%d])", src, i), 8), c.Const(8, 0x20)))
			}
			rs.tr.Emit(rs.g, "out.write[6]", "w", args, 0, "ref")
			rs.after("Write")
			rs.consts(header...)
			rs.tail(intW)
		}, posOf(casPkg))
	}
	// the constant tables have no writer outside package initialisation
	n := 0
	for _, pkg := range []string{binPkg, casPkg} {
		sp := cx.P.SSAPkg(pkg)
		if sp == nil {
			continue
		}
		for fn := range allFunctions(cx.P) {
			if fn.Pkg != sp || fn.Name() == "init" {
				continue
			}
			for _, b := range fn.Blocks {
				for _, in := range b.Instrs {
					s, ok := in.(*ssa.Store)
					if !ok {
						continue
					}
					if g, ok := s.Addr.(*ssa.Global); ok {
						n++
						if _, isSlice := g.Type().Underlying().(*types.Pointer).Elem().Underlying().(*types.Slice); isSlice {
							r.Violate("C19/tables/global="+g.Name(), "NO-WRITERS(tables): the header/type tables are written only by package initialisation", cx.P.Pos(in.Pos()), fn.String()+" assigns "+g.Name())
						}
					}
				}
			}
		}
	}
	r.Hold("C19/tables/no-writers", "NO-WRITERS(tables): the header/type tables are written only by package initialisation (their contents are read from the interpreted init function)", "cmd/cim2cas", "shape")
	r.Analysed["commands"] = 2
	r.Analysed["stream_variants_compared"] = 3
	r.Analysed["global_stores_outside_init"] = n
	if bin.err == nil {
		r.Samples = append(r.Samples, map[string]interface{}{"cim2bin_stream": describeCmdEvents(bin.c, bin.tr)})
	}
	r.Rules = append(r.Rules, ruleB, ruleC)
	r.Assumptions = append(r.Assumptions, commonAssumptions[0], commonAssumptions[2], "flag, os and bufio behave as documented: flag.Parse fills the flag variables, os.ReadFile returns the file's bytes, (*bufio.Writer).Write/WriteByte/Flush deliver the bytes in call order to the created file")
	r.Trusted = append(append([]string{}, summaryTrusted...), "models of flag.*Var/Parse, os.ReadFile, os.Create, bufio.NewWriter, (*bufio.Writer).Write/WriteByte/Flush (whitelist, resolved by callee object)")
	r.Explanation = "run() of each command is interpreted (after its package initialisation, which builds the header tables) with the buffered writer as an event sink and the library calls modelled by a whitelist; any other external call is undecided. The ordered, guarded sequence of write events is compared as a canonical sequence-valued function of (offset flag, file length, name bytes, error results) with the container layout written down from the property: cim2bin FE,start,end,exec,body; cim2cas sync,10xD0,name6,sync,start,end,exec,body, where the end word is off+len-1 modulo 2^16 and name6[i] = i<len(name) ? name[i] : 0x20. The body write is the very slice ReadFile returned and nothing stores into it. Library behaviour is trusted, hence level 'other'."
}
