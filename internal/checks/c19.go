package checks

import (
	"fmt"
	"os"
	"strings"

	"go/types"

	"golang.org/x/tools/go/ssa"

	"verif/internal/absint"
	"verif/internal/bdd"
	"verif/internal/dom"
	"verif/internal/ev"
	"verif/internal/load"
	"verif/internal/rules"
)

func init() { register("C19", "other", false, c19) }

// The commands are summarised with the output file as a byte sink.  Every
// write - buffered or direct, byte-wise, slice-wise, of a string, of the result
// of append - is flattened into the stream items
//   out.b(c)                  one byte
//   out.chunk:<handle>(lo,n)  a whole window of an opaque byte slice (the image)
// plus out.flush / out.close markers.  The stream is compared on the path where
// every library call succeeds (the property speaks about what is emitted, not
// about error handling).  Library calls are modelled by a whitelist resolved by
// callee object; flags are named by their command-line name, not by the Go
// variable that holds them.

type cmdRun struct {
	c       *dom.Ctx
	tr      *dom.Trace
	err     error
	nerr    int
	in      *absint.Interp
	unseen  []string
	errNils []bdd.Node
	// successOnly: every modelled library call returns a nil error (the run
	// covers the success path only)
	successOnly bool
}

func (cr *cmdRun) newErr(c *dom.Ctx, callee string) *absint.Iface {
	cr.nerr++
	if cr.successOnly {
		return &absint.Iface{Nil: bdd.True}
	}
	name := fmt.Sprintf("err#%d(%s)", cr.nerr, callee)
	n := c.Atom("IsNil("+name+")", 1)[0]
	cr.errNils = append(cr.errNils, n)
	return &absint.Iface{Sym: name, Nil: n}
}

// success is the path condition "every modelled library call returned a nil error".
func (cr *cmdRun) success() bdd.Node {
	g := bdd.True
	for _, n := range cr.errNils {
		g = cr.c.M.And(g, n)
	}
	return g
}

const maxVarWrite = 16

// boundOf: the smallest N <= maxVarWrite with length <= N on every path
// (under the guard and the run's assumption), or -1.
func boundOf(in *absint.Interp, guard bdd.Node, length dom.BV) int {
	C := in.C
	g := guard
	if in.HasAssume {
		g = C.M.And(g, in.Assume)
	}
	neg := length[len(length)-1]
	for n := 0; n <= maxVarWrite; n++ {
		over := C.M.And(C.M.Not(neg), C.Ult(C.Const(len(length), uint64(n)), length))
		if C.M.And(g, over) == bdd.False {
			return n
		}
	}
	return -1
}

// emitBytes flattens one write into stream items on device dev.
func emitBytes(in *absint.Interp, st *absint.State, tr *dom.Trace, guard bdd.Node, dev string, v absint.Value, pos string) bool {
	segs, ok := in.RopeOf(st, v)
	if !ok {
		return false
	}
	C := in.C
	w := int(in.P.Sizes.Sizeof(types.Typ[types.Int])) * 8
	byteT := types.Typ[types.Uint8]
	for _, sg := range segs {
		switch {
		case sg.Bytes != nil:
			for _, b := range sg.Bytes {
				tr.Emit(guard, "out.b", dev, []dom.BV{b}, 0, pos)
			}
		case sg.Fill != nil:
			n := boundOf(in, guard, sg.Len)
			if n < 0 {
				return false
			}
			for i := 0; i < n; i++ {
				tr.Emit(C.M.And(guard, C.Slt(C.Const(len(sg.Len), uint64(i)), sg.Len)), "out.b", dev, []dom.BV{sg.Fill}, 0, pos)
			}
		default:
			if n := boundOf(in, guard, sg.Len); n >= 0 {
				for i := 0; i < n; i++ {
					b, ok := in.SymElem(st, sg.Sym, sg.Lo+i, byteT).(dom.BV)
					if !ok {
						return false
					}
					tr.Emit(C.M.And(guard, C.Slt(C.Const(len(sg.Len), uint64(i)), sg.Len)), "out.b", dev, []dom.BV{b}, 0, pos)
				}
				continue
			}
			tr.Emit(guard, "out.chunk:"+sg.Sym, dev, []dom.BV{C.Const(w, uint64(sg.Lo)), sg.Len}, 0, pos)
		}
	}
	return true
}

func strConst(v absint.Value) (string, bool) {
	if s, ok := v.(*absint.Str); ok && s.Const != nil {
		return *s.Const, true
	}
	return "", false
}

// runCommand interprets init() then run() of a command package.  The errors
// of the library calls are unknowns, so that the success path is a care set
// and what happens after a failure is visible; when that leaves a loop with an
// early exit on an error undecidable (its trip count is a constant only on the
// success path), the run is repeated on the success path alone - which is the
// path the rule is about.
func runCommand(cx *Ctx, pkgPath string, assume func(c *dom.Ctx) bdd.Node) *cmdRun {
	cr := runCommand1(cx, pkgPath, assume, false)
	if cr.err != nil && strings.Contains(cr.err.Error(), "whose control flow depends on a value that is not a constant") {
		if cr2 := runCommand1(cx, pkgPath, assume, true); cr2.err == nil {
			return cr2
		}
	}
	return cr
}

func runCommand1(cx *Ctx, pkgPath string, assume func(c *dom.Ctx) bdd.Node, successOnly bool) *cmdRun {
	sp := cx.P.SSAPkg(pkgPath)
	cr := &cmdRun{successOnly: successOnly}
	if sp == nil {
		cr.err = fmt.Errorf("UNRESOLVED anchor: package %s", pkgPath)
		return cr
	}
	run := sp.Func("run")
	initf := sp.Func("init")
	if run == nil || initf == nil {
		cr.err = fmt.Errorf("UNRESOLVED anchor: %s.run", pkgPath)
		return cr
	}
	c := dom.NewCtx()
	tr := dom.NewTrace(c)
	in := absint.New(cx.P, c, tr)
	in.NoGlobalEvents = true
	cr.c, cr.tr, cr.in = c, tr, in
	st := absint.NewState()
	iw := int(cx.P.Sizes.Sizeof(types.Typ[types.Int])) * 8
	noop := func(in *absint.Interp, args []absint.Value, guard bdd.Node, st *absint.State, pos string) (absint.Value, bool) {
		return nil, true
	}
	// flags: the value is named after the flag, wherever the program keeps it
	flagStr := func(name string) absint.Value {
		n := "flag -" + name
		return &absint.Str{Sym: n, Len: c.Zext(c.Atom("len("+n+")", iw-1), iw)}
	}
	flagInt := func(name string, w int) absint.Value { return c.Atom("Init(flag -"+name+")", w) }
	flagVar := func(mk func(name string) absint.Value, t types.Type) absint.ModelFunc {
		return func(in *absint.Interp, args []absint.Value, guard bdd.Node, st *absint.State, pos string) (absint.Value, bool) {
			name, ok := strConst(args[1])
			if !ok {
				return nil, false
			}
			in.Store(st, args[0], t, mk(name), bdd.True, 0)
			return nil, true
		}
	}
	ncell := 0
	flagNew := func(mk func(name string) absint.Value, t types.Type) absint.ModelFunc {
		return func(in *absint.Interp, args []absint.Value, guard bdd.Node, st *absint.State, pos string) (absint.Value, bool) {
			name, ok := strConst(args[0])
			if !ok {
				return nil, false
			}
			ncell++
			root := fmt.Sprintf("flagcell#%d(%s)", ncell, name)
			in.AddConcreteRoot(root)
			p := &absint.Ptr{Root: root, Nil: bdd.False}
			in.Store(st, p, t, mk(name), bdd.True, 0)
			return p, true
		}
	}
	uintW := int(cx.P.Sizes.Sizeof(types.Typ[types.Uint])) * 8
	mkUint := func(name string) absint.Value { return flagInt(name, uintW) }
	mkInt := func(name string) absint.Value { return flagInt(name, iw) }
	isFile := func(v absint.Value) bool { p, ok := v.(*absint.Ptr); return ok && p.Root == "osfile" }
	isBuf := func(v absint.Value) bool { p, ok := v.(*absint.Ptr); return ok && p.Root == "bufio.Writer" }
	write := func(isDev func(absint.Value) bool, dev, callee string, tuple bool) absint.ModelFunc {
		return func(in *absint.Interp, args []absint.Value, guard bdd.Node, st *absint.State, pos string) (absint.Value, bool) {
			if !isDev(args[0]) || !emitBytes(in, st, tr, guard, dev, args[1], pos) {
				return nil, false
			}
			if !tuple {
				return cr.newErr(c, callee), true
			}
			return &absint.Tuple{Elems: []absint.Value{c.Atom(fmt.Sprintf("n#%d", cr.nerr+1), iw), cr.newErr(c, callee)}}, true
		}
	}
	in.Models = map[string]absint.ModelFunc{
		"flag.StringVar": flagVar(flagStr, types.Typ[types.String]), "flag.UintVar": flagVar(mkUint, types.Typ[types.Uint]), "flag.IntVar": flagVar(mkInt, types.Typ[types.Int]),
		"flag.String": flagNew(flagStr, types.Typ[types.String]), "flag.Uint": flagNew(mkUint, types.Typ[types.Uint]), "flag.Int": flagNew(mkInt, types.Typ[types.Int]),
		"flag.BoolVar": noop, "flag.Parse": noop,
		"bufio.init": noop, "flag.init": noop, "io.init": noop, "log.init": noop, "os.init": noop, "fmt.init": noop, "errors.init": noop, "bytes.init": noop, "encoding/binary.init": noop,
		"os.ReadFile": func(in *absint.Interp, args []absint.Value, guard bdd.Node, st *absint.State, pos string) (absint.Value, bool) {
			return &absint.Tuple{Elems: []absint.Value{
				&absint.Slice{Sym: "file", Nil: bdd.False, Len: c.Zext(c.Atom("len(file)", iw-1), iw)},
				cr.newErr(c, "os.ReadFile")}}, true
		},
		"os.Create": func(in *absint.Interp, args []absint.Value, guard bdd.Node, st *absint.State, pos string) (absint.Value, bool) {
			in.AddSymbolicRoot("osfile", "osfile.")
			return &absint.Tuple{Elems: []absint.Value{&absint.Ptr{Root: "osfile", Nil: bdd.False}, cr.newErr(c, "os.Create")}}, true
		},
		"os.WriteFile": func(in *absint.Interp, args []absint.Value, guard bdd.Node, st *absint.State, pos string) (absint.Value, bool) {
			if !emitBytes(in, st, tr, guard, "f", args[1], pos) {
				return nil, false
			}
			tr.Emit(guard, "out.close", "f", nil, 0, pos)
			return cr.newErr(c, "os.WriteFile"), true
		},
		"bufio.NewWriter": func(in *absint.Interp, args []absint.Value, guard bdd.Node, st *absint.State, pos string) (absint.Value, bool) {
			iv, ok := args[0].(*absint.Iface)
			if !ok || iv.Conc == nil || !isFile(iv.Conc) {
				return nil, false
			}
			in.AddSymbolicRoot("bufio.Writer", "bufio.Writer.")
			return &absint.Ptr{Root: "bufio.Writer", Nil: bdd.False}, true
		},
		"(*bufio.Writer).WriteByte": func(in *absint.Interp, args []absint.Value, guard bdd.Node, st *absint.State, pos string) (absint.Value, bool) {
			bv, ok := args[1].(dom.BV)
			if !isBuf(args[0]) || !ok {
				return nil, false
			}
			tr.Emit(guard, "out.b", "w", []dom.BV{bv}, 0, pos)
			return cr.newErr(c, "WriteByte"), true
		},
		"(*bufio.Writer).Write":       write(isBuf, "w", "Write", true),
		"(*bufio.Writer).WriteString": write(isBuf, "w", "WriteString", true),
		"(*os.File).Write":            write(isFile, "f", "Write", true),
		"(*os.File).WriteString":      write(isFile, "f", "WriteString", true),
		"(*bufio.Writer).Flush": func(in *absint.Interp, args []absint.Value, guard bdd.Node, st *absint.State, pos string) (absint.Value, bool) {
			if !isBuf(args[0]) {
				return nil, false
			}
			tr.Emit(guard, "out.flush", "w", nil, 0, pos)
			return cr.newErr(c, "Flush"), true
		},
		"(*os.File).Close": func(in *absint.Interp, args []absint.Value, guard bdd.Node, st *absint.State, pos string) (absint.Value, bool) {
			if !isFile(args[0]) {
				return nil, false
			}
			tr.Emit(guard, "out.close", "f", nil, 0, pos)
			return cr.newErr(c, "Close"), true
		},
		"bytes.Repeat": func(in *absint.Interp, args []absint.Value, guard bdd.Node, st *absint.State, pos string) (absint.Value, bool) {
			segs, ok := in.RopeOf(st, args[0])
			cnt, ok2 := args[1].(dom.BV)
			if !ok || !ok2 || len(segs) != 1 || len(segs[0].Bytes) != 1 {
				return nil, false
			}
			if k, isc := cnt.IsConst(); isc && k <= 16 {
				// a small fresh slice: concrete storage (it may be written to afterwards)
				var bs []dom.BV
				for i := 0; i < int(k); i++ {
					bs = append(bs, segs[0].Bytes[0])
				}
				return in.NewConcreteBytes(st, bs), true
			}
			if k, isc := cnt.IsConst(); isc && k <= 256 {
				var bs []dom.BV
				for i := 0; i < int(k); i++ {
					bs = append(bs, segs[0].Bytes[0])
				}
				return &absint.Slice{Nil: bdd.False, Len: cnt, Rope: []absint.Seg{{Bytes: bs}}}, true
			}
			return &absint.Slice{Nil: bdd.False, Len: cnt, Rope: []absint.Seg{{Fill: segs[0].Bytes[0], Len: cnt}}}, true
		},
	}
	in.InterpretExternal = map[string]bool{
		"(encoding/binary.littleEndian).PutUint16": true, "(encoding/binary.bigEndian).PutUint16": true,
		"(encoding/binary.littleEndian).AppendUint16": true, "(encoding/binary.bigEndian).AppendUint16": true,
	}
	// package initialisation builds the constant tables (it has not run yet)
	// (neither has that of any module package it imports)
	for _, pk := range cx.P.Prog.AllPackages() {
		if pk.Pkg != nil && strings.HasPrefix(pk.Pkg.Path(), load.ModulePath) {
			if g := pk.Var("init$guard"); g != nil {
				in.InitOverride["global:"+g.RelString(nil)+"|"] = c.Const(1, 0)
			}
		}
	}
	_, st1, err := in.Run(initf, nil, st)
	if err != nil {
		cr.err = err
		return cr
	}
	// keep the tables built by package initialisation
	tr.Events = nil
	if assume != nil {
		in.Assume, in.HasAssume = assume(c), true
	}
	_, out, err := in.Run(run, nil, st1)
	cr.err = err
	if err == nil {
		for _, k := range out.Keys() {
			if root, p := absint.SplitKey(k); strings.HasPrefix(root, "elems:") {
				cr.unseen = append(cr.unseen, "run() stores into "+strings.TrimPrefix(root, "elems:")+p)
			}
		}
	}
	return cr
}

func describeCmdEvents(c *dom.Ctx, t *dom.Trace) []string {
	var out []string
	run := 0
	flushRun := func() {
		if run > 0 {
			out = append(out, fmt.Sprintf("... %d more bytes", run))
			run = 0
		}
	}
	n := 0
	for i := range t.Events {
		if !strings.HasPrefix(t.Events[i].Kind, "out.") {
			continue
		}
		n++
		if n > 40 && t.Events[i].Kind == "out.b" {
			run++
			continue
		}
		flushRun()
		out = append(out, c.DescribeEvent(&t.Events[i]))
	}
	flushRun()
	return out
}

func keepStream(e *dom.Event) bool {
	return e.Kind == "out.b" || strings.HasPrefix(e.Kind, "out.chunk:")
}

type refStream struct {
	c   *dom.Ctx
	tr  *dom.Trace
	g   bdd.Node
	dev string // the sink the implementation uses (buffered writer or the file itself)
}

func (rs *refStream) b(v dom.BV) { rs.tr.Emit(rs.g, "out.b", rs.dev, []dom.BV{v}, 0, "ref") }

func (rs *refStream) u16(v dom.BV) {
	rs.b(v.Slice(0, 8))
	rs.b(v.Slice(8, 16))
}

func (rs *refStream) consts(bs ...byte) {
	for _, b := range bs {
		rs.b(rs.c.Const(8, uint64(b)))
	}
}

// tail emits the start/end/exec words and the body.
func (rs *refStream) tail(intW, uintW int) {
	c := rs.c
	off := c.Trunc(c.Atom("Init(flag -off)", uintW), 16)
	flen := c.Zext(c.Atom("len(file)", intW-1), intW)
	rs.u16(off)
	rs.u16(c.AddK(c.Add(off, c.Trunc(flen, 16)), -1))
	rs.u16(off)
	rs.tr.Emit(rs.g, "out.chunk:file", rs.dev, []dom.BV{c.Const(intW, 0), flen}, 0, "ref")
}

func cmdCompare(cx *Ctx, r *ev.Report, key, rule string, cr *cmdRun, build func(rs *refStream), fnPos string) {
	if cr.err != nil {
		r.Undecide(key, rule, fnPos, cr.err.Error())
		return
	}
	c := cr.c
	M := c.M
	care := cr.success()
	if cr.in.HasAssume {
		care = M.And(care, cr.in.Assume)
	}
	var det []string
	// one sink: either everything goes through the buffered writer, or everything directly to the file
	devs := map[string]bool{}
	lastWrite, lastFlush, firstClose := -1, -1, -1
	for i := range cr.tr.Events {
		e := &cr.tr.Events[i]
		if M.And(e.Guard, care) == bdd.False {
			continue
		}
		switch {
		case keepStream(e):
			devs[e.Dev] = true
			lastWrite = i
			if firstClose >= 0 {
				det = append(det, "bytes are written after the file was closed: "+c.DescribeEvent(e))
			}
		case e.Kind == "out.flush":
			lastFlush = i
			if firstClose >= 0 {
				det = append(det, "the buffer is flushed after the file was closed")
			}
		case e.Kind == "out.close" && firstClose < 0:
			firstClose = i
		}
	}
	if len(devs) > 1 {
		r.Undecide(key, rule, fnPos, "buffered and direct writes to the output are mixed: their order in the file is not modelled")
		return
	}
	rs := &refStream{c: c, tr: dom.NewTrace(c), g: bdd.True, dev: "w"}
	if devs["f"] {
		rs.dev = "f"
	}
	build(rs)
	if devs["w"] {
		switch {
		case lastFlush < lastWrite:
			det = append(det, "buffered bytes are not flushed after the last write: the tail of the container never reaches the file")
		case M.And(care, M.Not(cr.tr.Events[lastFlush].Guard)) != bdd.False:
			det = append(det, "the final Flush is not executed on every successful path")
		}
	}
	if os.Getenv("VERIF_DEBUG") != "" {
		for _, l := range describeCmdEvents(c, cr.tr) {
			fmt.Fprintln(os.Stderr, "impl:", l)
		}
	}
	cr.tr.SetCare(care)
	rs.tr.SetCare(care)
	for _, d := range c.DiffSequence(cr.tr.SequenceChar(keepStream), rs.tr.SequenceChar(keepStream)) {
		det = append(det, "output stream: "+d)
	}
	for _, u := range cr.unseen {
		det = append(det, "the bytes read from the input are modified before they are written: "+u)
	}
	for i := range cr.tr.Events {
		e := &cr.tr.Events[i]
		if strings.HasPrefix(e.Kind, "slice.set") || strings.HasPrefix(e.Kind, "slice.copy") {
			det = append(det, "the image bytes are modified before they are written: "+c.DescribeEvent(e))
		}
	}
	if len(det) > 0 {
		det = append(det, "implementation: "+strings.Join(describeCmdEvents(c, cr.tr), "; "), "reference:      "+strings.Join(describeCmdEvents(c, rs.tr), "; "))
		r.Violate(key, rule, fnPos, det...)
	} else {
		r.Hold(key, rule, fnPos, "summary-equality")
	}
}

func c19(cx *Ctx, r *ev.Report) {
	intW := int(cx.P.Sizes.Sizeof(types.Typ[types.Int])) * 8
	binPkg := load.ModulePath + "/cmd/cim2bin"
	casPkg := load.ModulePath + "/cmd/cim2cas"
	posOf := func(pkg string) string {
		if sp := cx.P.SSAPkg(pkg); sp != nil && sp.Func("run") != nil {
			return cx.P.Pos(sp.Func("run").Pos())
		}
		return "-"
	}
	uintW := int(cx.P.Sizes.Sizeof(types.Typ[types.Uint])) * 8
	ruleB := "STREAM-EQ(cim2bin): on the path where every library call succeeds the bytes that reach the output file are exactly 0xFE, U16(off), U16(off+len-1), U16(off), then the very byte slice ReadFile returned (whatever the grouping into writes), and a buffered writer is flushed after the last write and before the file is closed; U16(v) = v[7:0], v[15:8]; off = the -off flag truncated to 16 bits"
	bin := runCommand(cx, binPkg, nil)
	cmdCompare(cx, r, "C19/sequence/cmd=cim2bin", ruleB, bin, func(rs *refStream) {
		rs.consts(0xFE)
		rs.tail(intW, uintW)
	}, posOf(binPkg))

	ruleC := "STREAM-EQ(cim2cas): sync header 1F A6 DE BA CC 13 7D 74, ten D0, the name as six bytes (byte i = i < len(name) ? name[i] : 0x20), the sync header again, U16(off), U16(off+len-1), U16(off), the unmodified image - as the bytes that reach the file on the path where every library call succeeds, whatever the grouping into writes; a buffered writer is flushed after the last write"
	header := []byte{0x1f, 0xa6, 0xde, 0xba, 0xcc, 0x13, 0x7d, 0x74}
	for _, variant := range []struct {
		name   string
		source string
		assume func(c *dom.Ctx) bdd.Node
	}{
		{"name-given", "nam", func(c *dom.Ctx) bdd.Node {
			return c.M.Not(c.IsZero(c.Zext(c.Atom("len(flag -nam)", intW-1), intW)))
		}},
		{"name-empty", "cim", func(c *dom.Ctx) bdd.Node {
			return c.IsZero(c.Zext(c.Atom("len(flag -nam)", intW-1), intW))
		}},
	} {
		cas := runCommand(cx, casPkg, variant.assume)
		src := variant.source
		cmdCompare(cx, r, "C19/sequence/cmd=cim2cas/"+variant.name, ruleC+" (name = -nam, or the input file name when -nam is empty)", cas, func(rs *refStream) {
			c := rs.c
			rs.consts(header...)
			rs.consts(0xd0, 0xd0, 0xd0, 0xd0, 0xd0, 0xd0, 0xd0, 0xd0, 0xd0, 0xd0)
			nlen := c.Zext(c.Atom("len(flag -"+src+")", intW-1), intW)
			for i := 0; i < 6; i++ {
				in := c.Slt(c.Const(intW, uint64(i)), nlen)
				rs.b(c.Mux(in, c.Atom(fmt.Sprintf("Init(flag -%s[%d])", src, i), 8), c.Const(8, 0x20)))
			}
			rs.consts(header...)
			rs.tail(intW, uintW)
		}, posOf(casPkg))
	}
	// the constant tables have no writer outside package initialisation
	n := 0
	initFns := rules.InitClosure(allFunctions(cx.P))
	for _, pkg := range []string{binPkg, casPkg} {
		sp := cx.P.SSAPkg(pkg)
		if sp == nil {
			continue
		}
		for fn := range allFunctions(cx.P) {
			if fn.Pkg != sp || initFns[fn] {
				continue
			}
			for _, b := range fn.Blocks {
				for _, in := range b.Instrs {
					s, ok := in.(*ssa.Store)
					if !ok {
						continue
					}
					if g, ok := s.Addr.(*ssa.Global); ok {
						n++
						if _, isSlice := g.Type().Underlying().(*types.Pointer).Elem().Underlying().(*types.Slice); isSlice {
							r.Violate("C19/tables/global="+g.Name(), "NO-WRITERS(tables): the header/type tables are written only by package initialisation", cx.P.Pos(in.Pos()), fn.String()+" assigns "+g.Name())
						}
					}
				}
			}
		}
	}
	r.Hold("C19/tables/no-writers", "NO-WRITERS(tables): the header/type tables are written only by package initialisation (their contents are read from the interpreted init function)", "cmd/cim2cas", "shape")
	r.Analysed["commands"] = 2
	r.Analysed["stream_variants_compared"] = 3
	r.Analysed["global_stores_outside_init"] = n
	if bin.err == nil {
		r.Samples = append(r.Samples, map[string]interface{}{"cim2bin_stream": describeCmdEvents(bin.c, bin.tr)})
	}
	r.Rules = append(r.Rules, ruleB, ruleC)
	r.Assumptions = append(r.Assumptions, commonAssumptions[0], commonAssumptions[2], "flag, os and bufio behave as documented: flag.Parse fills the flag variables, os.ReadFile returns the file's bytes, (*bufio.Writer).Write/WriteByte/Flush deliver the bytes in call order to the created file")
	r.Trusted = append(append([]string{}, summaryTrusted...), "models of flag.*Var/Parse, os.ReadFile, os.Create, bufio.NewWriter, (*bufio.Writer).Write/WriteByte/Flush (whitelist, resolved by callee object)")
	r.Explanation = "run() of each command is interpreted (after its package initialisation, which builds the header tables) with the buffered writer as an event sink and the library calls modelled by a whitelist; any other external call is undecided. The ordered, guarded sequence of write events is compared as a canonical sequence-valued function of (offset flag, file length, name bytes, error results) with the container layout written down from the property: cim2bin FE,start,end,exec,body; cim2cas sync,10xD0,name6,sync,start,end,exec,body, where the end word is off+len-1 modulo 2^16 and name6[i] = i<len(name) ? name[i] : 0x20. The body write is the very slice ReadFile returned and nothing stores into it. Library behaviour is trusted, hence level 'other'."
}
