package checks

import (
	"fmt"
	"strings"
	"verif/internal/absint"

	"verif/internal/ev"
	"verif/internal/rules"
)

// noLoopsBelowStep is R-DAG(Step): acyclic static call graph, every function
// loop-free, so one Step performs a statically bounded number of actions.
func noLoopsBelowStep(cx *Ctx, r *ev.Report, prop string) *rules.DAGResult {
	d := rules.DAG(cx.P, cx.E.Step)
	pos := cx.P.Pos(cx.E.Step.Pos())
	key := prop + "/one-per-step/func=(*CPU).Step"
	rule := "R-DAG(Step): the call graph below Step is acyclic and every function in it is loop-free - or its loops have a fixed trip count: every summary that interprets the function (all decoder specialisations, the Step rows) followed them concretely to the end"
	var det []string
	if len(d.Loops) > 0 && cx.E != nil {
		// make sure every summary has been computed before the loop log is consulted
		cx.Arms()
		cx.stepAnalysis()
	}
	bounded := 0
	for i, l := range d.Loops {
		if i < len(d.LoopFns) {
			if n, always := absint.LoopFollowed(d.LoopFns[i]); always {
				bounded++
				r.Analysed["bounded_loop:"+d.LoopFns[i].Name()] = fmt.Sprintf("followed concretely in %d interpreted calls", n)
				continue
			}
		}
		det = append(det, "loop in "+l)
	}
	r.Analysed["bounded_loops_below_step"] = bounded
	for _, c := range d.Cycles {
		det = append(det, "call cycle "+c)
	}
	for _, x := range d.Dynamic {
		det = append(det, "call through a function value at "+x)
	}
	for _, g := range d.GoDefer {
		det = append(det, g)
	}
	if len(det) > 0 {
		r.Violate(key, rule, pos, det...)
	} else {
		r.Hold(key, rule, pos, "shape")
	}
	r.Analysed["functions_below_step"] = len(d.Funcs)
	var inv []string
	for k, n := range d.Invokes {
		inv = append(inv, fmt.Sprintf("%s x%d", strings.ReplaceAll(k, "github.com/koron-go/z80.", ""), n))
	}
	r.Analysed["interface_call_sites_below_step"] = inv
	r.Analysed["external_callees_below_step"] = d.Externals
	r.AddFloor("functions_below_step", len(d.Funcs), 20)
	return d
}
