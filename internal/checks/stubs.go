package checks

import "verif/internal/ev"

func c02Uniform(cx *Ctx, r *ev.Report) {}
func c04Compose(cx *Ctx, r *ev.Report) {}

func c11AST(cx *Ctx, r *ev.Report) {}
