package checks

import (
	"fmt"
	"runtime"
	"strings"
	"sync"

	"verif/internal/absint"
	"verif/internal/bdd"
	"verif/internal/dom"
	"verif/internal/engine"
	"verif/internal/ev"
	"verif/internal/isa"
)

func init() { register("C11", "proof", true, c11) }

type mirrorRes struct {
	enc     string
	pos     string
	und     error
	diffs   []string
	foreign []string
	implDD  bool
	implFD  bool
	events  []string
}

func hasLog(t *dom.Trace) bool {
	for _, e := range t.Events {
		if e.Kind == isa.KindLog {
			return true
		}
	}
	return false
}

// mirrorPair decides one opcode of the DD/FD (or DDCB/FDCB) tables: the FD
// form started from the state with IX and IY exchanged must equal the DD form
// with IX and IY exchanged back, with the identical access sequence.
func mirrorPair(e *engine.Engine, dd, fd engine.Spec) *mirrorRes {
	c := dom.NewCtx()
	res := &mirrorRes{enc: dd.String() + " ~ " + fd.String()}
	s1 := e.RunImpl(c, dd, engine.Options{})
	s2 := e.RunImpl(c, fd, engine.Options{SwapIXIY: true})
	res.pos = s1.Pos + " ~ " + s2.Pos
	if s1.Err != nil {
		res.und = s1.Err
		return res
	}
	if s2.Err != nil {
		res.und = s2.Err
		return res
	}
	res.implDD, res.implFD = !hasLog(s1.Trace), !hasLog(s2.Trace)
	for i := range s1.Trace.Events {
		res.events = append(res.events, c.DescribeEvent(&s1.Trace.Events[i]))
	}
	for _, l := range e.Leaves {
		if l.Width == 0 {
			if !absint.SameValue(s1.Other[l.Path], s2.Other[l.Path]) {
				res.diffs = append(res.diffs, fmt.Sprintf("field %s: DD form leaves %s, FD form leaves %s", l.Path, absint.DescribeValue(c, s1.Other[l.Path]), absint.DescribeValue(c, s2.Other[l.Path])))
			}
			continue
		}
		p2 := l.Path
		switch l.Path {
		case isa.LocIX:
			p2 = isa.LocIY
		case isa.LocIY:
			p2 = isa.LocIX
		}
		a, b := s1.Loc[l.Path], s2.Loc[p2]
		if a.Equal(b) {
			continue
		}
		ne := bdd.False
		for i := range a {
			ne = c.M.Or(ne, c.M.Xor(a[i], b[i]))
		}
		w, _ := c.Witness(ne)
		res.diffs = append(res.diffs, fmt.Sprintf("%s after the DD form is %#x but %s after the FD form (run from the IX/IY-exchanged state) is %#x; DD: %s, FD: %s; witness {%s}",
			l.Path, c.EvalBV(a, w), p2, c.EvalBV(b, w), c.Describe(a), c.Describe(b), strings.Join(c.DescribeAssignment(w), " ")))
	}
	q1 := s1.Trace.SequenceChar(nil)
	q2 := s2.Trace.SequenceChar(nil)
	for _, d := range c.DiffSequence(q1, q2) {
		res.diffs = append(res.diffs, "access sequence (DD vs FD): "+d)
	}
	// foreign register: the DD form neither reads nor writes IY
	iy := c.Atom("Init("+isa.LocIY+")", 16)
	foreign := map[int32]bool{}
	for _, b := range iy {
		foreign[c.M.Level(b)] = true
	}
	dep := func(what string, ns ...bdd.Node) {
		sup := map[int32]bool{}
		c.M.SupportOf(sup, ns...)
		for l := range sup {
			if foreign[l] {
				res.foreign = append(res.foreign, what+" depends on IY")
				return
			}
			at, _ := c.AtomOfLevel(l)
			if strings.Contains(at.Name, "Init("+isa.LocIY+")") {
				res.foreign = append(res.foreign, what+" depends on a value read through IY ("+at.Name+")")
				return
			}
		}
	}
	for _, l := range e.Leaves {
		if l.Width == 0 {
			continue
		}
		if l.Path == isa.LocIY {
			if !s1.Loc[l.Path].Equal(iy) {
				res.foreign = append(res.foreign, "the DD form writes IY")
			}
			continue
		}
		dep("the DD form's "+l.Path, s1.Loc[l.Path]...)
	}
	for i := range s1.Trace.Events {
		ev := &s1.Trace.Events[i]
		ns := []bdd.Node{ev.Guard}
		for _, a := range ev.Args {
			ns = append(ns, a...)
		}
		dep("the DD form's access "+c.DescribeEvent(ev), ns...)
	}
	return res
}

func c11(cx *Ctx, r *ev.Report) {
	type job struct {
		dd, fd engine.Spec
		part   string
	}
	var jobs []job
	for k := 0; k < 256; k++ {
		if k == 0xCB {
			continue
		}
		jobs = append(jobs, job{
			engine.Spec{Bytes: map[int]byte{0: 0xDD, 1: byte(k)}, Pattern: "MM", Table: "DD"},
			engine.Spec{Bytes: map[int]byte{0: 0xFD, 1: byte(k)}, Pattern: "MM", Table: "FD"}, "mirror"})
	}
	for k := 0; k < 256; k++ {
		jobs = append(jobs, job{
			engine.Spec{Bytes: map[int]byte{0: 0xDD, 1: 0xCB, 3: byte(k)}, Pattern: "MMFM", Table: "DDCB"},
			engine.Spec{Bytes: map[int]byte{0: 0xFD, 1: 0xCB, 3: byte(k)}, Pattern: "MMFM", Table: "FDCB"}, "mirror-cb"})
	}
	out := make([]*mirrorRes, len(jobs))
	var wg sync.WaitGroup
	sem := make(chan struct{}, runtime.NumCPU())
	for i := range jobs {
		wg.Add(1)
		sem <- struct{}{}
		go func(i int) {
			defer wg.Done()
			defer func() { <-sem }()
			defer func() {
				if x := recover(); x != nil {
					out[i] = &mirrorRes{enc: jobs[i].dd.String(), und: fmt.Errorf("analyzer panic: %v", x)}
				}
			}()
			out[i] = mirrorPair(cx.E, jobs[i].dd, jobs[i].fd)
		}(i)
	}
	wg.Wait()
	ruleM := "MIRROR(k): summary(FD k from the IX/IY-exchanged state) == summary(DD k) with IX/IY exchanged back, incl. the complete access sequence"
	ruleF := "FOREIGN(k): the DD form neither reads nor writes IY (and by MIRROR the FD form neither reads nor writes IX)"
	both, impl := 0, 0
	for i, m := range out {
		k := jobs[i].dd.Bytes[1]
		if jobs[i].part == "mirror-cb" {
			k = jobs[i].dd.Bytes[3]
		}
		key := fmt.Sprintf("C11/%s/k=%02X", jobs[i].part, k)
		fkey := fmt.Sprintf("C11/foreign-register/%s/k=%02X", jobs[i].part, k)
		if m.und != nil {
			r.Undecide(key, ruleM, m.pos, m.und.Error())
			continue
		}
		if m.implDD || m.implFD {
			impl++
		}
		if m.implDD && m.implFD {
			both++
		}
		if len(m.diffs) > 0 {
			det := append([]string{fmt.Sprintf("encodings %s; arms at %s; DD implemented=%v FD implemented=%v", m.enc, m.pos, m.implDD, m.implFD)}, m.diffs...)
			r.Violate(key, ruleM, m.pos, det...)
		} else {
			r.Hold(key, ruleM, m.pos, "summary-equality")
		}
		if len(m.foreign) > 0 {
			r.Violate(fkey, ruleF, m.pos, m.foreign...)
		} else {
			r.Hold(fkey, ruleF, m.pos, "support")
		}
	}
	r.Analysed["opcode_pairs"] = len(jobs)
	r.Analysed["pairs_with_both_arms"] = both
	r.Analysed["decoder"] = cx.E.Exec.String()
	r.AddFloor("opcode_pairs", len(jobs), 511)
	r.AddFloor("pairs_with_both_arms", both, 182)
	for i := 0; i < len(out); i += 60 {
		r.Samples = append(r.Samples, map[string]interface{}{"pair": out[i].enc, "arms": out[i].pos, "dd_implemented": out[i].implDD, "fd_implemented": out[i].implFD, "accesses": out[i].events, "differences": len(out[i].diffs)})
	}
	r.Rules = append(r.Rules, ruleM, ruleF)
	r.Assumptions = append(r.Assumptions, commonAssumptions...)
	r.Trusted = summaryTrusted
	stepGlue(cx, r, "C11")
	r.Explanation = "No reference model is involved: for each of the 255 DD/FD opcodes and 256 DDCB/FDCB opcodes (implemented or not) the FD arm is summarised from the state in which IX and IY hold each other's initial value, and must equal the DD arm's summary with IX and IY exchanged back, including the ordered, guarded sequence of memory/port calls (the prefix byte is a constant of the specialisation). The support of every output of the DD arm must not contain IY."
	if cx.Tier == "thorough" {
		c11AST(cx, r)
	}
}
