package checks

import (
	"fmt"
	"go/types"
	"sort"
	"strings"
	"verif/internal/bdd"
	"verif/internal/engine"

	"golang.org/x/tools/go/ssa"

	"verif/internal/absint"
	"verif/internal/ev"
	"verif/internal/load"
	"verif/internal/rules"
)

func init() { register("C10", "proof", true, c10) }

func c10(cx *Ctx, r *ev.Report) {
	pk := cx.P.SSAPkg(load.ModulePath)
	run := cx.P.Method(load.ModulePath, "CPU", "Run")
	if run == nil {
		r.Fatal = "UNRESOLVED anchor: (*CPU).Run"
		return
	}
	// functions below Step and Run
	dStep := rules.DAG(cx.P, cx.E.Step)
	dRun := rules.DAG(cx.P, run)
	fnSet := map[*ssa.Function]bool{}
	for _, f := range dStep.Funcs {
		fnSet[f] = true
	}
	for _, f := range dRun.Funcs {
		fnSet[f] = true
	}
	var fns []*ssa.Function
	for f := range fnSet {
		fns = append(fns, f)
	}
	sort.Slice(fns, func(i, j int) bool { return fns[i].String() < fns[j].String() })

	// 1. package-level variables: written only by package initialisation
	ruleG := "NO-HIDDEN-STATE(globals): no function of package z80 other than package initialisation stores to a package-level variable (R-WRITERS on globals, all functions, reachable or not)"
	all := allFunctions(cx.P)
	var zf []*ssa.Function
	initFns := rules.InitClosure(all)
	for f := range all {
		if load.InModule(f) && pkgPathOf(f) == load.ModulePath && !initFns[f] {
			zf = append(zf, f)
		}
	}
	effAll := rules.ComputeEffects(cx.P, zf)
	nglob := 0
	for _, m := range pk.Members {
		if g, ok := m.(*ssa.Global); ok && !strings.HasPrefix(g.Name(), "init$") {
			nglob++
			key := "C10/no-hidden-state/global=" + g.Name()
			var det []string
			for _, s := range effAll.GlobalStores {
				if strings.Contains(s, "variable "+g.Name()) {
					det = append(det, s)
				}
			}
			r.Check(len(det) == 0, key, ruleG, cx.P.Pos(g.Pos()), "shape", det...)
		}
	}
	r.Analysed["package_level_variables"] = nglob
	r.AddFloor("package_level_variables", nglob, 1)

	// 2. effects of Step and Run
	// functions below Step/Run, plus the function literals package initialisation
	// builds into tables (they run below Step through those tables)
	var withLits []*ssa.Function
	withLits = append(withLits, fns...)
	seenLit := map[*ssa.Function]bool{}
	for _, f := range fns {
		seenLit[f] = true
	}
	for f := range all {
		top := f
		for top.Parent() != nil {
			top = top.Parent()
		}
		if f.Parent() != nil && initFns[top] && !seenLit[f] && load.InModule(f) && pkgPathOf(top) == load.ModulePath {
			withLits = append(withLits, f)
		}
	}
	eff := rules.ComputeEffectsInit(cx.P, withLits, initFns)
	ruleE := "R-EFFECTS(Step,Run): every store below Step/Run targets a location rooted in a parameter (the receiver, a pointer argument) or a local/captured cell; no package-level variable is written; no map update, channel send"
	var det []string
	det = append(det, eff.GlobalStores...)
	det = append(det, eff.HeapStores...)
	for _, m := range eff.MapUpdates {
		det = append(det, m+": map update below Step/Run")
	}
	for _, m := range eff.Sends {
		if handoffOK(cx) && cx.runSem().okSelects[m] {
			continue // the goroutine posting the context's error to Run: part of the hand-off C13 verified
		}
		det = append(det, m+": channel send below Step/Run")
	}
	// reads of mutable globals: a global read below Step must never be written outside init
	for g, poss := range eff.GlobalReads {
		for _, s := range effAll.GlobalStores {
			name := g[strings.LastIndex(g, ".")+1:]
			if strings.Contains(s, "variable "+name) {
				det = append(det, fmt.Sprintf("%s reads package-level variable %s, which is written at run time (%s)", poss[0], g, s))
			}
		}
	}
	sort.Strings(det)
	r.Check(len(det) == 0, "C10/isolation/effects=Step+Run", ruleE, cx.P.Pos(cx.E.Step.Pos()), "shape", det...)
	r.Analysed["stores_below_step_and_run"] = eff.Stores
	r.Analysed["functions_below_step_and_run"] = len(fns)
	r.Analysed["globals_read_below_step_and_run"] = eff.GlobalReads
	r.AddFloor("stores_below_step_and_run", eff.Stores, 50)

	// 3. external calls: whitelist with reasons
	allowed := map[string]string{
		"log.Printf":             "process-global logger: internally locked, write-only, never read back",
		"math/bits.OnesCount8":   "pure",
		"context.WithCancel":     "Run: derives a private context",
		"sync/atomic.LoadInt32":  "Run: private flag cell",
		"sync/atomic.StoreInt32": "Run: private flag cell",
	}
	ruleX := "EXTERNAL-CALLS(Step,Run): the only calls leaving the module are the user interfaces (Memory, IO, handlers, Context) and a short whitelist of pure or write-only library functions"
	det = nil
	ext := map[string]int{}
	for k, v := range dStep.Externals {
		ext[k] += v
	}
	for k, v := range dRun.Externals {
		ext[k] += v
	}
	for name := range ext {
		ok := false
		for a := range allowed {
			if name == a {
				ok = true
			}
		}
		if strings.HasPrefix(name, "sync/atomic.") || strings.HasPrefix(name, "(*sync/atomic.") || strings.HasPrefix(name, "math/bits.") ||
			absint.PureLibrary(name) || absint.PlainLibraryCode(name) || strings.HasPrefix(name, "log.Print") || strings.HasPrefix(name, "context.With") || name == "context.AfterFunc" {
			ok = true
		}
		if !ok && handoffOK(cx) && cx.runSem().syncCalls[name] {
			ok = true // part of the hand-off between Run and its goroutine, verified by C13's protocol rules
		}
		if !ok {
			det = append(det, "call of "+name+" below Step/Run (not on the whitelist: time, randomness, shared library state?)")
		}
	}
	for _, x := range append(dStep.Dynamic, dRun.Dynamic...) {
		_ = x
	}
	for _, g := range dStep.GoDefer {
		det = append(det, g+" below Step")
	}
	sort.Strings(det)
	r.Check(len(det) == 0, "C10/isolation/external-calls", ruleX, cx.P.Pos(cx.E.Step.Pos()), "shape", det...)
	r.Analysed["external_callees"] = ext
	inv := map[string]int{}
	for k, v := range dStep.Invokes {
		inv[k] += v
	}
	for k, v := range dRun.Invokes {
		inv[k] += v
	}
	r.Analysed["interface_call_sites"] = inv
	// Range over a map below Step/Run (iteration order nondeterminism)
	det = nil
	for _, f := range fns {
		for _, b := range f.Blocks {
			for _, in := range b.Instrs {
				if rg, ok := in.(*ssa.Range); ok {
					if _, isMap := rg.X.Type().Underlying().(*types.Map); isMap {
						det = append(det, cx.P.Pos(in.Pos())+": range over a map below Step/Run (iteration order is not deterministic)")
					}
				}
				if sel, ok := in.(*ssa.Select); ok {
					// a non-blocking poll of one channel has one outcome per channel state; a
					// select over several ready channels picks at random
					if handoffOK(cx) && cx.runSem().okSelects[cx.P.Pos(in.Pos())] {
						// the blocking select of a verified watcher goroutine (C13): the
						// cancellation and "Run is over" - when both are ready Run has returned
						// already, so the choice decides nothing Run computes
						continue
					}
					if sel.Blocking || len(sel.States) > 1 {
						det = append(det, cx.P.Pos(in.Pos())+": select over several channels (or blocking) below Step/Run")
					}
				}
			}
		}
	}
	r.Check(len(det) == 0, "C10/determinism/no-map-iteration", "NO-NONDETERMINISM: no map iteration or select below Step/Run", cx.P.Pos(cx.E.Step.Pos()), "shape", det...)

	// sync/atomic is on the whitelist for cells private to one Run; on a
	// package-level variable it is state shared by all CPUs (race-free, but one
	// CPU's execution can then influence another's)
	det = nil
	atomics := 0
	for _, f := range fns {
		for _, b := range f.Blocks {
			for _, in := range b.Instrs {
				ci, ok := in.(ssa.CallInstruction)
				if !ok || ci.Common().IsInvoke() || len(ci.Common().Args) == 0 {
					continue
				}
				callee := ci.Common().StaticCallee()
				if callee == nil || callee.Pkg == nil && (callee.Origin() == nil || callee.Origin().Pkg == nil) {
					continue
				}
				pk := callee.Pkg
				if pk == nil {
					pk = callee.Origin().Pkg
				}
				if pk.Pkg.Path() != "sync/atomic" && pk.Pkg.Path() != "sync" {
					continue
				}
				atomics++
				v := ci.Common().Args[0]
				for depth := 0; depth < 8; depth++ {
					switch x := v.(type) {
					case *ssa.FieldAddr:
						v = x.X
						continue
					case *ssa.IndexAddr:
						v = x.X
						continue
					case *ssa.Global:
						det = append(det, cx.P.Pos(in.Pos())+": "+callee.String()+" on the package-level variable "+x.Name()+" below Step/Run (state shared by all CPUs)")
					}
					break
				}
			}
		}
	}
	sort.Strings(det)
	r.Check(len(det) == 0, "C10/isolation/no-shared-sync-objects", "PRIVATE-SYNC: every sync and sync/atomic operation below Step/Run works on a cell of the call's own (a local, a field of a fresh object), never on a package-level variable", cx.P.Pos(cx.E.Step.Pos()), "shape", det...)
	r.Analysed["sync_call_sites"] = atomics

	// 4. read and write sets of all arm summaries and of the Step summary
	ruleRW := "READ/WRITE-SET(arm): the summary's support contains only initial values of States fields, Memory/IO/handler nil-ness and bytes returned by devices; it writes only States fields and HALT"
	states := map[string]bool{}
	if l := cx.E.CPU.Underlying().(*types.Struct); l != nil {
		for i := 0; i < l.NumFields(); i++ {
			if l.Field(i).Name() == "States" {
				tmp := []string{}
				_ = tmp
			}
		}
	}
	stObj := cx.P.Pkg(load.ModulePath).Types.Scope().Lookup("States")
	if stObj == nil {
		r.Fatal = "UNRESOLVED anchor: type States"
		return
	}
	for _, l := range cx.E.Leaves {
		states[l.Path] = false
	}
	collectLeaves(stObj.Type(), "", func(p string) { states[p] = true })
	bad := 0
	narm := 0
	for _, a := range cx.Arms() {
		if a.Undecided != nil {
			r.Undecide(armKey("C10", "read-write-set", a), ruleRW, a.Pos, a.Undecided.Error())
			continue
		}
		narm++
		var det []string
		for _, w := range a.Writes {
			if !states[w] && w != "HALT" {
				det = append(det, "writes CPU."+w+", which is not part of States")
			}
		}
		for _, rd := range a.Reads {
			switch {
			case strings.HasPrefix(rd, "Init("):
				f := strings.TrimSuffix(strings.TrimPrefix(rd, "Init("), ")")
				if !states[f] {
					det = append(det, "depends on CPU."+f+", which is not part of States (hidden per-instance state)")
				}
			case strings.HasPrefix(rd, "IsNil("):
			case strings.HasPrefix(rd, "Memory.Get(") || strings.HasPrefix(rd, "IO.In("):
			default:
				det = append(det, "depends on "+rd)
			}
		}
		for _, d := range a.Diffs {
			if d.Cat == "effect" || d.Cat == "event" && (strings.HasPrefix(d.What, "Global") || d.What == "Panic") {
				det = append(det, d.String())
			}
		}
		if len(det) > 0 {
			bad++
			r.Violate(armKey("C10", "read-write-set", a), ruleRW, a.Pos, det...)
		}
	}
	if bad == 0 {
		r.Hold("C10/read-write-set/arms=all", ruleRW+fmt.Sprintf(" (%d arm summaries)", narm), cx.P.Pos(cx.E.Exec.Pos()), "support")
	}
	r.Analysed["arm_summaries_examined"] = narm
	r.AddFloor("arm_summaries_examined", narm, 1786)
	// the same for Step itself (request handling around the decoder) and for the
	// instructions a mode-0 request supplies
	ruleRS := "READ/WRITE-SET(Step): the Step summary depends only on States fields, the pending request (type, data), nil-ness of the attachments, what the decoder left and bytes returned by devices; it stores nothing outside the CPU"
	if sa := cx.stepAnalysis(); sa.err != nil {
		r.Undecide("C10/read-write-set/step", ruleRS, cx.P.Pos(cx.E.Step.Pos()), sa.err.Error())
	} else {
		var det []string
		sup := map[string]bool{}
		addAtoms := func(bs ...bdd.Node) {
			for _, a := range sa.c.AtomsIn(bs...) {
				sup[a] = true
			}
		}
		for k, v := range sa.impl.Loc {
			if v.Equal(sa.c.Atom("Init("+k+")", len(v))) {
				continue // untouched: its own initial value is no dependency
			}
			// the value a location keeps on the paths that leave it alone is no dependency either
			own := map[string]bool{}
			for _, a := range sa.c.AtomsIn(v...) {
				own[a] = true
			}
			delete(own, "Init("+k+")")
			for a := range own {
				sup[a] = true
			}
		}
		for i := range sa.impl.Trace.Events {
			e := &sa.impl.Trace.Events[i]
			addAtoms(e.Guard)
			for _, a := range e.Args {
				addAtoms(a...)
			}
			if strings.HasPrefix(e.Kind, "Global") {
				det = append(det, "Step reads package-level state: "+sa.c.DescribeEvent(e))
			}
		}
		for a := range sup {
			switch {
			case strings.HasPrefix(a, "Init(Interrupt") || strings.HasPrefix(a, "len(Interrupt") || strings.HasPrefix(a, "IsNil(") || strings.HasPrefix(a, "PostExec") ||
				strings.HasPrefix(a, "Memory.Get(") || strings.HasPrefix(a, "IO.In(") || strings.HasPrefix(a, "probe."):
			case strings.HasPrefix(a, "Init("):
				f := strings.TrimSuffix(strings.TrimPrefix(a, "Init("), ")")
				if !states[f] {
					det = append(det, "Step depends on CPU."+f+", which is not part of States (a CPU rebuilt from States and memory behaves differently)")
				}
			default:
				det = append(det, "Step depends on "+a)
			}
		}
		for _, x := range sa.impl.Extra {
			det = append(det, "Step stores to "+x+" (outside the CPU's documented fields)")
		}
		sort.Strings(det)
		r.Check(len(det) == 0, "C10/read-write-set/step", ruleRS, cx.P.Pos(cx.E.Step.Pos()), "support", det...)
		for _, ic := range sa.im0 {
			key := "C10/read-write-set/im0=" + ic.name
			if ic.und != nil {
				r.Undecide(key, ruleRS, cx.P.Pos(cx.E.Step.Pos()), ic.und.Error())
				continue
			}
			ds := diffStrings(ic.diffs, func(d engine.Diff) bool {
				return d.Cat == "effect" || d.Cat == "event" && (strings.HasPrefix(d.What, "Global") || d.What == "Panic")
			})
			r.Check(len(ds) == 0, key, ruleRS, cx.P.Pos(cx.E.Step.Pos()), "support", ds...)
		}
	}

	// 5. snapshot: States is a plain value type, and everything in CPU is exported
	var refs, unexp []string
	rules.RefKinds(stObj.Type(), "States", &refs, 0)
	r.Check(len(refs) == 0, "C10/snapshot/type=States", "R-TYPES(States): no pointer, map, slice, chan, func or interface is reachable by value from States, so a copy is a snapshot", cx.P.Pos(stObj.Pos()), "types", refs...)
	rules.Unexported(cx.E.CPU, "CPU", &unexp, 0)
	r.Check(len(unexp) == 0, "C10/no-hidden-state/type=CPU", "R-TYPES(CPU): every field of CPU (transitively) is exported, so the per-instance state is exactly the public state", cx.P.Pos(cx.E.CPU.Obj().Pos()), "types", unexp...)
	nleaf := 0
	for _, v := range states {
		if v {
			nleaf++
		}
	}
	r.Analysed["states_leaf_fields"] = nleaf
	r.AddFloor("states_leaf_fields", nleaf, 25)

	r.Rules = append(r.Rules, ruleG, ruleE, ruleX, ruleRW)
	r.Samples = []interface{}{
		map[string]interface{}{"external_callees": ext, "interface_call_sites": inv},
		map[string]interface{}{"sample_arm": cx.Arms()[0x86].Enc, "reads": cx.Arms()[0x86].Reads, "writes": cx.Arms()[0x86].Writes},
	}
	r.Assumptions = append(r.Assumptions, commonAssumptions...)
	r.Assumptions = append(r.Assumptions, "log.Printf is process-global but internally synchronised and write-only; user-supplied Memory/IO values of different CPUs are distinct objects")
	r.Trusted = append(append([]string{}, summaryTrusted...), "verif/internal/rules (effects, writers, types)")
	r.Explanation = "Determinism: each arm summary is, by construction, the outcome as a function of its support; the support of all 1786 summaries is contained in {initial States fields, nil-ness of IO/handlers, bytes returned by Memory.Get/IO.In}: no global, time, randomness, map order or hidden field. Snapshot: States has no reference-typed component and CPU has no unexported field. Isolation/race freedom: below Step and Run every store targets a location rooted in the receiver, a pointer argument or a local/captured cell; no package-level variable is written anywhere in the package outside initialisation; the only calls leaving the module are the user interfaces and a whitelist (log.Printf, math/bits, sync/atomic, context.WithCancel). Two CPUs with distinct receivers and devices therefore share no location, for every interleaving. (The dynamic race detector the property mentions is not used.)"
}

func pkgPathOf(f *ssa.Function) string {
	for f.Parent() != nil {
		f = f.Parent()
	}
	if f.Pkg != nil {
		return f.Pkg.Pkg.Path()
	}
	return ""
}

func collectLeaves(t types.Type, path string, f func(string)) {
	switch u := t.Underlying().(type) {
	case *types.Struct:
		for i := 0; i < u.NumFields(); i++ {
			fd := u.Field(i)
			p := path
			if !fd.Embedded() {
				if p == "" {
					p = fd.Name()
				} else {
					p = p + "." + fd.Name()
				}
			}
			collectLeaves(fd.Type(), p, f)
		}
	default:
		f(path)
	}
}

// handoffOK: the value summary of Run decided the hand-off between Run and its
// goroutine and found nothing wrong with it (C13's watcher, race and leak rules).
func handoffOK(cx *Ctx) bool {
	sem := cx.runSem()
	return sem.err == nil && sem.hasWatcher && len(sem.watch) == 0 && len(sem.race) == 0 && len(sem.leak) == 0
}
