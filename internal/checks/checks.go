// Package checks has one checker per property.  A checker turns analysis
// results into obligations (package ev); it never executes repository code.
package checks

import (
	"fmt"
	"go/types"
	"sort"
	"strings"
	"sync"

	"golang.org/x/tools/go/ssa"

	"verif/internal/absint"
	"verif/internal/engine"
	"verif/internal/ev"
	"verif/internal/isa"
	"verif/internal/load"
	"verif/internal/rules"
)

// Ctx is the shared analysis context of one process.
type Ctx struct {
	P    *load.Program
	E    *engine.Engine
	Tier string
	Cfg  load.Config

	armsOnce sync.Once
	arms     []*engine.ArmResult

	stepOnce sync.Once
	step     *stepAnalysis

	runOnce sync.Once
	runS    *runSem
}

func (cx *Ctx) runSem() *runSem {
	cx.runOnce.Do(func() {
		defer func() {
			if x := recover(); x != nil {
				cx.runS = &runSem{err: fmt.Errorf("analyzer panic in the Run summary: %v", x), returns: map[string]int{}}
			}
		}()
		cx.runS = analyseRunSem(cx)
	})
	return cx.runS
}

// InstallResolvers lets the shape rules resolve calls through constant
// function tables (package-level arrays/slices of functions that only package
// initialisation writes), using the engine's interpreted initialisation.
func (cx *Ctx) InstallResolvers() {
	if cx.E == nil {
		return
	}
	rules.ResolveCallSite = func(site ssa.CallInstruction) ([]*ssa.Function, bool) {
		// every summary first: the log is complete only then
		cx.Arms()
		cx.stepAnalysis()
		return absint.DynTargets(site)
	}
	rules.ResolveFuncValue = func(v ssa.Value) ([]*ssa.Function, bool) {
		u, ok := v.(*ssa.UnOp)
		if !ok {
			return nil, false
		}
		var g *ssa.Global
		switch a := u.X.(type) {
		case *ssa.IndexAddr:
			switch b := a.X.(type) {
			case *ssa.Global:
				g = b
			case *ssa.UnOp: // slice loaded from a global
				g, _ = b.X.(*ssa.Global)
			}
		case *ssa.Global:
			g = a
		}
		if g == nil {
			return nil, false
		}
		root := "global:" + g.RelString(nil)
		if !cx.E.InitOnly[root] {
			return nil, false
		}
		var out []*ssa.Function
		n := 0
		want := map[string]bool{root: true}
		if sv, ok := cx.E.GlobalInit.Get(root, ""); ok {
			if sl, ok := sv.(*absint.Slice); ok {
				want[sl.Root] = true
			}
		}
		for _, k := range cx.E.GlobalInit.Keys() {
			r, p := absint.SplitKey(k)
			if !want[r] {
				continue
			}
			val, _ := cx.E.GlobalInit.Get(r, p)
			if fv, ok := val.(*absint.FuncV); ok && fv.Fn != nil {
				out = append(out, fv.Fn)
				n++
			}
		}
		return out, n > 0
	}
}

// Arms runs (once) the comparison of every opcode-byte prefix.
func (cx *Ctx) Arms() []*engine.ArmResult {
	cx.armsOnce.Do(func() { cx.arms = cx.E.CompareAll() })
	return cx.arms
}

type Check struct {
	Level string
	Fn    func(cx *Ctx, r *ev.Report)
	// NeedsEngine: requires the decoder anchors.
	NeedsEngine bool
	// NeedsTests: load test files too.
	NeedsTests bool
}

var Registry = map[string]Check{}

func register(id, level string, needsEngine bool, fn func(cx *Ctx, r *ev.Report)) {
	Registry[id] = Check{Level: level, Fn: fn, NeedsEngine: needsEngine}
}

var commonAssumptions = []string{
	"go/packages, go/types and go/ssa (x/tools v0.29.0) model the Go source faithfully; the Go compiler is out of scope",
	"Memory/IO/handler callbacks return and do not modify the CPU they are attached to during a Step (except CPU.Interrupt, see C08)",
	"no code of /repo is executed: every verdict is computed from the type-checked source of the current working tree",
}

var summaryTrusted = []string{
	"verif/internal/bdd (canonical boolean functions)", "verif/internal/dom (exact bit-vector transfer functions)",
	"verif/internal/absint (SSA abstract interpreter)", "golang.org/x/tools/go/ssa v0.29.0", "go/types",
}

// armSelection describes which arms and which differences a property owns.
type armSelection struct {
	prop     string
	rule     string
	keyPart  string
	classes  map[string]bool // nil = all
	diffKeep func(a *engine.ArmResult, d engine.Diff) bool
}

// effClass is the reference class of an arm, or "invalid" for an encoding the
// repository does not implement and is not required to.
func effClass(a *engine.ArmResult) string {
	if !a.Implemented && a.Undecided == nil && a.Info.Status != isa.Doc {
		return "invalid"
	}
	return a.Info.Class
}

func classSet(cs ...string) map[string]bool {
	m := map[string]bool{}
	for _, c := range cs {
		m[c] = true
	}
	return m
}

func eventKind(d engine.Diff) string {
	if d.Cat != "event" {
		return ""
	}
	return d.What
}

func armKey(prop, part string, a *engine.ArmResult) string {
	name := a.Info.Name
	if name == "" {
		name = "?"
	}
	return fmt.Sprintf("%s/%s/arm=%s (%s)", prop, part, a.Enc, name)
}

// armObligations adds one obligation per selected arm.
func armObligations(cx *Ctx, r *ev.Report, sel armSelection) (selected int) {
	for _, a := range cx.Arms() {
		if sel.classes != nil && !sel.classes[effClass(a)] {
			continue
		}
		selected++
		key := armKey(sel.prop, sel.keyPart, a)
		if a.Undecided != nil {
			r.Undecide(key, sel.rule, a.Pos, a.Undecided.Error())
			continue
		}
		var det []string
		for _, d := range a.Diffs {
			if sel.diffKeep == nil || sel.diffKeep(a, d) {
				det = append(det, d.String())
			}
		}
		if len(det) == 0 {
			r.Hold(key, sel.rule, a.Pos, "summary-equality")
			continue
		}
		head := fmt.Sprintf("encoding %s = %s [%s]; arm at %s; functions: %s", a.Enc, a.Info.Name, a.Info.Status, a.Pos, strings.Join(shortFuncs(a.Funcs), ", "))
		det = append([]string{head}, det...)
		det = append(det, "implementation accesses: "+strings.Join(a.ImplEvents, "; "), "reference accesses:      "+strings.Join(a.RefEvents, "; "))
		if a.Note != "" {
			det = append(det, "note: "+a.Note)
		}
		r.Violate(key, sel.rule, a.Pos, det...)
	}
	return
}

func shortFuncs(fs []string) []string {
	var out []string
	for _, f := range fs {
		f = strings.ReplaceAll(f, "github.com/koron-go/z80.", "")
		f = strings.ReplaceAll(f, "(*CPU).", "cpu.")
		out = append(out, f)
	}
	return out
}

func armSamples(cx *Ctx, classes map[string]bool, n int) []interface{} {
	var out []interface{}
	arms := cx.Arms()
	var sel []*engine.ArmResult
	for _, a := range arms {
		if classes == nil || classes[effClass(a)] {
			sel = append(sel, a)
		}
	}
	if len(sel) == 0 {
		return nil
	}
	step := len(sel)/n + 1
	for i := 0; i < len(sel); i += step {
		a := sel[i]
		out = append(out, map[string]interface{}{
			"encoding": a.Enc, "instruction": a.Info.Name, "class": a.Info.Class, "status": a.Info.Status.String(),
			"arm": a.Pos, "implemented": a.Implemented, "functions": shortFuncs(a.Funcs),
			"accesses": a.ImplEvents, "differences": len(a.Diffs),
		})
	}
	return out
}

func armAnalysed(cx *Ctx, r *ev.Report) {
	arms := cx.Arms()
	impl, instrs := 0, 0
	funcs := map[string]bool{}
	byClass := map[string]int{}
	byTable := map[string]int{}
	for _, a := range arms {
		if a.Implemented {
			impl++
		}
		instrs += a.Instrs
		for _, f := range a.Funcs {
			funcs[f] = true
		}
		byClass[a.Info.Class]++
		byTable[a.Spec.Table]++
	}
	r.Analysed["opcode_prefixes_specialised"] = len(arms)
	r.Analysed["arms_implemented"] = impl
	r.Analysed["decoder"] = cx.E.Exec.String()
	r.Analysed["decoder_switch_cases"] = cx.E.SwitchCases
	r.Analysed["functions_interpreted"] = len(funcs)
	r.Analysed["ssa_instructions_interpreted"] = instrs
	r.Analysed["arms_by_class"] = byClass
	r.Analysed["prefixes_by_table"] = byTable
	r.Analysed["go_files"] = cx.P.GoFiles
	var fs []string
	for f := range funcs {
		fs = append(fs, f)
	}
	sort.Strings(fs)
	r.Extra["functions"] = shortFuncs(fs)
}

func ptrTo(t types.Type) types.Type { return types.NewPointer(t) }

func isStateLike(d engine.Diff) bool {
	return d.Cat == "state" || d.Cat == "frame" || d.Cat == "effect" || d.Cat == "catalogue"
}
