package checks

import (
	"fmt"
	"go/types"
	"strings"

	"golang.org/x/tools/go/ssa"

	"verif/internal/absint"
	"verif/internal/bdd"
	"verif/internal/dom"
	"verif/internal/ev"
	"verif/internal/load"
)

func init() { register("C15", "other", false, c15) }

// memRun summarises one method of the bundled device types with the receiver
// and the slice/map/interface arguments as symbolic handles.
type memRun struct {
	c    *dom.Ctx
	in   *absint.Interp
	tr   *dom.Trace
	res  absint.Value
	out  *absint.State
	err  error
	fn   *ssa.Function
	args []string
}

func runMem(cx *Ctx, typ, method string) *memRun {
	fn := cx.P.Method(load.ModulePath, typ, method)
	if fn == nil {
		return &memRun{err: fmt.Errorf("UNRESOLVED anchor: method %s.%s", typ, method)}
	}
	c := dom.NewCtx()
	tr := dom.NewTrace(c)
	in := absint.New(cx.P, c, tr)
	in.LoopBodies = true
	in.Models = map[string]absint.ModelFunc{
		"reflect.DeepEqual": func(in *absint.Interp, args []absint.Value, guard bdd.Node, st *absint.State, pos string) (absint.Value, bool) {
			var ds []string
			for _, a := range args {
				iv, ok := a.(*absint.Iface)
				if !ok || iv.Conc == nil {
					return nil, false
				}
				m, ok := iv.Conc.(*absint.Map)
				if !ok {
					return nil, false
				}
				ds = append(ds, m.Sym)
			}
			if len(ds) == 2 && ds[0] > ds[1] {
				ds[0], ds[1] = ds[1], ds[0] // DeepEqual is symmetric
			}
			return c.Atom("DeepEqual("+strings.Join(ds, ",")+")", 1), true
		},
	}
	// generic helpers of the standard library that are plain loops over a map
	in.InterpretExternal = map[string]bool{"maps.Copy": true, "maps.Equal": true, "maps.EqualFunc": true, "maps.DeleteFunc": true}
	m := &memRun{c: c, in: in, tr: tr, fn: fn}
	var args []absint.Value
	for i, p := range fn.Params {
		name := "recv"
		if i > 0 {
			name = p.Name()
		}
		m.args = append(m.args, name)
		args = append(args, in.SymbolicValue(p.Type(), name))
	}
	m.res, m.out, m.err = in.Run(fn, args, absint.NewState())
	return m
}

// expectation helpers --------------------------------------------------------

type memExpect struct {
	tr  *dom.Trace
	res absint.Value
}

func (m *memRun) intW() int { return int(m.in.P.Sizes.Sizeof(types.Typ[types.Int])) * 8 }

func (m *memRun) atom(name string, w int) dom.BV { return m.c.Atom("Init("+name+")", w) }

func (m *memRun) lenOf(name string) dom.BV {
	w := m.intW()
	return m.c.Zext(m.c.Atom("len("+name+")", w-1), w)
}

func (m *memRun) compare(r *ev.Report, key, rule string, exp *dom.Trace, wantRes absint.Value, extra ...string) {
	pos := "-"
	if m.fn != nil {
		pos = m.in.P.Pos(m.fn.Pos())
	}
	if m.err != nil {
		r.Undecide(key, rule, pos, m.err.Error())
		return
	}
	c := m.c
	var det []string
	det = append(det, extra...)
	for _, d := range c.DiffMultiset(m.tr.MultisetChar(nil), exp.MultisetChar(nil)) {
		det = append(det, "accesses to the underlying storage: "+d)
	}
	if !absint.SameValue(m.res, wantRes) {
		msg := fmt.Sprintf("result is %s, expected %s", absint.DescribeValue(c, m.res), absint.DescribeValue(c, wantRes))
		if a, ok := m.res.(dom.BV); ok {
			if b, ok := wantRes.(dom.BV); ok && len(a) == len(b) {
				w, _ := c.Witness(c.M.Not(c.Eq(a, b)))
				msg += fmt.Sprintf(": %#x vs %#x for {%s}", c.EvalBV(a, w), c.EvalBV(b, w), strings.Join(c.DescribeAssignment(w), " "))
			}
		}
		det = append(det, msg)
	}
	for _, k := range m.out.Keys() {
		if root, p := absint.SplitKey(k); !strings.HasPrefix(root, "alloc#") {
			det = append(det, "stores to "+root+"."+p)
		}
	}
	if len(det) > 0 {
		var evs []string
		for i := range m.tr.Events {
			evs = append(evs, c.DescribeEvent(&m.tr.Events[i]))
		}
		det = append(det, "implementation: "+strings.Join(evs, "; "))
		r.Violate(key, rule, pos, det...)
	} else {
		r.Hold(key, rule, pos, "summary-equality")
	}
}

func c15(cx *Ctx, r *ev.Report) {
	// ---- slice types: Get / In ----
	for _, t := range []struct {
		typ, get, set string
		aw            int
	}{{"DumbMemory", "Get", "Set", 16}, {"DumbIO", "In", "Out", 8}} {
		m := runMem(cx, t.typ, t.get)
		if m.err == nil {
			c := m.c
			w := m.intW()
			addr := m.atom(m.args[1], t.aw)
			ai := c.Zext(addr, w)
			inb := c.Slt(ai, m.lenOf("recv"))
			exp := dom.NewTrace(c)
			v := exp.Emit(inb, "slice.get", "recv", []dom.BV{ai}, 8, "ref")
			m.compare(r, "C15/slice-types/func="+t.typ+"."+t.get, "ACCESSOR-EQ: result = (addr < len) ? element[addr] : 0; one element read under that guard, index = the unmodified address; nothing stored",
				exp, c.Mux(inb, v, c.Const(8, 0)))
		} else {
			r.Undecide("C15/slice-types/func="+t.typ+"."+t.get, "ACCESSOR-EQ", "", m.err.Error())
		}
		m = runMem(cx, t.typ, t.set)
		if m.err == nil {
			c := m.c
			w := m.intW()
			addr := m.atom(m.args[1], t.aw)
			val := m.atom(m.args[2], 8)
			ai := c.Zext(addr, w)
			inb := c.Slt(ai, m.lenOf("recv"))
			exp := dom.NewTrace(c)
			exp.Emit(inb, "slice.set", "recv", []dom.BV{ai, val}, 0, "ref")
			m.compare(r, "C15/slice-types/func="+t.typ+"."+t.set, "ACCESSOR-EQ: exactly one store element[addr] = value when addr < len, nothing otherwise; index and value are the unmodified parameters", exp, nil)
		} else {
			r.Undecide("C15/slice-types/func="+t.typ+"."+t.set, "ACCESSOR-EQ", "", m.err.Error())
		}
	}
	// ---- DumbMemory.Put ----
	if m := runMem(cx, "DumbMemory", "Put"); m.err == nil {
		c := m.c
		w := m.intW()
		addr := m.atom(m.args[1], 16)
		exp := dom.NewTrace(c)
		dl := m.lenOf(m.args[2])
		exp.Emit(bdd.True, "slice.copy<-"+m.args[2], "recv", []dom.BV{c.Zext(addr, w), dl, dl}, 0, "ref")
		var extra []string
		if s, ok := m.res.(*absint.Slice); !ok || s.Sym != "recv" || s.LoV != nil || !s.Len.Equal(m.lenOf("recv")) {
			extra = append(extra, "Put does not return the receiver")
		}
		m.compare(r, "C15/slice-types/func=DumbMemory.Put", "BLOCK-COPY: one copy of data into the window [addr, addr+len(data)) of the receiver; returns the receiver", exp, m.res, extra...)
	} else {
		r.Undecide("C15/slice-types/func=DumbMemory.Put", "BLOCK-COPY", "", m.err.Error())
	}
	// ---- MapMemory.Get / Set ----
	if m := runMem(cx, "MapMemory", "Get"); m.err == nil {
		c := m.c
		addr := m.atom(m.args[1], 16)
		exp := dom.NewTrace(c)
		res := exp.Emit(bdd.True, "map.get", "recv", []dom.BV{addr}, 9, "ref")
		m.compare(r, "C15/map-type/func=MapMemory.Get", "ACCESSOR-EQ: result = present(addr) ? value(addr) : 0xC7; one lookup keyed by the unmodified address", exp, c.Mux(c.M.And(c.M.Not(c.Atom("IsNil(recv)", 1)[0]), res[8]), res.Slice(0, 8), c.Const(8, 0xC7)))
	} else {
		r.Undecide("C15/map-type/func=MapMemory.Get", "ACCESSOR-EQ", "", m.err.Error())
	}
	if m := runMem(cx, "MapMemory", "Set"); m.err == nil {
		c := m.c
		exp := dom.NewTrace(c)
		exp.Emit(bdd.True, "map.set", "recv", []dom.BV{m.atom(m.args[1], 16), m.atom(m.args[2], 8)}, 0, "ref")
		m.compare(r, "C15/map-type/func=MapMemory.Set", "ACCESSOR-EQ: exactly one insert map[addr] = value with the unmodified parameters", exp, nil)
	} else {
		r.Undecide("C15/map-type/func=MapMemory.Set", "ACCESSOR-EQ", "", m.err.Error())
	}
	// ---- MapMemory.Equal ----
	if m := runMem(cx, "MapMemory", "Equal"); m.err == nil {
		c := m.c
		an := m.args[1] + ".(z80.MapMemory)"
		okb := c.Atom("ok("+an+")", 1)[0]
		names := []string{an, "recv"}
		if names[0] > names[1] {
			names[0], names[1] = names[1], names[0]
		}
		deq := c.Atom("DeepEqual("+strings.Join(names, ",")+")", 1)[0]
		ruleE := "EQUAL: false unless the argument is a MapMemory; otherwise reflect.DeepEqual(receiver, argument) (which distinguishes nil from empty maps and compares contents)"
		if len(m.in.Loops) == 1 {
			// hand-written comparison: decided by the entry-wise idiom
			det := c15Entrywise(m, an, okb)
			r.Check(len(det) == 0, "C15/map-type/func=MapMemory.Equal", ruleE+" - here by ENTRYWISE: same nil-ness, same length, and every ranged entry of one map is present with the same value in the other (then the maps are equal as sets of entries); true on no other path", cx.P.Pos(m.fn.Pos()), "summary-equality", det...)
		} else {
			m.compare(r, "C15/map-type/func=MapMemory.Equal", ruleE,
				dom.NewTrace(c), dom.BV{c.M.And(okb, deq)})
		}
	} else {
		r.Undecide("C15/map-type/func=MapMemory.Equal", "EQUAL", "", m.err.Error())
	}
	// ---- loops: Put, Clone, Clear ----
	c15Loop(cx, r, "Put")
	c15Loop(cx, r, "Clone")
	c15Loop(cx, r, "Clear")

	r.Analysed["methods_summarised"] = len(r.Obls)
	r.AddFloor("methods_summarised", len(r.Obls), 11)
	r.Rules = append(r.Rules, "ACCESSOR-EQ(method): the summary of the method over symbolic slice/map handles (element reads/writes, lookups, inserts, deletes recorded as guarded events) equals the defining formula", "LOOP-BODY(method): the loop is summarised by its initial values, one interpreted body and the values flowing along the back edge")
	r.Samples = []interface{}{
		map[string]string{"DumbMemory.Get": "mux(zext(addr) <s len(recv), slice.get(recv, zext(addr)), 0)", "MapMemory.Get": "mux(present, value, 0xC7) of map.get(recv, addr)", "MapMemory.Put": "addr phi: init addr, step +1 (uint16); body: map.set(recv, addr_phi, slice.get(data, i+1)) while i+1 < len(data)"},
	}
	r.Assumptions = append(r.Assumptions, commonAssumptions[0], commonAssumptions[2], "Go's slice, map, copy, range and reflect.DeepEqual semantics (trusted language/library semantics): an element read returns the value last stored at that index, range visits every entry once")
	r.Trusted = append(append([]string{}, summaryTrusted...), "Go slice/map/copy/reflect.DeepEqual semantics")
	r.Explanation = "All eleven methods of the bundled device types are summarised over symbolic handles. Get/In/Set/Out: bounds guard, index and value are the unmodified parameters, exactly one element access under 'addr < len', 0 otherwise (so a value stored is the value returned for that address, and addresses beyond the slice read 0 / ignore writes). MapMemory.Get/Set: one lookup/insert, default 0xC7. Put (slice): one block copy into [addr, addr+len(data)). Put (map): the loop's address variable starts at addr and steps by +1 in uint16 (wraps past 0xFFFF by type), each iteration inserts data[i] at it, i from 0 while i < len(data). Clone: result is a fresh map, body inserts every ranged (key,value) into it, the receiver is not written. Clear: body deletes every ranged key. Equal: comma-ok assertion, then reflect.DeepEqual. The for-all-histories statement ('value last written there') rests on Go's slice/map semantics, which are trusted, hence level 'other'."
}

func c15Loop(cx *Ctx, r *ev.Report, method string) {
	m := runMem(cx, "MapMemory", method)
	key := "C15/map-type/func=MapMemory." + method
	rule := map[string]string{
		"Put":   "LOOP-BODY: address variable init = addr, step +1 (uint16, wraps by type); element index from 0 step +1 while < len(data); body inserts data[index] at the address variable into the receiver; returns the receiver",
		"Clone": "LOOP-BODY: result is a fresh map (not the receiver); the body inserts every ranged (key, value) into it; the receiver is not modified",
		"Clear": "LOOP-BODY: the body deletes every ranged key from the receiver; nothing else",
	}[method]
	pos := "-"
	if m.fn != nil {
		pos = cx.P.Pos(m.fn.Pos())
	}
	if m.err != nil {
		r.Undecide(key, rule, pos, m.err.Error())
		return
	}
	c := m.c
	var det []string
	if method == "Clear" && len(m.in.Loops) == 0 {
		// the builtin clear(map) removes every entry
		exp := dom.NewTrace(c)
		exp.Emit(bdd.True, "map.clear", "recv", nil, 0, "ref")
		for _, d := range c.DiffMultiset(m.tr.MultisetChar(nil), exp.MultisetChar(nil)) {
			det = append(det, d)
		}
		if m.res != nil {
			det = append(det, "Clear returns a value")
		}
		r.Check(len(det) == 0, key, "CLEAR: exactly one clear(receiver)", pos, "summary-equality", det...)
		return
	}
	if len(m.in.Loops) != 1 {
		det = append(det, fmt.Sprintf("%d loops found, expected one", len(m.in.Loops)))
		r.Violate(key, rule, pos, det...)
		return
	}
	ls := m.in.Loops[0]
	if len(ls.StoreChanged) > 0 {
		det = append(det, "the loop body changes "+strings.Join(ls.StoreChanged, ", "))
	}
	exp := dom.NewTrace(c)
	w := m.intW()
	switch method {
	case "Put":
		var aPhi, iPhi string
		for _, f := range ls.Init {
			bv, ok := f.Val.(dom.BV)
			if !ok {
				continue
			}
			switch {
			case len(bv) == 16 && bv.Equal(m.atom(m.args[1], 16)):
				aPhi = f.Phi
			case len(bv) == w:
				if k, isc := bv.IsConst(); isc && (k == ^uint64(0)>>(64-uint(w)) || k == 0) {
					iPhi = f.Phi
					if k == 0 {
						iPhi = "0:" + f.Phi
					}
				}
			}
		}
		if aPhi == "" && iPhi != "" {
			// shape without an address variable: map[addr+uint16(i)] = data[i]
			zb := strings.HasPrefix(iPhi, "0:")
			name := strings.TrimPrefix(iPhi, "0:")
			iAtom := c.Atom(fmt.Sprintf("loop%d.%s", ls.ID, name), w)
			for _, f := range ls.Back {
				if bv, _ := f.Val.(dom.BV); f.Phi == name && !bv.Equal(c.AddK(iAtom, 1)) {
					det = append(det, "the element index does not advance by exactly 1")
				}
			}
			idx := c.AddK(iAtom, 1)
			if zb {
				idx = iAtom
			}
			g := c.Slt(idx, m.lenOf(m.args[2]))
			v := exp.Emit(g, "slice.get", m.args[2], []dom.BV{idx}, 8, "ref")
			exp.Emit(g, "map.set", "recv", []dom.BV{c.Add(m.atom(m.args[1], 16), c.Trunc(idx, 16)), v}, 0, "ref")
			if ls.BackPred != c.M.And(ls.EntryPred, g) {
				det = append(det, "the loop can be left other than by exhausting data (or continues past it)")
			}
		} else if aPhi == "" {
			det = append(det, "no address variable initialised with the addr parameter")
		}
		if iPhi == "" {
			det = append(det, "no element index counting from the start of data")
		}
		if aPhi != "" && iPhi != "" {
			zeroBased := strings.HasPrefix(iPhi, "0:")
			iPhi = strings.TrimPrefix(iPhi, "0:")
			aAtom := c.Atom(fmt.Sprintf("loop%d.%s", ls.ID, aPhi), 16)
			iAtom := c.Atom(fmt.Sprintf("loop%d.%s", ls.ID, iPhi), w)
			for _, f := range ls.Back {
				bv, _ := f.Val.(dom.BV)
				switch f.Phi {
				case aPhi:
					if !bv.Equal(c.AddK(aAtom, 1)) {
						det = append(det, "the address variable does not advance by exactly 1 (uint16) per element: "+c.Describe(bv))
					}
				case iPhi:
					if !bv.Equal(c.AddK(iAtom, 1)) {
						det = append(det, "the element index does not advance by exactly 1")
					}
				}
			}
			idx := c.AddK(iAtom, 1)
			if zeroBased {
				idx = iAtom
			}
			g := c.Slt(idx, m.lenOf(m.args[2]))
			v := exp.Emit(g, "slice.get", m.args[2], []dom.BV{idx}, 8, "ref")
			exp.Emit(g, "map.set", "recv", []dom.BV{aAtom, v}, 0, "ref")
			if ls.BackPred != c.M.And(ls.EntryPred, g) {
				det = append(det, "the loop can be left other than by exhausting data (or continues past it)")
			}
		}
		if mp, ok := m.res.(*absint.Map); !ok || mp.Sym != "recv" {
			det = append(det, "Put does not return the receiver")
		}
	case "Clone":
		mp, ok := m.res.(*absint.Map)
		if !ok || !strings.HasPrefix(mp.Sym, "newmap#") || mp.Nil != bdd.False {
			det = append(det, "Clone does not return a freshly made map (it returns "+absint.DescribeValue(c, m.res)+")")
		} else {
			pre := "range#1(recv)"
			exp.Emit(c.Atom(pre+".more", 1)[0], "map.set", mp.Sym, []dom.BV{c.Atom(pre+".key", 16), c.Atom(pre+".value", 8)}, 0, "ref")
			if ls.BackPred != c.M.And(ls.EntryPred, c.Atom(pre+".more", 1)[0]) {
				det = append(det, "the loop can be left before every entry was visited")
			}
		}
	case "Clear":
		pre := "range#1(recv)"
		exp.Emit(c.Atom(pre+".more", 1)[0], "map.delete", "recv", []dom.BV{c.Atom(pre+".key", 16)}, 0, "ref")
		if ls.BackPred != c.M.And(ls.EntryPred, c.Atom(pre+".more", 1)[0]) {
			det = append(det, "the loop can be left before every entry was visited")
		}
		if m.res != nil {
			det = append(det, "Clear returns a value")
		}
	}
	for _, d := range c.DiffMultiset(m.tr.MultisetChar(nil), exp.MultisetChar(nil)) {
		det = append(det, "storage accesses of one iteration: "+d)
	}
	if len(det) > 0 {
		var evs []string
		for i := range m.tr.Events {
			evs = append(evs, c.DescribeEvent(&m.tr.Events[i]))
		}
		det = append(det, "implementation (one iteration): "+strings.Join(evs, "; "))
		r.Violate(key, rule, pos, det...)
	} else {
		r.Hold(key, rule, pos, "summary-equality")
	}
}

// c15Entrywise decides a loop-based MapMemory.Equal: with X the ranged map and
// Y the other one, the function must return true exactly when the argument is
// a MapMemory, X and Y agree in nil-ness and length, and the loop runs to
// exhaustion, where an iteration continues iff Y holds the ranged key with the
// ranged value.  |X| = |Y| and X a subset of Y give X = Y.
func c15Entrywise(m *memRun, an string, okb bdd.Node) []string {
	c := m.c
	M := c.M
	ls := m.in.Loops[0]
	var det []string
	var x, y string
	for _, cand := range [][2]string{{"recv", an}, {an, "recv"}} {
		for _, a := range c.AtomsIn(ls.BackPred) {
			if a == "range#1("+cand[0]+").more" {
				x, y = cand[0], cand[1]
			}
		}
	}
	if x == "" {
		return []string{"the loop does not range over the receiver or the argument"}
	}
	pre := "range#1(" + x + ")"
	more := c.Atom(pre+".more", 1)[0]
	key := c.Atom(pre+".key", 16)
	val := c.Atom(pre+".value", 8)
	exp := dom.NewTrace(c)
	got := exp.Emit(M.And(ls.EntryPred, more), "map.get", y, []dom.BV{key}, 9, "ref")
	for _, d := range c.DiffMultiset(m.tr.MultisetChar(nil), exp.MultisetChar(nil)) {
		det = append(det, "storage accesses of one iteration: "+d)
	}
	if len(ls.StoreChanged) > 0 {
		det = append(det, "the loop body changes "+strings.Join(ls.StoreChanged, ", "))
	}
	nilX, nilY := c.Atom("IsNil("+x+")", 1)[0], c.Atom("IsNil("+y+")", 1)[0]
	w := m.intW()
	lenOf := func(n string) dom.BV { return c.Zext(c.Atom("len("+n+")", w-1), w) }
	lenEq := c.Eq(lenOf(x), lenOf(y))
	lenZero := c.IsZero(lenOf(x))
	// a nil map has length 0, and a nil map is not ranged over
	care := M.And(M.And(M.Or(M.Not(nilX), lenZero), M.Or(M.Not(nilY), c.IsZero(lenOf(y)))), M.Or(M.Not(nilX), M.Not(more)))
	pre0 := M.And(okb, M.And(M.Not(M.Xor(nilX, nilY)), lenEq))
	entry := ls.EntryPred
	good := M.And(M.Not(nilY), M.And(got[8], c.Eq(got.Slice(0, 8), val)))
	cont := M.And(entry, M.And(more, good))
	say := func(cond bdd.Node, msg string) {
		cond = M.And(cond, care)
		if cond != bdd.False {
			wit, _ := c.Witness(cond)
			det = append(det, msg+" - e.g. {"+strings.Join(c.DescribeAssignment(wit), " ")+"}")
		}
	}
	say(M.Xor(ls.BackPred, cont), "an iteration must continue exactly when the other map holds the ranged key with the ranged value")
	say(M.And(entry, M.Not(pre0)), "the loop is entered although the argument is not a MapMemory, or nil-ness or lengths differ")
	say(M.And(M.Not(entry), M.And(pre0, M.Not(lenZero))), "with equal nil-ness and equal non-zero lengths the entries are not compared")
	want := M.Or(M.And(M.Not(entry), M.And(pre0, lenZero)), M.And(entry, M.Not(more)))
	// the merged result on every path that returns (on 'cont' the loop goes round)
	if bv, ok := m.res.(dom.BV); !ok || len(bv) != 1 {
		det = append(det, "the result is not a boolean")
	} else {
		say(M.And(M.Not(cont), M.Xor(bv[0], want)), "wrong result")
	}
	if len(det) > 0 {
		var evs []string
		for i := range m.tr.Events {
			evs = append(evs, c.DescribeEvent(&m.tr.Events[i]))
		}
		det = append(det, "implementation (one iteration): "+strings.Join(evs, "; "))
	}
	return det
}
