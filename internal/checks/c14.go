package checks

import (
	"fmt"
	"strings"

	"golang.org/x/tools/go/ssa"

	"verif/internal/absint"
	"verif/internal/bdd"
	"verif/internal/dom"
	"verif/internal/engine"
	"verif/internal/ev"
	"verif/internal/isa"
	"verif/internal/load"
	"verif/internal/rules"
)

func init() { register("C14", "proof", true, c14) }

func c14(cx *Ctx, r *ev.Report) {
	// 1. per arm: R advances by the number of opcode fetches (1, 2, or 2..3
	//    for DDCB/FDCB), bit 7 and I unchanged, except LD R,A / LD I,A
	n := armObligations(cx, r, armSelection{prop: "C14", rule: "REFRESH(arm): post[R] and post[I] equal the reference (R += opcode fetches mod 128, bit 7 kept; only LD R,A / LD I,A assign)", keyPart: "refresh",
		diffKeep: func(a *engine.ArmResult, d engine.Diff) bool {
			return d.Cat == "state" && (d.What == isa.LocR || d.What == isa.LocI)
		}})
	r.Analysed["arms_selected"] = n
	// 2. LD A,I / LD A,R / LD I,A / LD R,A in full
	m := armObligations(cx, r, armSelection{prop: "C14", rule: "SUMMARY-EQ(arm): LD A,I / LD A,R / LD I,A / LD R,A", keyPart: "ld-ir", classes: classSet("ldir")})
	r.AddFloor("ld_ir_arms", m, 4)
	// 3. only ED 47 changes I, only ED 4F sets R from A: read off the arms
	chI, chR7 := 0, 0
	for _, a := range cx.Arms() {
		if a.Undecided != nil || !a.Implemented {
			continue
		}
		if strings.HasPrefix(a.Info.Name, "LD I,A") {
			chI++
		}
		if strings.HasPrefix(a.Info.Name, "LD R,A") {
			chR7++
		}
	}
	r.Analysed["arms_assigning_I"] = chI
	r.Analysed["arms_assigning_R"] = chR7
	// 3b. Step itself: on the rows of the decision table that execute the
	//     instruction at PC, R and I are what the decoder left - so every Step,
	//     also one spent halted (the HALT opcode is re-decoded), counts its
	//     fetches; on no row is I changed
	if sa := cx.stepAnalysis(); sa.err != nil {
		r.Undecide("C14/step", "REFRESH(step row)", cx.P.Pos(cx.E.Step.Pos()), sa.err.Error())
	} else {
		ruleT := "REFRESH(step row): after a Step on a row that executes the instruction at PC (no request, refused request) the decoder was run exactly once from the unmodified state and R, I are what it left (every Step, also one spent halted, counts its opcode fetches); on the accepting rows I is unchanged"
		for _, row := range sa.rows {
			executes := row.name == "no-request" || row.name == "refused" || row.name == "IM-other"
			ds := diffStrings(cx.E.CompareUnder(sa.impl, sa.ref, row.pred), func(d engine.Diff) bool {
				if d.Cat == "state" && d.What == isa.LocI {
					return true
				}
				return executes && ((d.Cat == "state" && d.What == isa.LocR) || (d.Cat == "event" && d.What == isa.KindExec))
			})
			r.Check(len(ds) == 0, "C14/step/row="+row.name, ruleT, cx.P.Pos(cx.E.Step.Pos()), "summary-equality", ds...)
		}
	}
	// 4. the opcode-fetch helper, found by role: the callee whose result the
	//    decoder's first switch tests
	c14FetchHelper(cx, r)
	// 5. who may write IR: only functions interpreted below the decoder
	below := map[string]bool{}
	for _, a := range cx.Arms() {
		for _, f := range a.Funcs {
			below[f] = true
		}
	}
	fns := map[*ssa.Function]bool{}
	for fn := range allFunctions(cx.P) {
		if fn.Pkg != nil && fn.Pkg.Pkg.Path() == load.ModulePath {
			fns[fn] = true
		}
	}
	sites := rules.Writers(fns, func(p []string) bool {
		return rules.SuffixMatch("IR")(p) || rules.SuffixMatch("IR", "Lo")(p) || rules.SuffixMatch("IR", "Hi")(p)
	})
	rule := "R-WRITERS(IR): every store to SPR.IR (field, half, covering struct, or escaping address) lies in a function interpreted below the decoder, so every write is accounted for by an arm summary"
	reach := reachableFromStepOrRun(cx)
	for _, s := range sites {
		key := fmt.Sprintf("C14/writers/func=%s/%s", s.Fn, s.Path)
		if !reach[s.Fn] {
			// a helper the user has to call himself: it cannot act while a program executes
			r.Hold(key, rule+" (not reachable from Step or Run: acts only when the user calls it)", cx.P.Pos(s.Pos.Pos()), "shape")
			continue
		}
		if below[s.Fn.String()] {
			r.Hold(key, rule, cx.P.Pos(s.Pos.Pos()), "shape")
		} else {
			r.Violate(key, rule, cx.P.Pos(s.Pos.Pos()), fmt.Sprintf("%s (%s of %s) is not reached from any decoder arm: the refresh/interrupt-vector register is written outside instruction execution", s.Fn, s.Kind, s.Path))
		}
	}
	r.Analysed["ir_write_sites"] = len(sites)
	r.AddFloor("ir_write_sites", len(sites), 1)
	summaryReport(cx, r, classSet("ldir"))
	r.Rules = append(r.Rules, rule)
	r.Explanation = "R after every one of the 1786 specialised prefixes equals the reference: advanced once per opcode fetch (1 unprefixed, 2 for CB/ED/DD/FD, 2 or 3 accepted for DDCB/FDCB, the same for unsupported encodings), modulo 128 with bit 7 kept, as an 8-bit boolean function (all 256 values incl. 0x7F->0x00); I unchanged; operand bytes do not advance R. Repetitions of block instructions and Steps spent halted re-decode the opcode (C07/boundary-pc), so they count again. LD A,I/LD A,R/LD I,A/LD R,A equal the reference (R including the instruction's own fetches, P/V=IFF2, C kept). Every store to IR in the package lies below the decoder."
}

func c14FetchHelper(cx *Ctx, r *ev.Report) {
	var helper *ssa.Function
	for _, in := range cx.E.Exec.Blocks[0].Instrs {
		if c, ok := in.(*ssa.Call); ok {
			helper = c.Call.StaticCallee()
			break
		}
	}
	key := "C14/r-update/func=opcode-fetch-helper"
	rule := "R-UPDATE: the decoder's opcode-fetch helper reads the byte at PC, increments PC, and sets R = (R & 0x80) | ((R+1) & 0x7F)"
	if helper == nil || !load.InModule(helper) {
		r.Undecide(key, rule, cx.P.Pos(cx.E.Exec.Pos()), "UNRESOLVED: the decoder does not start with a static call to an opcode-fetch helper")
		return
	}
	c := dom.NewCtx()
	tr := dom.NewTrace(c)
	in := absint.New(cx.P, c, tr)
	in.AddSymbolicRoot("cpu", "")
	res, out, err := in.Run(helper, []absint.Value{&absint.Ptr{Root: "cpu", Nil: bdd.False}}, absint.NewState())
	pos := cx.P.Pos(helper.Pos())
	if err != nil {
		r.Undecide(key, rule, pos, err.Error())
		return
	}
	var det []string
	rr := c.Atom("Init("+isa.LocR+")", 8)
	want := append(c.AddK(rr.Slice(0, 7), 1), rr[7])
	got := in.Load(out, &absint.Ptr{Root: "cpu", Path: isa.LocR, Nil: bdd.False}, cx.E.LeafByPath(isa.LocR).Type, 0).(dom.BV)
	if !got.Equal(want) {
		w, _ := c.Witness(c.M.Not(c.Eq(got, want)))
		det = append(det, fmt.Sprintf("R becomes %#x, expected %#x, for %v", c.EvalBV(got, w), c.EvalBV(want, w), c.DescribeAssignment(w)))
	}
	pc := c.Atom("Init("+isa.LocPC+")", 16)
	gotPC := in.Load(out, &absint.Ptr{Root: "cpu", Path: isa.LocPC, Nil: bdd.False}, cx.E.LeafByPath(isa.LocPC).Type, 0).(dom.BV)
	if !gotPC.Equal(c.AddK(pc, 1)) {
		det = append(det, "PC is not advanced by exactly 1: "+c.Describe(gotPC))
	}
	if len(tr.Events) != 1 || tr.Events[0].Kind != isa.KindMemGet || !tr.Events[0].Args[0].Equal(pc) || tr.Events[0].Guard != bdd.True {
		det = append(det, "the helper does not perform exactly one Memory.Get(PC)")
	} else if bv, ok := res.(dom.BV); !ok || !bv.Equal(tr.Events[0].Res) {
		det = append(det, "the helper does not return the byte it read")
	}
	for _, k := range out.Keys() {
		_, p := absint.SplitKey(k)
		if strings.HasPrefix(k, "cpu|") && p != isa.LocR && p != isa.LocPC {
			v, _ := out.Get("cpu", p)
			if l := cx.E.LeafByPath(p); l != nil && l.Width > 0 && v.(dom.BV).Equal(c.Atom("Init("+p+")", l.Width)) {
				continue
			}
			det = append(det, "the helper also changes "+p)
		}
	}
	if len(det) > 0 {
		r.Violate(key, rule, pos, append([]string{"helper: " + helper.String()}, det...)...)
	} else {
		r.Hold(key, rule, pos, "summary-equality")
	}
}
