package checks

import (
	"fmt"
	"go/constant"
	"go/token"
	"sort"

	"golang.org/x/tools/go/ssa"

	"verif/internal/ev"
	"verif/internal/load"
)

// C13: Run honours cancellation at an instruction boundary, leak- and
// race-free.  Decided structurally on Run and the watcher closure.
func c13(cx *Ctx, r *ev.Report) {
	ri, err := analyseRun(cx)
	if err != nil {
		r.Fatal = err.Error()
		return
	}
	pos := cx.P.Pos(ri.run.Pos())
	res := ri.explore()
	// (1) every cycle passes a cancellation check that precedes Step; a
	// positive check leads to the context's error without another Step
	ruleC := "CHECK-EVERY-CYCLE: every iteration of Run's loop tests cancellation before its Step, and a positive test returns the context's error without executing another Step (value summary of the loop iteration; CFG automaton as fallback)"
	var det []string
	if sem := cx.runSem(); sem.err == nil {
		det = append(det, sem.violations...)
		if sem.returns[retCtx] == 0 {
			det = append(det, "no return of the context's error")
		}
	} else {
		for _, v := range res.violations {
			det = append(det, v)
		}
		if !res.hasCheck {
			det = append(det, "no cancellation test recognised in Run")
		}
		if res.accepted["cancelled->ctxerr"] == 0 {
			det = append(det, "no return of the context's error after a positive cancellation test")
		}
	}
	sort.Strings(det)
	r.Check(len(det) == 0, "C13/check-every-cycle/func=(*CPU).Run", ruleC, pos, "shape", det...)

	// (2) watcher protocol, if a watcher goroutine exists
	ruleW := "WATCHER-PROTOCOL: the goroutine started by Run captures nothing rooted in the CPU; it blocks once - on Done() of a context derived from the caller's, or in a select over the caller's Done() and quit channels made by the code -, then (only on the paths that saw the context done) stores that context's/the parent's Err() into the error cell, then publishes with an atomic store of a non-zero flag - in that order, with no other blocking operation"
	ruleR := "RACE-FREE-HANDOFF: in Run every access to the flag cell is a sync/atomic call and every read of the error cell is dominated by the positive cancellation test (release/acquire through the atomic pair)"
	ruleL := "NO-LEAK: what ends the goroutine's wait - the CancelFunc of the WithCancel call whose context it waits on, or the close of a quit channel it selects on - happens on every return on which the goroutine was started (deferred before the goroutine starts, every return runs the deferred calls); a wait of Run for the goroutine's exit comes after that and is matched by a signal the goroutine gives on all its paths"
	if sem := cx.runSem(); sem.err == nil {
		// decided on the value summary: the goroutine (wherever it is started -
		// in Run or in a helper Run calls) is interpreted on its own trace
		if !sem.hasWatcher {
			r.Hold("C13/watcher-protocol/func=(*CPU).Run", ruleW+" (no watcher goroutine: cancellation is polled synchronously)", pos, "value")
			r.Hold("C13/race-free-handoff/func=(*CPU).Run", ruleR+" (nothing shared)", pos, "value")
			r.Hold("C13/no-leak/func=(*CPU).Run", ruleL+" (no goroutine)", pos, "value")
		} else {
			w := uniqueStrings(append([]string{}, sem.watch...))
			r.Check(len(w) == 0, "C13/watcher-protocol/func=(*CPU).Run", ruleW, pos, "value", w...)
			w = uniqueStrings(append([]string{}, sem.race...))
			r.Check(len(w) == 0, "C13/race-free-handoff/func=(*CPU).Run", ruleR, pos, "value", w...)
			w = uniqueStrings(append([]string{}, sem.leak...))
			r.Check(len(w) == 0, "C13/no-leak/func=(*CPU).Run", ruleL, pos, "value", w...)
		}
	} else if ri.goInstr == nil {
		// idiom without a goroutine (e.g. ctx.Err() polled in the loop): nothing to leak or race -
		// provided no helper Run calls (outside Step's tree) starts one either
		goN := 0
		seen := map[*ssa.Function]bool{}
		var visit func(fn *ssa.Function)
		visit = func(fn *ssa.Function) {
			if fn == nil || seen[fn] || fn == cx.E.Step || fn.Blocks == nil || !load.InModule(fn) {
				return
			}
			seen[fn] = true
			for _, af := range fn.AnonFuncs {
				visit(af)
			}
			for _, b := range fn.Blocks {
				for _, in := range b.Instrs {
					switch x := in.(type) {
					case *ssa.Go:
						goN++
					case ssa.CallInstruction:
						visit(x.Common().StaticCallee())
					}
				}
			}
		}
		visit(ri.run)
		if goN > 0 {
			why := "a goroutine is started in a way neither the value summary (" + cx.runSem().err.Error() + ") nor the structural fallback can follow (UNDECIDED)"
			r.Undecide("C13/no-leak/func=(*CPU).Run", ruleL, pos, why)
			r.Undecide("C13/watcher-protocol/func=(*CPU).Run", ruleW, pos, why)
		} else {
			r.Hold("C13/no-leak/func=(*CPU).Run", ruleL, pos, "shape")
			r.Hold("C13/watcher-protocol/func=(*CPU).Run", ruleW+" (no watcher goroutine: cancellation is polled synchronously)", pos, "shape")
		}
	} else {
		det = nil
		cl := ri.closure
		if cl == nil {
			det = append(det, cx.P.Pos(ri.goInstr.Pos())+": the go statement does not start a function literal (UNDECIDED)")
		} else {
			// (i) captures
			for i, bnd := range ri.bindings {
				if _, ok := bnd.(*ssa.Alloc); !ok {
					det = append(det, fmt.Sprintf("%s: the watcher captures %s, which is not a local cell", cx.P.Pos(ri.goInstr.Pos()), bnd.Name()))
				}
				if bnd == ssa.Value(ri.cpu) {
					det = append(det, "the watcher captures the CPU")
				}
				if fa, ok := bnd.(*ssa.FieldAddr); ok {
					if p, ok := ri.cpuField(fa); ok {
						det = append(det, "the watcher captures &CPU."+p)
					}
				}
				_ = i
			}
			// (ii) body order
			var recv, errStore, flagStore ssa.Instruction
			var recvOrigin, errOrigin string
			for _, b := range cl.Blocks {
				for _, in := range b.Instrs {
					switch x := in.(type) {
					case *ssa.UnOp:
						if x.Op == token.ARROW {
							if recv != nil {
								det = append(det, cx.P.Pos(x.Pos())+": a second channel receive in the watcher")
							}
							recv = x
							if c, ok := x.X.(*ssa.Call); ok && c.Call.IsInvoke() && c.Call.Method.Name() == "Done" {
								recvOrigin = ri.ctxOrigin(c.Call.Value, cl)
							}
						}
					case *ssa.Store:
						if c, ok := x.Val.(*ssa.Call); ok && c.Call.IsInvoke() && c.Call.Method.Name() == "Err" {
							errStore = x
							errOrigin = ri.ctxOrigin(c.Call.Value, cl)
							cell := ri.resolveCell(x.Addr, cl)
							if ri.errCell != nil && cell != ri.errCell {
								det = append(det, cx.P.Pos(x.Pos())+": the watcher stores the error into a cell Run does not return")
							}
						} else if cell := ri.resolveCell(x.Addr, cl); cell == ri.flagCell && ri.flagCell != nil {
							det = append(det, cx.P.Pos(x.Pos())+": the watcher writes the flag with a plain store (data race with Run's atomic load)")
						}
					case *ssa.Call:
						switch {
						case isAtomicStore(&x.Call):
							flagStore = x
							if len(x.Call.Args) > 0 {
								if cell := ri.resolveCell(x.Call.Args[0], cl); ri.flagCell != nil && cell != ri.flagCell {
									det = append(det, cx.P.Pos(x.Pos())+": the watcher publishes through a different cell than Run loads")
								}
							}
							if len(x.Call.Args) > 1 {
								if c, ok := x.Call.Args[1].(*ssa.Const); ok && c.Value != nil && c.Value.Kind() == constant.Int {
									if v, _ := constant.Int64Val(c.Value); v == 0 {
										det = append(det, cx.P.Pos(x.Pos())+": the watcher stores 0 into the flag (never observed as cancelled)")
									}
								}
							}
						case x.Call.IsInvoke() && (x.Call.Method.Name() == "Done" || x.Call.Method.Name() == "Err"):
						default:
							det = append(det, fmt.Sprintf("%s: the watcher calls %s (outside the protocol)", cx.P.Pos(x.Pos()), x.Call.Value.Name()))
						}
					case *ssa.Select, *ssa.Send, *ssa.Go, *ssa.Defer:
						det = append(det, fmt.Sprintf("%s: %T in the watcher (outside the protocol)", cx.P.Pos(in.Pos()), in))
					}
				}
			}
			switch {
			case recv == nil:
				det = append(det, "the watcher does not wait on a Done() channel")
			case recvOrigin != "derived":
				det = append(det, cx.P.Pos(recv.Pos())+": the watcher waits on Done() of "+map[string]string{"param": "the caller's context only: if that is never cancelled the goroutine outlives Run", "": "an unknown context"}[recvOrigin])
			}
			if errStore == nil {
				det = append(det, "the watcher never records the context's error")
			} else if errOrigin == "" {
				det = append(det, cx.P.Pos(errStore.Pos())+": the recorded error does not come from the caller's or the derived context")
			}
			if flagStore == nil {
				det = append(det, "the watcher never publishes with an atomic store")
			}
			if recv != nil && errStore != nil && flagStore != nil {
				if !instrBefore(recv, errStore) || !instrBefore(errStore, flagStore) {
					det = append(det, cx.P.Pos(flagStore.Pos())+": order is not  wait -> record error -> publish flag  (Run could read the error before it is written)")
				}
			}
		}
		sort.Strings(det)
		r.Check(len(det) == 0, "C13/watcher-protocol/func=(*CPU).Run$1", ruleW, cx.P.Pos(ri.goInstr.Pos()), "shape", det...)

		// (iii) accesses in Run
		det = nil
		if ri.flagCell == nil {
			det = append(det, "no atomically loaded flag cell found in Run")
		} else if refs := ri.flagCell.Referrers(); refs != nil {
			for _, ref := range *refs {
				switch x := ref.(type) {
				case *ssa.Call:
					if !isAtomicLoad(&x.Call) && !isAtomicStore(&x.Call) {
						det = append(det, cx.P.Pos(x.Pos())+": the flag cell is passed to a non-atomic function")
					}
				case *ssa.MakeClosure, *ssa.DebugRef:
				case *ssa.UnOp:
					det = append(det, cx.P.Pos(x.Pos())+": the flag is read with a plain load (data race with the watcher's store)")
				case *ssa.Store:
					if x.Addr == ri.flagCell {
						det = append(det, cx.P.Pos(x.Pos())+": the flag is written with a plain store")
					}
				}
			}
		}
		if ri.errCell != nil {
			if refs := ri.errCell.Referrers(); refs != nil {
				for _, ref := range *refs {
					if u, ok := ref.(*ssa.UnOp); ok && u.Op == token.MUL {
						if !dominatedByCancel(ri, u) {
							det = append(det, cx.P.Pos(u.Pos())+": the error cell is read on a path that did not observe the flag (unsynchronised read)")
						}
					}
					if s, ok := ref.(*ssa.Store); ok && s.Addr == ri.errCell {
						det = append(det, cx.P.Pos(s.Pos())+": Run itself writes the error cell (races with the watcher)")
					}
				}
			}
		}
		sort.Strings(det)
		r.Check(len(det) == 0, "C13/race-free-handoff/func=(*CPU).Run", ruleR, pos, "shape", det...)

		// no leak
		det = nil
		switch {
		case ri.withCancel == nil:
			det = append(det, "no derived cancellable context: nothing ends the watcher when Run returns for another reason")
		case ri.deferInstr == nil:
			det = append(det, cx.P.Pos(ri.withCancel.Pos())+": the CancelFunc of the derived context is not deferred: the watcher is left behind when Run returns on HALT or a breakpoint")
		default:
			if !instrBefore(ri.deferInstr, ri.goInstr) {
				det = append(det, cx.P.Pos(ri.deferInstr.Pos())+": the cancel is deferred after the goroutine starts")
			}
		}
		for _, b := range ri.run.Blocks {
			if b.Comment == "recover" {
				continue
			}
			for i, in := range b.Instrs {
				if _, ok := in.(*ssa.Return); ok {
					found := false
					for _, p := range b.Instrs[:i] {
						if _, ok := p.(*ssa.RunDefers); ok {
							found = true
						}
					}
					if !found {
						det = append(det, cx.P.Pos(in.Pos())+": return without running the deferred cancel")
					}
				}
			}
		}
		sort.Strings(det)
		r.Check(len(det) == 0, "C13/no-leak/func=(*CPU).Run", ruleL, pos, "shape", det...)
	}
	// boundary: Run applies whole Steps only (same rule as C08/only-step)
	stores := 0
	var bdet []string
	for _, b := range ri.run.Blocks {
		for _, in := range b.Instrs {
			if s, ok := in.(*ssa.Store); ok {
				if p, ok := ri.cpuField(s.Addr); ok {
					stores++
					if p != "HALT" {
						bdet = append(bdet, cx.P.Pos(in.Pos())+": Run stores to CPU."+p)
					}
				}
			}
		}
	}
	r.Check(len(bdet) == 0, "C13/boundary/func=(*CPU).Run", "BOUNDARY: between entry and any return Run changes the CPU only through whole calls of Step (and the entry store HALT=false)", pos, "shape", bdet...)
	d := noLoopsBelowStep(cx, r, "C13")
	_ = d
	r.Analysed["function"] = ri.run.String()
	r.Analysed["watcher"] = ri.closure != nil
	r.Analysed["automaton_nodes_visited"] = res.visited
	r.Analysed["run_returns"] = res.accepted
	r.Samples = []interface{}{map[string]interface{}{"returns": res.accepted, "events": res.events}}
	r.Rules = append(r.Rules, ruleC, ruleW, ruleR, ruleL)
	r.Assumptions = append(r.Assumptions, commonAssumptions...)
	r.Assumptions = append(r.Assumptions, "context.WithCancel, Context.Done/Err and sync/atomic behave as documented (Go memory model: an atomic store observed by an atomic load orders the writes before it)",
		"channels and sync.WaitGroup behave as documented: close wakes every receiver and a closed channel is always ready, a send into a buffer with room does not block, close/send happen before the receive that observes them, Wait returns once every Add is matched by a Done; a context whose Done() is nil is never done")
	r.Trusted = []string{"golang.org/x/tools/go/ssa v0.29.0", "verif/internal/checks/c08.go, c13.go, run_sem.go", "context, sync, sync/atomic, channels (library and language semantics)"}
	r.Explanation = "Decided on the value summary of Run's loop (see C08) and, for the hand-off, by interpreting the function the watcher goroutine runs - wherever it is started (a go statement in Run or in a helper, or context.AfterFunc) - on a trace of its own: every iteration reads a fresh observation of the cancellation state before its Step and the decision not to Step depends on nothing else, a positive test returns the context's error with no further Step, so Run returns within one Step (finite: no unbounded loop below Step, C12) of observing the cancellation; the goroutine captures nothing of the CPU, blocks once - on Done() of a context Run derives from the caller's (or it is registered with AfterFunc), or in a select over the caller's Done() and quit channels the code made -, writes the error and only then publishes, on exactly the paths that saw the context done: with one atomic store (a flag, or a pointer to the already written error), by closing a channel Run polls, or by posting the error on a buffered channel Run polls; Run loads the published cell only atomically (or polls the channel), reads a plainly written cell only on paths that observed the publication, never writes a shared cell after the go statement (no data race under the Go memory model); every return on which the goroutine was started is covered by what ends it - the deferred CancelFunc of the derived context or the close of a quit channel - and a wait of Run for the goroutine's exit (channel close, WaitGroup) comes after that and is matched by a signal on all the goroutine's paths (no goroutine left behind, no hang); Run changes the CPU only through whole Steps (state reachable by a whole number of Steps). A watcher outside this vocabulary (mutexes, pools, unbuffered hand-offs) is reported as undecided. NOT decided: the real-time delay between cancellation and return (scheduler latency before the watcher runs) and races inside user callbacks."
}

// instrBefore: a executes before b on every path reaching b (same block
// order, or a's block strictly dominates b's).
func instrBefore(a, b ssa.Instruction) bool {
	if a.Block() == b.Block() {
		for _, in := range a.Block().Instrs {
			if in == a {
				return true
			}
			if in == b {
				return false
			}
		}
	}
	return a.Block().Dominates(b.Block())
}

// dominatedByCancel: the load lies in a block dominated by the true branch of
// a recognised cancellation test.
func dominatedByCancel(ri *runInfo, u *ssa.UnOp) bool {
	for _, b := range ri.run.Blocks {
		if len(b.Instrs) == 0 {
			continue
		}
		iff, ok := b.Instrs[len(b.Instrs)-1].(*ssa.If)
		if !ok {
			continue
		}
		cc := ri.classifyCond(iff.Cond)
		if cc.kind != "cancel" {
			continue
		}
		target := b.Succs[0]
		if !cc.truth {
			target = b.Succs[1]
		}
		if target.Dominates(u.Block()) && len(target.Preds) == 1 {
			return true
		}
	}
	return false
}
