package checks

import (
	"fmt"
	"os"
	"os/exec"
	"path/filepath"
	"runtime"
	"strings"
	"sync"

	"verif/internal/ev"
	"verif/internal/load"
)

// RunControls applies every control mutant registered for prop (one process
// per mutant, in memory through packages.Config.Overlay) and reports whether
// the check fired.  A control whose anchor text is gone is skipped.  Controls
// never influence the verdict on the real tree.
func RunControls(prop string) []ev.Control {
	file := filepath.Join(ev.Dir(), "selftest", "controls.json")
	ms, err := load.ReadMutants(file)
	if err != nil {
		return []ev.Control{{ID: "controls.json", Outcome: "error", Note: err.Error()}}
	}
	self, err := os.Executable()
	if err != nil {
		return []ev.Control{{ID: "self", Outcome: "error", Note: err.Error()}}
	}
	var sel []load.Mutant
	for _, m := range ms {
		for _, p := range m.Properties {
			if p == prop {
				sel = append(sel, m)
			}
		}
	}
	out := make([]ev.Control, len(sel))
	var wg sync.WaitGroup
	par := runtime.NumCPU() / 4
	if par < 1 {
		par = 1
	}
	sem := make(chan struct{}, par)
	for i, m := range sel {
		wg.Add(1)
		sem <- struct{}{}
		go func(i int, m load.Mutant) {
			defer wg.Done()
			defer func() { <-sem }()
			cmd := exec.Command(self, "-prop", prop, "-mutant", file, "-mutant-id", m.ID, "-no-evidence")
			cmd.Env = os.Environ()
			b, err := cmd.CombinedOutput()
			c := ev.Control{ID: m.ID, Expect: m.Expect, Note: m.Note}
			code := 0
			if err != nil {
				if ee, ok := err.(*exec.ExitError); ok {
					code = ee.ExitCode()
				} else {
					code = 2
				}
			}
			switch code {
			case 0:
				c.Outcome = "silent"
			case 1:
				c.Outcome = "fired"
				if strings.Contains(string(b), "does not type-check") {
					// a control that does not compile proves nothing about the rule
					c.Outcome = "does-not-compile"
				}
				for _, l := range strings.Split(string(b), "\n") {
					if strings.Contains(l, "key=") {
						c.Note = strings.TrimSpace(l)
						if m.Note != "" {
							c.Note += " ; " + m.Note
						}
						break
					}
				}
			case 3:
				c.Outcome = "skipped"
			default:
				c.Outcome = "error"
				c.Note = lastLine(string(b))
			}
			c.OK = (m.Expect == "fire" && c.Outcome == "fired") || (m.Expect == "silent" && c.Outcome == "silent")
			out[i] = c
		}(i, m)
	}
	wg.Wait()
	return out
}

func lastLine(s string) string {
	ls := strings.Split(strings.TrimSpace(s), "\n")
	if len(ls) == 0 {
		return ""
	}
	return ls[len(ls)-1]
}

// PrintControls is the stand-alone self-test output.
func PrintControls(prop string) int {
	cs := RunControls(prop)
	bad := 0
	for _, c := range cs {
		mark := "ok  "
		if !c.OK && c.Outcome != "skipped" {
			mark = "BAD "
			bad++
		}
		fmt.Printf("%s %-4s %-36s expect=%-6s outcome=%-7s %s\n", mark, prop, c.ID, c.Expect, c.Outcome, c.Note)
	}
	fmt.Printf("controls property=%s total=%d not-as-expected=%d\n", prop, len(cs), bad)
	if bad > 0 {
		return 1
	}
	return 0
}

// RunOtherArch repeats the property's check with the sources loaded for a
// 32-bit target (GOARCH=386: `int` - the type of CPU.IM, of slice lengths and
// of indices - is 32 bits wide, and files selected by build constraints may
// differ) and records the verdict as one more obligation.  Thorough tier only.
func RunOtherArch(prop string, r *ev.Report) {
	self, err := os.Executable()
	if err != nil {
		r.Undecide(prop+"/goarch=386", "OTHER-ARCH", "-", err.Error())
		return
	}
	rule := "OTHER-ARCH(386): every obligation of the property is discharged again with the program loaded and type-checked for GOARCH=386 (int is 32 bits wide)"
	cmd := exec.Command(self, "-prop", prop, "-goarch", "386", "-no-evidence")
	cmd.Env = os.Environ()
	b, err := cmd.CombinedOutput()
	last := lastLine(string(b))
	if err == nil && strings.HasPrefix(last, "PASS") {
		r.Hold(prop+"/goarch=386", rule, "-", "re-run", last)
		return
	}
	var det []string
	for _, l := range strings.Split(string(b), "\n") {
		if strings.Contains(l, "kind=") && len(det) < 8 {
			det = append(det, strings.TrimSpace(l))
		}
	}
	det = append(det, last)
	r.Violate(prop+"/goarch=386", rule, "-", det...)
}
