package checks

import (
	"crypto/sha256"
	"encoding/hex"
	"fmt"
	"go/ast"
	"go/constant"
	"go/token"
	"go/types"
	"os"
	"path/filepath"
	"regexp"
	"sort"
	"strconv"
	"strings"

	"golang.org/x/tools/go/packages"
	"golang.org/x/tools/go/ssa"

	"verif/internal/absint"
	"verif/internal/dom"
	"verif/internal/engine"
	"verif/internal/ev"
	"verif/internal/load"
	"verif/internal/rules"
)

type absintSlice = absint.Slice

func describeAny(c *dom.Ctx, v absint.Value) string { return absint.DescribeValue(c, v) }

func init() {
	Registry["C17"] = Check{Level: "translation_validation", Fn: c17, NeedsEngine: true, NeedsTests: true}
}

const zexPkg = load.ModulePath + "/internal/zex"

// digests of the pristine exerciser images shipped in cmd/zexdoc at the
// pinned commit (so that changing table and image together is reported too)
var cimDigests = map[string]string{
	"zexdoc.cim": "b3015112a99bb72273e0cacde7c7549eb9840ba996af76f7bf7992ef7d6e2f90",
	"zexall.cim": "fbb1bb5d46f61c33ea6841a71f2b23c49b9b62410ce6ed4e57b7d9b2e7b437e0",
}

// zrec is one exerciser record in canonical form.
type zrec struct {
	name string // Go identifier or record address
	pos  string
	mask uint8
	vec  [3][20]byte
	crc  uint32
	desc string
}

func (z *zrec) bytes65() []byte {
	b := []byte{z.mask}
	for i := 0; i < 3; i++ {
		b = append(b, z.vec[i][:]...)
	}
	return append(b, byte(z.crc>>24), byte(z.crc>>16), byte(z.crc>>8), byte(z.crc))
}

// ---- Go tables, by go/types constant evaluation ----

func zexPackage(cx *Ctx) *packages.Package {
	var best *packages.Package
	packages.Visit(cx.P.Pkgs, nil, func(p *packages.Package) {
		if p.PkgPath == zexPkg && (best == nil || len(p.GoFiles) < len(best.GoFiles)) {
			best = p
		}
	})
	return best
}

func constU64(info *types.Info, e ast.Expr) (uint64, bool) {
	tv, ok := info.Types[e]
	if !ok || tv.Value == nil {
		return 0, false
	}
	v := constant.ToInt(tv.Value)
	if v.Kind() != constant.Int {
		return 0, false
	}
	u, exact := constant.Uint64Val(v)
	return u, exact
}

// statusBytes evaluates a Status composite literal into the 20-byte vector,
// laying fields out in declaration order, little endian (the layout is
// cross-checked against Status.Bytes by C17/layout).
// zexLayout is the layout of a machine-state vector of the exerciser (the tstr
// macro of zexdoc.asm/zexall.asm: four instruction bytes, memop, iy, ix, hl,
// de, bc, flags, accumulator, sp; words low byte first), keyed by the names
// the fields carry in zex.Status.
var zexLayout = map[string][2]int{
	"Inst0": {0, 1}, "Inst1": {1, 1}, "Inst2": {2, 1}, "Inst3": {3, 1},
	"MemOP": {4, 2}, "IY": {6, 2}, "IX": {8, 2}, "HL": {10, 2}, "DE": {12, 2}, "BC": {14, 2},
	"Flags": {16, 1}, "Accum": {17, 1}, "SP": {18, 2},
}

func statusBytes(info *types.Info, lit *ast.CompositeLit, st *types.Struct) ([20]byte, error) {
	var out [20]byte
	vals := make([]uint64, st.NumFields())
	for i, el := range lit.Elts {
		idx := i
		ex := el
		if kv, ok := el.(*ast.KeyValueExpr); ok {
			id, ok := kv.Key.(*ast.Ident)
			if !ok {
				return out, fmt.Errorf("unsupported key")
			}
			idx = -1
			for j := 0; j < st.NumFields(); j++ {
				if st.Field(j).Name() == id.Name {
					idx = j
				}
			}
			ex = kv.Value
		}
		if idx < 0 || idx >= len(vals) {
			return out, fmt.Errorf("bad field index")
		}
		v, ok := constU64(info, ex)
		if !ok {
			return out, fmt.Errorf("field %s is not a constant", st.Field(idx).Name())
		}
		vals[idx] = v
	}
	if st.NumFields() != len(zexLayout) {
		return out, fmt.Errorf("UNRESOLVED anchor: zex.Status has %d fields, the exerciser's state vector has %d components", st.NumFields(), len(zexLayout))
	}
	for j := 0; j < st.NumFields(); j++ {
		b, ok := st.Field(j).Type().Underlying().(*types.Basic)
		if !ok {
			return out, fmt.Errorf("field %s is not an integer", st.Field(j).Name())
		}
		lay, known := zexLayout[st.Field(j).Name()]
		if !known {
			return out, fmt.Errorf("UNRESOLVED anchor: field %s of zex.Status is not a component of the exerciser's state vector", st.Field(j).Name())
		}
		n := 0
		switch b.Kind() {
		case types.Uint8:
			n = 1
		case types.Uint16:
			n = 2
		}
		if n != lay[1] {
			return out, fmt.Errorf("field %s has type %s, the component has %d byte(s)", st.Field(j).Name(), b, lay[1])
		}
		for k := 0; k < n; k++ {
			out[lay[0]+k] = byte(vals[j] >> (8 * uint(k)))
		}
	}
	return out, nil
}

// goTable evaluates a table of cases: from the constant composite literals
// when the table is written that way (go/types constant evaluation), otherwise
// by interpreting the package initialiser concretely (constructor functions,
// shared vector sets).
func goTable(cx *Ctx, pk *packages.Package, table string) ([]*zrec, error) {
	recs, err := goTableLiterals(cx, pk, table)
	if err == nil {
		return recs, nil
	}
	if recs2, err2 := goTableByInit(cx, pk, table); err2 == nil {
		return recs2, nil
	} else if os.Getenv("VERIF_DEBUG") != "" {
		fmt.Fprintln(os.Stderr, "goTableByInit:", err2)
	}
	return nil, err
}

// goTableByInit reads the table out of the state the package initialiser leaves.
func goTableByInit(cx *Ctx, pk *packages.Package, table string) ([]*zrec, error) {
	sp := cx.P.SSAPkg(zexPkg)
	if sp == nil || sp.Func("init") == nil || sp.Var(table) == nil {
		return nil, fmt.Errorf("UNRESOLVED anchor: %s.%s", zexPkg, table)
	}
	statusObj := pk.Types.Scope().Lookup("Status")
	if statusObj == nil {
		return nil, fmt.Errorf("UNRESOLVED anchor: zex.Status")
	}
	statusSt, ok := statusObj.Type().Underlying().(*types.Struct)
	if !ok {
		return nil, fmt.Errorf("zex.Status is not a struct")
	}
	c := dom.NewCtx()
	in := absint.New(cx.P, c, dom.NewTrace(c))
	in.NoGlobalEvents = true
	in.LenientExternals = true
	in.Unroll = true
	if g := sp.Var("init$guard"); g != nil {
		in.InitOverride["global:"+g.RelString(nil)+"|"] = c.Const(1, 0)
	}
	_, out, err := in.Run(sp.Func("init"), nil, absint.NewState())
	if err != nil {
		return nil, err
	}
	tv, ok := out.Get("global:"+sp.Var(table).RelString(nil), "")
	sl, isSlice := tv.(*absint.Slice)
	if !ok || !isSlice || sl.Root == "" {
		return nil, fmt.Errorf("%s is not a slice built by package initialisation", table)
	}
	n, isc := sl.Len.IsConst()
	if !isc {
		return nil, fmt.Errorf("%s has a non-constant length", table)
	}
	konst := func(path string, w int) (uint64, error) {
		v, ok := out.Get(sl.Root, path)
		bv, isBV := v.(dom.BV)
		if !ok || !isBV || len(bv) != w {
			return 0, fmt.Errorf("%s is not an initialised %d-bit value", path, w)
		}
		k, isc := bv.IsConst()
		if !isc {
			return 0, fmt.Errorf("%s is not a constant", path)
		}
		return k, nil
	}
	var recs []*zrec
	for i := 0; i < int(n); i++ {
		base := fmt.Sprintf("%s[%d]", sl.Path, sl.Lo+i)
		z := &zrec{name: fmt.Sprintf("%s[%d]", table, i), pos: cx.P.Pos(sp.Var(table).Pos())}
		m, err := konst(base+".FlagMask", 8)
		if err != nil {
			return nil, err
		}
		z.mask = uint8(m)
		for k, vn := range []string{"BaseCase", "IncVec", "ShiftVec"} {
			if statusSt.NumFields() != len(zexLayout) {
				return nil, fmt.Errorf("UNRESOLVED anchor: zex.Status has %d fields", statusSt.NumFields())
			}
			for j := 0; j < statusSt.NumFields(); j++ {
				lay, known := zexLayout[statusSt.Field(j).Name()]
				if !known {
					return nil, fmt.Errorf("UNRESOLVED anchor: field %s of zex.Status", statusSt.Field(j).Name())
				}
				v, err := konst(base+"."+vn+"."+statusSt.Field(j).Name(), lay[1]*8)
				if err != nil {
					return nil, err
				}
				for b := 0; b < lay[1]; b++ {
					z.vec[k][lay[0]+b] = byte(v >> (8 * uint(b)))
				}
			}
		}
		crc, err := konst(base+".Expect", 32)
		if err != nil {
			return nil, err
		}
		z.crc = uint32(crc)
		dv, _ := out.Get(sl.Root, base+".Desc")
		ds, isStr := dv.(*absint.Str)
		if !isStr || ds.Const == nil {
			return nil, fmt.Errorf("%s.Desc is not a constant string", base)
		}
		z.desc = *ds.Const
		recs = append(recs, z)
	}
	return recs, nil
}

func goTableLiterals(cx *Ctx, pk *packages.Package, table string) ([]*zrec, error) {
	obj := pk.Types.Scope().Lookup(table)
	if obj == nil {
		return nil, fmt.Errorf("UNRESOLVED anchor: %s.%s", zexPkg, table)
	}
	caseObj := pk.Types.Scope().Lookup("Case")
	statusObj := pk.Types.Scope().Lookup("Status")
	if caseObj == nil || statusObj == nil {
		return nil, fmt.Errorf("UNRESOLVED anchors: zex.Case / zex.Status")
	}
	caseSt, ok1 := caseObj.Type().Underlying().(*types.Struct)
	statusSt, ok2 := statusObj.Type().Underlying().(*types.Struct)
	if !ok1 || !ok2 {
		return nil, fmt.Errorf("zex.Case / zex.Status are not structs")
	}
	// value specs by object
	specs := map[types.Object]ast.Expr{}
	for _, f := range pk.Syntax {
		for _, d := range f.Decls {
			gd, ok := d.(*ast.GenDecl)
			if !ok || gd.Tok != token.VAR {
				continue
			}
			for _, s := range gd.Specs {
				vs := s.(*ast.ValueSpec)
				for i, n := range vs.Names {
					if i < len(vs.Values) {
						specs[pk.TypesInfo.Defs[n]] = vs.Values[i]
					}
				}
			}
		}
	}
	init, ok := specs[obj]
	if !ok {
		return nil, fmt.Errorf("%s has no initialiser", table)
	}
	lit, ok := init.(*ast.CompositeLit)
	if !ok {
		return nil, fmt.Errorf("%s is not initialised by a composite literal", table)
	}
	fieldIdx := func(name string) int {
		for j := 0; j < caseSt.NumFields(); j++ {
			if caseSt.Field(j).Name() == name {
				return j
			}
		}
		return -1
	}
	iMask, iBase, iInc, iShift, iExp, iDesc := fieldIdx("FlagMask"), fieldIdx("BaseCase"), fieldIdx("IncVec"), fieldIdx("ShiftVec"), fieldIdx("Expect"), fieldIdx("Desc")
	for _, i := range []int{iMask, iBase, iInc, iShift, iExp, iDesc} {
		if i < 0 {
			return nil, fmt.Errorf("UNRESOLVED anchor: a field of zex.Case (FlagMask, BaseCase, IncVec, ShiftVec, Expect, Desc)")
		}
	}
	var out []*zrec
	for _, el := range lit.Elts {
		var clit *ast.CompositeLit
		name := ""
		switch x := el.(type) {
		case *ast.Ident:
			name = x.Name
			o := pk.TypesInfo.Uses[x]
			v, ok := specs[o]
			if !ok {
				return nil, fmt.Errorf("%s: element %s has no constant initialiser", table, x.Name)
			}
			clit, _ = v.(*ast.CompositeLit)
		case *ast.CompositeLit:
			clit = x
			name = fmt.Sprintf("%s[%d]", table, len(out))
		}
		if clit == nil {
			return nil, fmt.Errorf("%s: element %s is not a composite literal", table, name)
		}
		fields := make([]ast.Expr, caseSt.NumFields())
		for i, e := range clit.Elts {
			if kv, ok := e.(*ast.KeyValueExpr); ok {
				id, _ := kv.Key.(*ast.Ident)
				if id == nil || fieldIdx(id.Name) < 0 {
					return nil, fmt.Errorf("%s: unknown field", name)
				}
				fields[fieldIdx(id.Name)] = kv.Value
			} else if i < len(fields) {
				fields[i] = e
			}
		}
		z := &zrec{name: name, pos: cx.P.Pos(clit.Pos())}
		m, ok := constU64(pk.TypesInfo, fields[iMask])
		if !ok || fields[iMask] == nil {
			return nil, fmt.Errorf("%s: FlagMask is not a constant", name)
		}
		z.mask = uint8(m)
		for k, fi := range []int{iBase, iInc, iShift} {
			sl, ok := fields[fi].(*ast.CompositeLit)
			if !ok {
				return nil, fmt.Errorf("%s: state vector %d is not a composite literal", name, k)
			}
			v, err := statusBytes(pk.TypesInfo, sl, statusSt)
			if err != nil {
				return nil, fmt.Errorf("%s: %v", name, err)
			}
			z.vec[k] = v
		}
		c, ok := constU64(pk.TypesInfo, fields[iExp])
		if !ok {
			return nil, fmt.Errorf("%s: Expect is not a constant", name)
		}
		z.crc = uint32(c)
		tv := pk.TypesInfo.Types[fields[iDesc]]
		if tv.Value == nil || tv.Value.Kind() != constant.String {
			return nil, fmt.Errorf("%s: Desc is not a constant string", name)
		}
		z.desc = constant.StringVal(tv.Value)
		out = append(out, z)
	}
	return out, nil
}

// ---- image records ----

func cimRecords(cx *Ctx, path string) ([]*zrec, []string, error) {
	b, err := os.ReadFile(path)
	if err != nil {
		return nil, nil, err
	}
	var notes []string
	const org = 0x100
	at := func(addr int) (byte, bool) {
		if addr < org || addr-org >= len(b) {
			return 0, false
		}
		return b[addr-org], true
	}
	if len(b) < 3 || b[0] != 0xC3 {
		return nil, nil, fmt.Errorf("image does not start with JP start")
	}
	pc := int(b[1]) | int(b[2])<<8
	notes = append(notes, fmt.Sprintf("JP %04Xh at 0100h", pc))
	// decode the start sequence with the reference model's instruction lengths
	table := -1
	for n := 0; n < 16 && table < 0; n++ {
		spec := engine.Spec{Bytes: map[int]byte{}, Pattern: "MMMM"}
		for k := 0; k < 4; k++ {
			if v, ok := at(pc + k); ok {
				spec.Bytes[k] = v
			}
		}
		c := dom.NewCtx()
		ref := cx.E.RunRef(c, spec, engine.Options{}, false)
		op, _ := at(pc)
		if op == 0x21 { // LD HL,nn
			lo, _ := at(pc + 1)
			hi, _ := at(pc + 2)
			table = int(lo) | int(hi)<<8
			notes = append(notes, fmt.Sprintf("LD HL,%04Xh at %04Xh (%s)", table, pc, ref.Info.Name))
			break
		}
		if ref.Info.Bytes <= 0 {
			return nil, notes, fmt.Errorf("cannot decode start sequence at %04Xh", pc)
		}
		if ref.Info.Class == "jump" || ref.Info.Class == "ret" {
			return nil, notes, fmt.Errorf("start sequence leaves before loading the table pointer")
		}
		pc += ref.Info.Bytes
	}
	if table < 0 {
		return nil, notes, fmt.Errorf("no LD HL,tests found in the start sequence")
	}
	var out []*zrec
	for i := 0; ; i++ {
		lo, ok1 := at(table + 2*i)
		hi, ok2 := at(table + 2*i + 1)
		if !ok1 || !ok2 {
			return nil, notes, fmt.Errorf("pointer table runs off the image")
		}
		p := int(lo) | int(hi)<<8
		if p == 0 {
			break
		}
		if i > 1000 {
			return nil, notes, fmt.Errorf("pointer table not terminated")
		}
		z := &zrec{name: fmt.Sprintf("record@%04Xh", p), pos: fmt.Sprintf("%s+%#x", filepath.Base(path), p-org)}
		rec := make([]byte, 0, 96)
		for k := 0; k < 65; k++ {
			v, ok := at(p + k)
			if !ok {
				return nil, notes, fmt.Errorf("record %04Xh runs off the image", p)
			}
			rec = append(rec, v)
		}
		z.mask = rec[0]
		for k := 0; k < 3; k++ {
			copy(z.vec[k][:], rec[1+20*k:21+20*k])
		}
		z.crc = uint32(rec[61])<<24 | uint32(rec[62])<<16 | uint32(rec[63])<<8 | uint32(rec[64])
		var msg []byte
		for k := 65; ; k++ {
			v, ok := at(p + k)
			if !ok || k > 65+80 {
				return nil, notes, fmt.Errorf("record %04Xh: message not terminated", p)
			}
			if v == '$' {
				break
			}
			msg = append(msg, v)
		}
		z.desc = strings.TrimRight(string(msg), ".")
		out = append(out, z)
	}
	return out, notes, nil
}

// ---- assembler source records (third witness, thorough tier) ----

var reTstr = regexp.MustCompile(`^\s*tstr\s+([^;]+)`)
var reDb = regexp.MustCompile(`^(\w+:)?\s*db\s+([^;]+)`)
var reTmsg = regexp.MustCompile(`^\s*tmsg\s+'([^']*)'`)

// asmNum evaluates the operand expressions the exerciser sources use:
// sums/differences of hex (0ffh) and decimal literals and the symbols msbt
// (the state block right after the initial JP, i.e. 0103h), msbtlo, msbthi.
func asmNum(s string) (uint64, error) {
	s = strings.ReplaceAll(strings.TrimSpace(strings.ToLower(s)), " ", "")
	var total int64
	sign := int64(1)
	tok := ""
	flush := func() error {
		if tok == "" {
			return nil
		}
		var v int64
		switch tok {
		case "msbt":
			v = 0x0103
		case "msbtlo":
			v = 0x03
		case "msbthi":
			v = 0x01
		default:
			var u uint64
			var err error
			if strings.HasSuffix(tok, "h") {
				u, err = strconv.ParseUint(strings.TrimSuffix(tok, "h"), 16, 32)
			} else {
				u, err = strconv.ParseUint(tok, 10, 32)
			}
			if err != nil {
				return err
			}
			v = int64(u)
		}
		total += sign * v
		tok = ""
		return nil
	}
	for _, ch := range s {
		switch ch {
		case '+', '-':
			if err := flush(); err != nil {
				return 0, err
			}
			sign = 1
			if ch == '-' {
				sign = -1
			}
		default:
			tok += string(ch)
		}
	}
	if err := flush(); err != nil {
		return 0, err
	}
	return uint64(total), nil
}

func asmRecords(path string) ([]*zrec, error) {
	b, err := os.ReadFile(path)
	if err != nil {
		return nil, err
	}
	var out []*zrec
	var cur *zrec
	nvec := 0
	for ln, line := range strings.Split(string(b), "\n") {
		line = strings.TrimRight(line, "\r")
		if m := reTstr.FindStringSubmatch(line); m != nil && cur != nil && nvec < 3 {
			parts := strings.Split(strings.TrimSpace(m[1]), ",")
			if len(parts) < 13 {
				continue
			}
			widths := []int{1, 1, 1, 1, 2, 2, 2, 2, 2, 2, 1, 1, 2}
			off := 0
			for i, w := range widths {
				v, err := asmNum(parts[i])
				if err != nil {
					return nil, fmt.Errorf("%s:%d: %v", path, ln+1, err)
				}
				for k := 0; k < w; k++ {
					cur.vec[nvec][off+k] = byte(v >> (8 * uint(k)))
				}
				off += w
			}
			nvec++
			continue
		}
		if m := reDb.FindStringSubmatch(line); m != nil {
			args := strings.Split(strings.TrimSpace(m[2]), ",")
			if m[1] != "" && len(args) == 1 && strings.Contains(line, "flag mask") {
				v, err := asmNum(args[0])
				if err == nil {
					cur = &zrec{name: strings.TrimSuffix(m[1], ":"), pos: fmt.Sprintf("%s:%d", filepath.Base(path), ln+1), mask: uint8(v)}
					nvec = 0
				}
				continue
			}
			if cur != nil && nvec == 3 && len(args) == 4 {
				var crc uint32
				ok := true
				for _, a := range args {
					v, err := asmNum(a)
					if err != nil {
						ok = false
					}
					crc = crc<<8 | uint32(v&0xff)
				}
				if ok {
					cur.crc = crc
				}
				continue
			}
		}
		if m := reTmsg.FindStringSubmatch(line); m != nil && cur != nil && nvec == 3 {
			cur.desc = strings.TrimRight(m[1], ".")
			out = append(out, cur)
			cur = nil
		}
	}
	return out, nil
}

// ---- comparison ----

func compareTables(r *ev.Report, part, rule string, goRecs, other []*zrec, otherName string) (matched int) {
	byDesc := map[string][]*zrec{}
	for _, z := range other {
		byDesc[z.desc] = append(byDesc[z.desc], z)
	}
	used := map[*zrec]bool{}
	for _, g := range goRecs {
		key := fmt.Sprintf("C17/%s/case=%s", part, g.name)
		cands := byDesc[g.desc]
		var hit *zrec
		for _, c := range cands {
			if !used[c] {
				hit = c
				break
			}
		}
		if hit == nil {
			r.Violate(key, rule, g.pos, fmt.Sprintf("no record with description %q in %s (no such case, or the description differs)", g.desc, otherName))
			continue
		}
		used[hit] = true
		gb, hb := g.bytes65(), hit.bytes65()
		var det []string
		for i := range gb {
			if gb[i] != hb[i] {
				field := "flag mask"
				switch {
				case i >= 61:
					field = "expected CRC"
				case i >= 41:
					field = fmt.Sprintf("shift vector byte %d", i-41)
				case i >= 21:
					field = fmt.Sprintf("increment vector byte %d", i-21)
				case i >= 1:
					field = fmt.Sprintf("base vector byte %d", i-1)
				}
				det = append(det, fmt.Sprintf("%s: Go table has %02X, %s (%s) has %02X", field, gb[i], otherName, hit.pos, hb[i]))
			}
		}
		if len(det) > 0 {
			r.Violate(key, rule, g.pos, det...)
		} else {
			matched++
			r.Hold(key, rule, g.pos, "table")
		}
	}
	for _, z := range other {
		if !used[z] {
			r.Violate(fmt.Sprintf("C17/%s/missing=%s", part, z.desc), rule, z.pos, fmt.Sprintf("record %q of %s has no Go case (a case is missing from the table)", z.desc, otherName))
		}
	}
	return
}

func c17(cx *Ctx, r *ev.Report) {
	pk := zexPackage(cx)
	if pk == nil {
		r.Fatal = "UNRESOLVED anchor: package " + zexPkg
		return
	}
	total := 0
	for _, tb := range []struct{ table, cim, asm string }{{"DocCases", "zexdoc.cim", "zexdoc.asm"}, {"AllCases", "zexall.cim", "zexall.asm"}} {
		goRecs, err := goTable(cx, pk, tb.table)
		if err != nil {
			r.Undecide("C17/go-tables/table="+tb.table, "GO-TABLE: the table is a package-level slice of constant Case literals, evaluated with go/types", "", err.Error())
			continue
		}
		r.Hold("C17/go-tables/table="+tb.table, "GO-TABLE: the table is a package-level slice of constant Case literals, evaluated with go/types", goRecs[0].pos, "types")
		cimPath := filepath.Join(cx.P.Dir, "cmd", "zexdoc", tb.cim)
		// digest
		if b, err := os.ReadFile(cimPath); err != nil {
			r.Undecide("C17/image-digest/file="+tb.cim, "IMAGE-DIGEST", "", err.Error())
			continue
		} else {
			sum := sha256.Sum256(b)
			got := hex.EncodeToString(sum[:])
			r.Check(got == cimDigests[tb.cim], "C17/image-digest/file="+tb.cim, "IMAGE-DIGEST: the shipped exerciser image is the pristine one (sha256 pinned in the checker)", "cmd/zexdoc/"+tb.cim, "table",
				fmt.Sprintf("sha256 of cmd/zexdoc/%s is %s, pinned %s: the canonical program image was modified", tb.cim, got, cimDigests[tb.cim]))
		}
		recs, notes, err := cimRecords(cx, cimPath)
		if err != nil {
			r.Undecide("C17/cim-records/file="+tb.cim, "CIM-RECORDS: JP start; LD HL,tests; pointer table; 65-byte records + '$'-terminated message", "cmd/zexdoc/"+tb.cim, err.Error())
			continue
		}
		r.Hold("C17/cim-records/file="+tb.cim, "CIM-RECORDS: JP start; LD HL,tests; pointer table; 65-byte records + '$'-terminated message", "cmd/zexdoc/"+tb.cim, "table")
		r.Analysed["image_"+tb.cim] = map[string]interface{}{"records": len(recs), "decode": notes}
		r.AddFloor("records_in_"+tb.cim, len(recs), 67)
		r.AddFloor("cases_in_"+tb.table, len(goRecs), 67)
		n := compareTables(r, "equal/"+tb.table, "TABLE-EQ: every Go case equals, byte for byte (mask, base, increment, shift, CRC) and in its description, exactly one record of the image, and no record is left over", goRecs, recs, tb.cim)
		total += n
		if cx.Tier == "thorough" {
			arecs, err := asmRecords(filepath.Join(cx.P.Dir, "_z80", tb.asm))
			if err != nil {
				r.Undecide("C17/asm-records/file="+tb.asm, "ASM-RECORDS", "", err.Error())
			} else {
				r.AddFloor("records_in_"+tb.asm, len(arecs), 67)
				compareTables(r, "equal-asm/"+tb.table, "TABLE-EQ(asm): third witness - every Go case equals the tstr/db/tmsg record of the assembler source", goRecs, arecs, tb.asm)
			}
		}
		if len(r.Samples) < 4 && len(goRecs) > 0 {
			g := goRecs[len(goRecs)/2]
			r.Samples = append(r.Samples, map[string]interface{}{"table": tb.table, "case": g.name, "desc": g.desc, "mask": fmt.Sprintf("%02X", g.mask), "crc": fmt.Sprintf("%08X", g.crc), "base": hex.EncodeToString(g.vec[0][:])})
		}
	}
	c17Writers(cx, r)
	c17Used(cx, r)
	c17Layout(cx, r)
	r.Analysed["cases_matched"] = total
	r.Extra["programs"] = 2
	r.Extra["disagreements_checked"] = total
	r.Rules = append(r.Rules, "TABLE-EQ", "IMAGE-DIGEST", "NO-WRITERS(tables)", "USED(tests)")
	r.Assumptions = append(r.Assumptions, "go/types constant evaluation; the .cim files are read as data", "the pinned sha256 digests identify the canonical zexdoc/zexall images")
	r.Trusted = []string{"go/types constant evaluation", "crypto/sha256", "verif/internal/checks/c17.go (record parser)", "verif/internal/isa (instruction lengths for decoding the start sequence)"}
	r.Explanation = "Translation validation of the one translation that exists (assembler source -> program image -> Go table), exhaustive over 2x67 records: each Go case, evaluated with go/types, is matched with exactly one record parsed from the image (JP start, LD HL,tests, pointer table), all 65 bytes and the description equal, nothing left over on either side; the images' sha256 equal the pinned digests; no function writes the tables; the two exerciser tests range over exactly these tables without a filter and hand FlagMask, the vectors and Expect through; Status.Bytes lays the fields out in the order the literal evaluation assumes. NOT decided: that Iter.Status/Maxes reproduce the exerciser's counter/shifter (an algorithm, not a table)."
}

// no function stores to the table variables
func c17Writers(cx *Ctx, r *ev.Report) {
	sp := cx.P.SSAPkg(zexPkg)
	if sp == nil {
		return
	}
	rule := "NO-WRITERS(tables): no function stores to zex.DocCases, zex.AllCases or any Case variable (only package initialisation does)"
	var det []string
	n := 0
	initFns := rules.InitClosure(allFunctions(cx.P))
	for fn := range allFunctions(cx.P) {
		if initFns[fn] && fn.Pkg == sp {
			continue
		}
		for _, b := range fn.Blocks {
			for _, in := range b.Instrs {
				for _, op := range in.Operands(nil) {
					g, ok := (*op).(*ssa.Global)
					if !ok || g.Pkg != sp {
						continue
					}
					n++
					switch x := in.(type) {
					case *ssa.UnOp:
						// a load: fine unless the loaded slice is then written through
						for _, ref := range *x.Referrers() {
							if ia, ok := ref.(*ssa.IndexAddr); ok {
								for _, r2 := range *ia.Referrers() {
									if s, ok := r2.(*ssa.Store); ok && s.Addr == ssa.Value(ia) {
										det = append(det, fmt.Sprintf("%s: %s writes an element of %s", cx.P.Pos(s.Pos()), fn, g.Name()))
									}
								}
							}
						}
					case *ssa.Store:
						if x.Addr == ssa.Value(g) {
							det = append(det, fmt.Sprintf("%s: %s assigns %s", cx.P.Pos(in.Pos()), fn, g.Name()))
						}
					case *ssa.FieldAddr, *ssa.IndexAddr:
						for _, ref := range *x.(ssa.Value).Referrers() {
							if s, ok := ref.(*ssa.Store); ok {
								det = append(det, fmt.Sprintf("%s: %s writes into %s", cx.P.Pos(s.Pos()), fn, g.Name()))
							}
						}
					}
				}
			}
		}
	}
	sort.Strings(det)
	r.Check(len(det) == 0, "C17/go-tables/no-writers", rule, "internal/zex", "shape", det...)
	r.Analysed["uses_of_table_variables_outside_init"] = n
}

// the exerciser tests range over exactly the two tables, unfiltered
func c17Used(cx *Ctx, r *ev.Report) {
	var tp *packages.Package
	packages.Visit(cx.P.Pkgs, nil, func(p *packages.Package) {
		if p.PkgPath == load.ModulePath && (tp == nil || len(p.GoFiles) > len(tp.GoFiles)) {
			tp = p
		}
	})
	rule := "USED(tests): a test of package z80 ranges over exactly zex.DocCases / zex.AllCases; the loop body has no continue/break/skip/filter; FlagMask, Iter, Maxes and Expect of the ranged Case are used and no Case field is assigned"
	if tp == nil {
		r.Undecide("C17/used", rule, "", "test variant of package z80 not loaded")
		return
	}
	found := map[string]int{}
	sel := map[string]int{}
	var det []string
	for _, f := range tp.Syntax {
		fname := cx.P.Fset.Position(f.Pos()).Filename
		if !strings.HasSuffix(fname, "_test.go") {
			continue
		}
		ast.Inspect(f, func(n ast.Node) bool {
			switch x := n.(type) {
			case *ast.RangeStmt:
				se, ok := x.X.(*ast.SelectorExpr)
				if !ok {
					return true
				}
				o := tp.TypesInfo.Uses[se.Sel]
				if o == nil || o.Pkg() == nil || o.Pkg().Path() != zexPkg {
					return true
				}
				found[o.Name()]++
				// direct children of the loop body
				for _, st := range x.Body.List {
					switch s := st.(type) {
					case *ast.AssignStmt, *ast.ExprStmt, *ast.DeclStmt:
						_ = s
					default:
						det = append(det, fmt.Sprintf("%s: the loop over zex.%s contains a %T (cases may be filtered)", cx.P.Pos(st.Pos()), o.Name(), st))
					}
				}
				ast.Inspect(x.Body, func(m ast.Node) bool {
					switch y := m.(type) {
					case *ast.BranchStmt:
						det = append(det, fmt.Sprintf("%s: %s inside the loop over zex.%s", cx.P.Pos(y.Pos()), y.Tok, o.Name()))
					case *ast.CallExpr:
						if s, ok := y.Fun.(*ast.SelectorExpr); ok && strings.HasPrefix(s.Sel.Name, "Skip") {
							det = append(det, fmt.Sprintf("%s: %s inside the loop over zex.%s", cx.P.Pos(y.Pos()), s.Sel.Name, o.Name()))
						}
					}
					return true
				})
				if _, isSlice := x.X.(*ast.SliceExpr); isSlice {
					det = append(det, cx.P.Pos(x.Pos())+": ranges over a sub-slice")
				}
			case *ast.SliceExpr:
				if se, ok := x.X.(*ast.SelectorExpr); ok {
					if o := tp.TypesInfo.Uses[se.Sel]; o != nil && o.Pkg() != nil && o.Pkg().Path() == zexPkg {
						det = append(det, fmt.Sprintf("%s: zex.%s is sliced (a subset of the cases)", cx.P.Pos(x.Pos()), o.Name()))
					}
				}
			case *ast.SelectorExpr:
				if tv, ok := tp.TypesInfo.Types[x.X]; ok && tv.Type != nil && strings.HasSuffix(tv.Type.String(), "zex.Case") {
					sel[x.Sel.Name]++
				}
			case *ast.AssignStmt:
				for _, l := range x.Lhs {
					if se, ok := l.(*ast.SelectorExpr); ok {
						if tv, ok := tp.TypesInfo.Types[se.X]; ok && tv.Type != nil && strings.HasSuffix(tv.Type.String(), "zex.Case") {
							det = append(det, fmt.Sprintf("%s: a test assigns Case.%s", cx.P.Pos(x.Pos()), se.Sel.Name))
						}
					}
				}
			case *ast.CallExpr:
				if s, ok := x.Fun.(*ast.SelectorExpr); ok && strings.HasPrefix(s.Sel.Name, "Skip") {
					// a Skip anywhere in the helpers that run a case
					if fd := enclosingFunc(f, x.Pos()); fd != nil && strings.Contains(strings.ToLower(fd.Name.Name), "zex") {
						det = append(det, fmt.Sprintf("%s: %s in %s", cx.P.Pos(x.Pos()), s.Sel.Name, fd.Name.Name))
					}
				}
			}
			return true
		})
	}
	for _, t := range []string{"DocCases", "AllCases"} {
		if found[t] == 0 {
			det = append(det, "no test ranges over zex."+t)
		}
	}
	for _, f := range []string{"FlagMask", "Iter", "Maxes", "Expect"} {
		if sel[f] == 0 {
			det = append(det, "no test uses Case."+f)
		}
	}
	sort.Strings(det)
	r.Check(len(det) == 0, "C17/used/tests", rule, "z80_test.go", "shape", det...)
	r.Analysed["range_loops_over_tables"] = found
	r.Analysed["case_fields_used_by_tests"] = sel
}

func enclosingFunc(f *ast.File, pos token.Pos) *ast.FuncDecl {
	for _, d := range f.Decls {
		if fd, ok := d.(*ast.FuncDecl); ok && fd.Pos() <= pos && pos <= fd.End() {
			return fd
		}
	}
	return nil
}

// c17Layout: Status.Bytes lays the fields out in declaration order, little
// endian - the layout the literal evaluation above assumes (and the layout of
// the exerciser's state block).
func c17Layout(cx *Ctx, r *ev.Report) {
	key := "C17/layout/func=(Status).Bytes"
	rule := "LAYOUT: the summary of zex.Status.Bytes is the exerciser's 20-byte state vector (Inst0..3, MemOP, IY, IX, HL, DE, BC, Flags, Accum, SP by field name; 16-bit fields low byte first)"
	fn := cx.P.Method(zexPkg, "Status", "Bytes")
	if fn == nil {
		r.Undecide(key, rule, "", "UNRESOLVED anchor: zex.Status.Bytes")
		return
	}
	a := runAccessor(cx, fn, "")
	pos := cx.P.Pos(fn.Pos())
	if a.err != nil {
		r.Undecide(key, rule, pos, a.err.Error())
		return
	}
	sl, ok := a.res.(*absintSlice)
	if !ok {
		r.Undecide(key, rule, pos, "result is not a slice built by the function")
		return
	}
	n, isc := sl.Len.IsConst()
	if !isc || n != 20 {
		r.Violate(key, rule, pos, fmt.Sprintf("Bytes returns %d bytes", n))
		return
	}
	st := fn.Params[0].Type().Underlying().(*types.Struct)
	want := make([]dom.BV, 20)
	for j := 0; j < st.NumFields(); j++ {
		w := int(cx.P.Sizes.Sizeof(st.Field(j).Type())) * 8
		lay, known := zexLayout[st.Field(j).Name()]
		if !known || lay[1]*8 != w {
			r.Undecide(key, rule, pos, "UNRESOLVED anchor: field "+st.Field(j).Name()+" of zex.Status is not a component of the exerciser's state vector")
			return
		}
		v := a.c.Atom("Init("+st.Field(j).Name()+")", w)
		for k := 0; k < w/8; k++ {
			want[lay[0]+k] = v.Slice(8*k, 8*k+8)
		}
	}
	for _, wv := range want {
		if wv == nil {
			r.Undecide(key, rule, pos, "UNRESOLVED anchor: zex.Status does not have all components of the exerciser's state vector")
			return
		}
	}
	var det []string
	for i := 0; i < 20 && i < len(want); i++ {
		v, _ := a.out.Get(sl.Root, fmt.Sprintf("%s[%d]", sl.Path, sl.Lo+i))
		got, ok := v.(dom.BV)
		if !ok || !got.Equal(want[i]) {
			det = append(det, fmt.Sprintf("byte %d is %s, expected %s", i, describeAny(a.c, v), a.c.Describe(want[i])))
		}
	}
	r.Check(len(det) == 0 && len(want) == 20, key, rule, pos, "summary-equality", det...)
}
