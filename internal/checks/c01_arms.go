package checks

import (
	"strings"

	"verif/internal/engine"
	"verif/internal/ev"
	"verif/internal/isa"
)

func init() {
	register("C01", "proof", true, c01)
	register("C02", "proof", true, c02)
	register("C03", "proof", true, c03)
	register("C04", "proof", true, c04)
	register("C05", "proof", true, c05)
	register("C09", "other", true, c09)
}

func isWriteEvent(d engine.Diff) bool {
	k := eventKind(d)
	return k == isa.KindMemSet || k == isa.KindIOOut
}

func isBusEvent(d engine.Diff) bool {
	k := eventKind(d)
	return strings.HasPrefix(k, "Memory.") || strings.HasPrefix(k, "IO.")
}

func summaryReport(cx *Ctx, r *ev.Report, classes map[string]bool) {
	armAnalysed(cx, r)
	r.Samples = armSamples(cx, classes, 8)
	r.Assumptions = append(r.Assumptions, commonAssumptions...)
	r.Trusted = append(append([]string{}, summaryTrusted...), "verif/internal/isa (independent reference description of the Z80, written from the Zilog manual and Young's undocumented-Z80 notes)")
	r.Rules = append(r.Rules,
		"SUMMARY-EQ(arm): the canonical summary (post-state of every CPU leaf as a function of the pre-state and of the bytes devices return; guarded multiset of device calls) of the decoder specialised to the opcode bytes equals the reference model's summary for the same bytes, for all pre-states at once")
	r.AddFloor("opcode_prefixes_specialised", len(cx.Arms()), 1786)
	r.Analysed["decoder_constant_cases"] = cx.E.ConstCases // informational: the decode may be arithmetic; all 1786 prefixes are compared whatever its shape
	impl := 0
	for _, a := range cx.Arms() {
		if a.Implemented {
			impl++
		}
	}
	r.AddFloor("arms_implemented", impl, 930)
}

// C01: every arm has exactly its defined effect (state, memory writes, port
// writes); everything else unchanged.
func c01(cx *Ctx, r *ev.Report) {
	n := armObligations(cx, r, armSelection{prop: "C01", rule: "SUMMARY-EQ(arm): state + writes + order of accesses that can touch the same cell", keyPart: "effect",
		diffKeep: func(a *engine.ArmResult, d engine.Diff) bool {
			return isStateLike(d) || isWriteEvent(d) || d.Cat == "order"
		}})
	r.Analysed["arms_selected"] = n
	// catalogue: every documented encoding has an arm
	for _, a := range cx.Arms() {
		if a.Info.Status == isa.Doc && !a.Implemented && a.Undecided == nil {
			r.Violate("C01/catalogue/documented="+a.Enc, "CATALOGUE: every documented encoding has an arm", a.Pos, "documented instruction "+a.Info.Name+" is decoded as unsupported")
		}
	}
	stepGlue(cx, r, "C01")
	// an instruction supplied by a mode-0 request instead of by memory has the
	// same effect (its pushes, which expose finding F3, are compared under C07)
	if sa := cx.stepAnalysis(); sa.err == nil {
		ruleI := "STEP-EQ(IM0 instr): an RST p / CALL nn supplied by a mode-0 request is executed as that instruction (target, registers, flip-flops, frame) wherever PC is; the pushed resume address is compared under C07 (known finding F3)"
		for _, ic := range sa.im0 {
			key := "C01/im0/instr=" + ic.name
			if ic.und != nil {
				r.Undecide(key, ruleI, cx.P.Pos(cx.E.Step.Pos()), ic.und.Error())
				continue
			}
			ds := diffStrings(ic.diffs, func(d engine.Diff) bool {
				return !(d.Cat == "event" && d.What == isa.KindMemSet) && !(d.Cat == "state" && d.What == isa.LocSP)
			})
			r.Check(len(ds) == 0, key, ruleI, cx.P.Pos(cx.E.Step.Pos()), "summary-equality", ds...)
		}
	}
	r.Hold("C01/catalogue/decoder-shape", "CATALOGUE: the decoder is a constant decode over opcode fetches resolved by constant propagation", cx.P.Pos(cx.E.Exec.Pos()), "shape")
	summaryReport(cx, r, nil)
	r.Explanation = "All 1786 opcode-byte prefixes (main, CB, ED, DD, FD, DDCB, FDCB) are specialised; each implemented arm's closed-form summary is compared with the reference model's for every CPU field (A,F,BC,DE,HL, alternates, IX,IY,SP,PC,I,R,IFF1,IFF2,IM,HALT and the non-architectural fields, which must stay unchanged) and for the multiset of memory/port writes. Address arithmetic is compared modulo 2^16 as bit-vector functions, so wrap-around needs no separate case. Unimplemented undocumented encodings must equal 'bytes consumed, warning logged'."
}

// stepGlue: Step without a request is exactly one run of the decoder from the
// unmodified state - the link between the arm summaries and the public entry
// point every per-instruction property speaks about.
func stepGlue(cx *Ctx, r *ev.Report, prop string) {
	sa := cx.stepAnalysis()
	if sa.err != nil {
		r.Undecide(prop+"/step", "STEP-EQ(row no-request)", cx.P.Pos(cx.E.Step.Pos()), sa.err.Error())
		return
	}
	for _, row := range sa.rows {
		if row.name != "no-request" {
			continue
		}
		ds := diffStrings(cx.E.CompareUnder(sa.impl, sa.ref, row.pred), nil)
		r.Check(len(ds) == 0, prop+"/step/row="+row.name, "STEP-EQ(row no-request): with no request pending, (*CPU).Step runs the decoder exactly once from the unmodified state and does nothing else (so the effect of a Step is the effect of the arm, for every state incl. HALT set)", cx.P.Pos(cx.E.Step.Pos()), "summary-equality", ds...)
	}
}

var c02Classes = classSet("alu8", "rotA", "rot", "bit")

func c02(cx *Ctx, r *ev.Report) {
	n := armObligations(cx, r, armSelection{prop: "C02", rule: "SUMMARY-EQ(arm): 8-bit ALU/rotate/bit result and flags", keyPart: "value+flags", classes: c02Classes,
		diffKeep: func(a *engine.ArmResult, d engine.Diff) bool {
			return isStateLike(d) || isWriteEvent(d) || d.Cat == "order"
		}})
	r.Analysed["arms_selected"] = n
	r.AddFloor("alu_rotate_bit_arms", n, 559)
	c02Uniform(cx, r)
	stepGlue(cx, r, "C02")
	summaryReport(cx, r, c02Classes)
	r.Explanation = "A, F (all eight bits, minus the bits the property names as unspecified: 5/3 after SCF/CCF and BIT on a memory operand) and the written operand of every 8-bit ALU, rotate/shift and bit arm equal the reference as boolean functions of A, the operand and the incoming F: the cube A x operand x F is covered symbolically, not sampled. Sibling congruence (C02/uniform) additionally shows every operand encoding of one operation computes the same function."
}

var c03Classes = classSet("arith16", "incdec16")

func c03(cx *Ctx, r *ev.Report) {
	n := armObligations(cx, r, armSelection{prop: "C03", rule: "SUMMARY-EQ(arm): 16-bit arithmetic result and flags", keyPart: "value+flags", classes: c03Classes,
		diffKeep: func(a *engine.ArmResult, d engine.Diff) bool {
			return isStateLike(d) || isWriteEvent(d) || d.Cat == "order"
		}})
	r.Analysed["arms_selected"] = n
	r.AddFloor("arith16_arms", n, 32)
	stepGlue(cx, r, "C03")
	summaryReport(cx, r, c03Classes)
	r.Explanation = "ADD HL/IX/IY,ss, ADC/SBC HL,ss and INC/DEC ss arms: result and F equal the reference (17-bit sum, H = carry out of bit 11, C = carry out of bit 15, V from operand/result signs, Z of the full 16-bit result) as functions of both 16-bit operands and the incoming carry; doubling forms use one operand atom twice in the reference, so a form adding a different register differs."
}

var c04Classes = classSet("jump", "call", "ret", "stack", "retint")

func c04(cx *Ctx, r *ev.Report) {
	n := armObligations(cx, r, armSelection{prop: "C04", rule: "SUMMARY-EQ(arm): control transfer, condition, stack traffic", keyPart: "control", classes: c04Classes,
		diffKeep: func(a *engine.ArmResult, d engine.Diff) bool {
			return isStateLike(d) || isBusEvent(d) || d.Cat == "order"
		}})
	r.Analysed["arms_selected"] = n
	r.AddFloor("control_arms", n, 58)
	c04Compose(cx, r)
	stepGlue(cx, r, "C04")
	summaryReport(cx, r, c04Classes)
	r.Explanation = "For JP/JR/CALL/RET (conditional and not), DJNZ, RST, JP (HL)/(IX)/(IY), PUSH/POP and RETI/RETN the guard of the 'taken' effects is compared as a boolean function of F (resp. B-1) with the reference's condition table, the untaken path must only advance PC, pushes/pops are compared as (address,value) events relative to SP modulo 2^16, and F must be unchanged (POP AF excepted). PUSH;POP and CALL;RET identities are discharged on the composed reference."
}

func c05(cx *Ctx, r *ev.Report) {
	n := armObligations(cx, r, armSelection{prop: "C05", rule: "EVENTS-EQ(arm): guarded multiset of Memory.Get/Set and IO.In/Out calls equals the reference's, and accesses that can touch the same cell come in the reference's order", keyPart: "accesses",
		diffKeep: func(a *engine.ArmResult, d engine.Diff) bool {
			return isBusEvent(d) || d.Cat == "order" || (a.Info.Class == "io" || a.Info.Class == "block") && isStateLike(d)
		}})
	r.Analysed["arms_selected"] = n
	// Step's own bus traffic: on every row of the decision table the device
	// calls Step makes around the decoder equal the reference's (none when the
	// instruction at PC is executed; the pushes and the vector read when a
	// request is accepted); mode-0 instructions are fetched from the request
	if sa := cx.stepAnalysis(); sa.err != nil {
		r.Undecide("C05/step", "EVENTS-EQ(step row)", cx.P.Pos(cx.E.Step.Pos()), sa.err.Error())
	} else {
		ruleS := "EVENTS-EQ(step row): the guarded multiset of Memory/IO calls made by (*CPU).Step outside the decoder equals the reference decision table's on the row's pre-states"
		for _, row := range sa.rows {
			ds := diffStrings(cx.E.CompareUnder(sa.impl, sa.ref, row.pred), func(d engine.Diff) bool { return isBusEvent(d) || eventKind(d) == isa.KindExec || d.Cat == "order" })
			r.Check(len(ds) == 0, "C05/step/row="+row.name, ruleS, cx.P.Pos(cx.E.Step.Pos()), "summary-equality", ds...)
		}
		ruleI := "EVENTS-EQ(IM0 instr): a mode-0 RST p / CALL nn is fetched entirely from the request's data (no read of program memory) and makes no port access; its pushes are compared under C07 (known finding F3)"
		for _, ic := range sa.im0 {
			key := "C05/im0/instr=" + ic.name
			if ic.und != nil {
				r.Undecide(key, ruleI, cx.P.Pos(cx.E.Step.Pos()), ic.und.Error())
				continue
			}
			ds := diffStrings(ic.diffs, func(d engine.Diff) bool { return isBusEvent(d) && eventKind(d) != isa.KindMemSet || d.Cat == "order" })
			r.Check(len(ds) == 0, key, ruleI, cx.P.Pos(cx.E.Step.Pos()), "summary-equality", ds...)
		}
	}
	summaryReport(cx, r, nil)
	nev := 0
	for _, a := range cx.Arms() {
		nev += len(a.ImplEvents)
	}
	r.Analysed["device_calls_compared"] = nev
	r.Rules = append(r.Rules, "the multiset comparison is canonical: per call kind, the number of calls whose guard holds and whose arguments equal fresh probe variables, as a function of state and probes")
	r.Explanation = "For every prefix the complete list of interface calls the decoder can make (instruction fetches at PC+k, data reads, writes, port reads/writes, each with its path guard) is compared with the reference's as a multiset valued function of the pre-state: same addresses, same values, same multiplicity on every path, nothing else. Nothing but these interface calls can reach a device (any other call below the decoder is undecided and fails). The value a device returns is an atom that must flow unmodified into the loaded register / stored byte (state comparison of the I/O and block arms)."
}

var c09Classes = classSet("block")

func c09(cx *Ctx, r *ev.Report) {
	n := armObligations(cx, r, armSelection{prop: "C09", rule: "SUMMARY-EQ(arm): one block element and the repeat predicate", keyPart: "element+repeat", classes: c09Classes})
	r.Analysed["arms_selected"] = n
	r.AddFloor("block_arms", n, 16)
	noLoopsBelowStep(cx, r, "C09")
	stepGlue(cx, r, "C09")
	summaryReport(cx, r, c09Classes)
	r.Level = "other"
	r.Explanation = "Decided: each of the 16 block arms performs exactly one element (transfer events, pointer/counter updates, documented flags) and leaves PC on the instruction exactly under the reference's repeat predicate (BC-1 != 0, and A != (HL) for CPIR/CPDR, B-1 != 0 for the I/O forms), for all states; non-repeating forms equal the repeating ones up to PC; no loop exists below Step, so a Step is one element. NOT decided by the machine: the whole-operation statement (BC bytes copied, overlap, first match), which follows by the induction on the counter written in DESIGN.md appendix A.1."
}
