package checks

import (
	"fmt"
	"go/types"
	"sort"
	"strconv"
	"strings"
	"verif/internal/rules"

	"golang.org/x/tools/go/ssa"

	"verif/internal/absint"
	"verif/internal/bdd"
	"verif/internal/dom"
	"verif/internal/ev"
	"verif/internal/isa"
	"verif/internal/load"
)

func init() { register("C18", "other", true, c18) }

const cpmPkg = load.ModulePath + "/internal/tinycpm"

// cpmImage interprets package initialisation and NewMemory and returns the
// bytes NewMemory places in the 64 KiB array (address -> byte).
func cpmImage(cx *Ctx) (map[int]byte, error) {
	sp := cx.P.SSAPkg(cpmPkg)
	if sp == nil {
		return nil, fmt.Errorf("UNRESOLVED anchor: package %s", cpmPkg)
	}
	nm := sp.Func("NewMemory")
	initf := sp.Func("init")
	if nm == nil || initf == nil {
		return nil, fmt.Errorf("UNRESOLVED anchor: tinycpm.NewMemory")
	}
	c := dom.NewCtx()
	tr := dom.NewTrace(c)
	in := absint.New(cx.P, c, tr)
	in.NoGlobalEvents = true
	noop := func(in *absint.Interp, args []absint.Value, guard bdd.Node, st *absint.State, pos string) (absint.Value, bool) {
		return nil, true
	}
	in.Models = map[string]absint.ModelFunc{"io.init": noop, "log.init": noop, "os.init": noop, "fmt.init": noop}
	if g := sp.Var("init$guard"); g != nil {
		in.InitOverride["global:"+g.RelString(nil)+"|"] = c.Const(1, 0)
	}
	// neither function has an input: both are interpreted concretely (loops
	// are executed, e.g. a table of blocks copied one by one)
	in.Unroll = true
	_, st1, err := in.Run(initf, nil, absint.NewState())
	if err != nil {
		return nil, err
	}
	tr.Events = nil
	res, out, err := in.Run(nm, nil, st1)
	if err != nil {
		return nil, err
	}
	p, ok := res.(*absint.Ptr)
	if !ok {
		return nil, fmt.Errorf("NewMemory does not return a pointer to a fresh Memory")
	}
	img := map[int]byte{}
	for _, k := range out.Keys() {
		root, path := absint.SplitKey(k)
		if root != p.Root {
			continue
		}
		i := strings.Index(path, "[")
		if i < 0 {
			continue
		}
		n, err := strconv.Atoi(strings.TrimSuffix(path[i+1:], "]"))
		if err != nil {
			continue
		}
		v, _ := out.Get(root, path)
		bv, ok := v.(dom.BV)
		if !ok {
			continue
		}
		b, isc := bv.IsConst()
		if !isc {
			return nil, fmt.Errorf("byte at %04X placed by NewMemory is not a constant", n)
		}
		img[n] = byte(b)
	}
	for i := range tr.Events {
		if e := &tr.Events[i]; !strings.HasPrefix(e.Kind, "deferred") {
			return nil, fmt.Errorf("NewMemory does something else than copying tables: %s", c.DescribeEvent(e))
		}
	}
	return img, nil
}

// ---- exploration of Z80 machine code with the reference model ----

type cpmTerm struct {
	kind   string // RETURN | HALT | LOOP | LEAVES
	target int
	pi     bdd.Node
	m      *isa.M
	trace  []string
}

type cpmExplorer struct {
	c      *dom.Ctx
	img    map[int]byte
	intW   int
	terms  []*cpmTerm
	instrs int
	disasm map[int]string
}

func (ex *cpmExplorer) fixed() func(kind, dev string, args []dom.BV) (dom.BV, bool) {
	return func(kind, dev string, args []dom.BV) (dom.BV, bool) {
		if kind != isa.KindMemGet || len(args) != 1 {
			return nil, false
		}
		a, isc := args[0].IsConst()
		if !isc {
			return nil, false
		}
		if b, ok := ex.img[int(a)]; ok {
			return ex.c.Const(8, uint64(b)), true
		}
		return nil, false
	}
}

func (ex *cpmExplorer) start(pc int) *isa.M {
	tr := dom.NewTrace(ex.c)
	tr.Fixed = ex.fixed()
	m := isa.NewM(ex.c, tr, ex.intW)
	m.Init = map[string]dom.BV{isa.LocPC: ex.c.Const(16, uint64(pc))}
	return m
}

func (ex *cpmExplorer) run(m *isa.M, pi bdd.Node, visited map[int]bool, stopAt int, first bool, tr []string) {
	c := ex.c
	for steps := 0; steps < 64; steps++ {
		pcv, isc := m.Get(isa.LocPC).IsConst()
		if !isc {
			panic("c18: symbolic PC")
		}
		pc := int(pcv)
		if (visited[pc] || pc == stopAt) && !first {
			ex.terms = append(ex.terms, &cpmTerm{kind: "LOOP", target: pc, pi: pi, m: m, trace: tr})
			return
		}
		first = false
		if _, ok := ex.img[pc]; !ok {
			ex.terms = append(ex.terms, &cpmTerm{kind: "LEAVES", target: pc, pi: pi, m: m, trace: tr})
			return
		}
		visited[pc] = true
		info := m.Exec()
		ex.instrs++
		ex.disasm[pc] = info.Name
		tr = append(tr[:len(tr):len(tr)], fmt.Sprintf("%04X %s", pc, info.Name))
		if info.Class == "halt" {
			ex.terms = append(ex.terms, &cpmTerm{kind: "HALT", target: pc, pi: pi, m: m, trace: tr})
			return
		}
		if info.Status == isa.Chain || info.Class == "invalid" {
			ex.terms = append(ex.terms, &cpmTerm{kind: "LEAVES", target: pc, pi: pi, m: m, trace: tr})
			return
		}
		npc := m.Get(isa.LocPC)
		if _, isc := npc.IsConst(); isc {
			continue
		}
		// fork on the instruction's condition
		for _, br := range []bdd.Node{info.Taken, c.M.Not(info.Taken)} {
			pb := c.M.And(pi, br)
			if pb == bdd.False {
				continue
			}
			cons := make(dom.BV, len(npc))
			for i, b := range npc {
				cons[i] = c.M.Constrain(b, pb)
			}
			fm := m.Clone()
			if _, isc := cons.IsConst(); isc {
				fm.Force(isa.LocPC, cons)
				vis := map[int]bool{}
				for k, v := range visited {
					vis[k] = v
				}
				ex.run(fm, pb, vis, stopAt, false, tr)
				continue
			}
			kind := "LEAVES"
			if info.Class == "ret" || info.Class == "retint" {
				kind = "RETURN"
			}
			ex.terms = append(ex.terms, &cpmTerm{kind: kind, target: -1, pi: pb, m: fm, trace: tr})
		}
		return
	}
	ex.terms = append(ex.terms, &cpmTerm{kind: "LEAVES", target: -2, pi: pi, m: m, trace: tr})
}

// under restricts a vector to the path condition (generalised cofactor: the
// result agrees with v wherever pi holds and is canonical for that).
func (ex *cpmExplorer) under(pi bdd.Node, v dom.BV) dom.BV {
	out := make(dom.BV, len(v))
	for i, b := range v {
		out[i] = ex.c.M.Constrain(b, pi)
	}
	return out
}

// outIs: the events are exactly one IO.Out(port 0, value) with value == v
// wherever the path condition holds.
func (ex *cpmExplorer) outIs(t *cpmTerm, evs []*dom.Event, v dom.BV) bool {
	if len(evs) != 1 || evs[0].Kind != isa.KindIOOut || evs[0].Guard != bdd.True {
		return false
	}
	c := ex.c
	okPort := c.M.And(t.pi, c.M.Not(c.IsZero(evs[0].Args[0]))) == bdd.False
	okVal := c.M.And(t.pi, c.M.Not(c.Eq(evs[0].Args[1], v))) == bdd.False
	return okPort && okVal
}

// get is the value of a location at the end of the path, under its condition.
func (ex *cpmExplorer) get(t *cpmTerm, loc string) dom.BV { return ex.under(t.pi, t.m.Get(loc)) }

// dataEvents lists, under the path condition, the events of a terminal that
// are not instruction fetches from the image.
func (ex *cpmExplorer) dataEvents(t *cpmTerm) []*dom.Event {
	var out []*dom.Event
	for i := range t.m.T.Events {
		e := t.m.T.Events[i]
		e.Guard = ex.c.M.Constrain(e.Guard, t.pi)
		if ex.c.M.And(e.Guard, t.pi) == bdd.False {
			continue
		}
		if e.Kind == isa.KindMemGet {
			if a, isc := ex.under(t.pi, e.Args[0]).IsConst(); isc {
				if _, ok := ex.img[int(a)]; ok {
					continue
				}
			}
		}
		ec := e
		out = append(out, &ec)
	}
	return out
}

func c18(cx *Ctx, r *ev.Report) {
	img, err := cpmImage(cx)
	ruleL := "LAYOUT: NewMemory only copies the three constant tables into a fresh array; page 0 holds JP <stop> at 0000h and JP <bdos> at 0005h; <stop> holds HALT and is FF03h"
	if err != nil {
		r.Undecide("C18/layout/func=NewMemory", ruleL, "internal/tinycpm/tinycpm.go", err.Error())
		r.Fatal = ""
		c18IO(cx, r)
		return
	}
	c := dom.NewCtx()
	ex := &cpmExplorer{c: c, img: img, intW: cx.E.IntW, disasm: map[int]string{}}
	// page 0
	decodeJP := func(at int) (int, bool) {
		m := ex.start(at)
		info := m.Exec()
		t, isc := m.Get(isa.LocPC).IsConst()
		return int(t), isc && info.Name == "JP nn"
	}
	stop, ok0 := decodeJP(0)
	bdos, ok5 := decodeJP(5)
	var det []string
	if !ok0 {
		det = append(det, "address 0000h does not hold JP nn")
	}
	if !ok5 {
		det = append(det, "address 0005h does not hold JP nn")
	}
	if ok0 {
		if stop != 0xFF03 {
			det = append(det, fmt.Sprintf("the warm-boot vector jumps to %04Xh, the property says the run ends halted at FF03h", stop))
		}
		m := ex.start(stop)
		if info := m.Exec(); info.Class != "halt" {
			det = append(det, fmt.Sprintf("%04Xh holds %s, not HALT", stop, info.Name))
		}
	}
	r.Check(len(det) == 0, "C18/layout/func=NewMemory", ruleL, "internal/tinycpm/tinycpm.go", "summary-equality", det...)
	r.Analysed["image_bytes_placed"] = len(img)
	r.AddFloor("image_bytes_placed", len(img), 20)
	// CP/M convention: the word at 0006h (the operand of the JP at 0005h) is the
	// top of the transient program area; programs - zexdoc among them - put
	// their stack there.  So nothing resident may lie between page 0 and it.
	if ok5 {
		var low []string
		for a := range img {
			if a >= 8 && a < bdos {
				low = append(low, fmt.Sprintf("%04X", a))
			}
		}
		sort.Strings(low)
		r.Check(len(low) == 0, "C18/layout/resident-above-tpa", "LAYOUT(TPA): every resident byte outside page 0 (0000h-0007h) lies at or above the BDOS entry, the address programs take from 0006h as the top of their memory and stack - a caller's stack cannot overwrite the stub", "internal/tinycpm/tinycpm.go", "summary-equality",
			"resident bytes below the BDOS entry "+fmt.Sprintf("%04X", bdos)+"h: "+strings.Join(low, " "))
	}
	if !ok5 {
		c18IO(cx, r)
		return
	}
	// BDOS stub from its entry: registers symbolic, a console device attached
	ioPresent := c.M.Not(c.Atom("IsNil(IO)", 1)[0])
	ex.run(ex.start(bdos), ioPresent, map[int]bool{}, -1, true, nil)
	C := c.Atom("Init("+isa.LocC+")", 8)
	E := c.Atom("Init("+isa.LocE+")", 8)
	DE := c.Concat(c.Atom("Init("+isa.LocD+")", 8), E)
	SP := c.Atom("Init("+isa.LocSP+")", 16)
	isFn := func(k uint64) bdd.Node { return c.M.And(ioPresent, c.Eq(C, c.Const(8, k))) }
	loopHead := -1
	seen := map[string]bool{}
	checkReturn := func(t *cpmTerm, want []string) []string {
		var d []string
		evs := ex.dataEvents(t)
		var got []string
		var lo, hi dom.BV
		for _, e := range evs {
			switch {
			case e.Kind == isa.KindMemSet:
				d = append(d, "the stub writes memory: "+c.DescribeEvent(e))
			case e.Kind == isa.KindMemGet && e.Args[0].Equal(SP):
				lo = e.Res
			case e.Kind == isa.KindMemGet && e.Args[0].Equal(c.AddK(SP, 1)):
				hi = e.Res
			case e.Kind == isa.KindMemGet:
				got = append(got, c.DescribeEvent(e))
			}
		}
		if lo == nil || hi == nil || !ex.get(t, isa.LocPC).Equal(ex.under(t.pi, c.Concat(hi, lo))) {
			d = append(d, "does not return to the word on top of the stack")
		}
		if !ex.get(t, isa.LocSP).Equal(c.AddK(SP, 2)) {
			d = append(d, "SP is not restored (SP+2 expected after popping the return address): "+c.Describe(ex.get(t, isa.LocSP)))
		}
		if strings.Join(got, "; ") != strings.Join(want, "; ") {
			d = append(d, fmt.Sprintf("accesses are [%s], expected [%s]", strings.Join(got, "; "), strings.Join(want, "; ")))
		}
		return d
	}
	getDE := "Memory.Get((Init(DE.Hi):Init(DE.Lo)))"
	rule := "STUB(path): the BDOS stub, explored with the reference model over the machine code NewMemory installs: function 2 sends E to port 0 and returns; function 9 reads (DE), returns at '$', otherwise sends the byte to port 0, increments DE and loops; nothing writes memory; returns pop the caller's address (SP restored)"
	for _, t := range ex.terms {
		var key string
		var d []string
		switch {
		case t.pi == isFn(2) && t.kind == "RETURN":
			key = "C18/stub/path=function-2"
			d = checkReturn(t, nil)
			var outs []*dom.Event
			for _, e := range ex.dataEvents(t) {
				if e.Kind != isa.KindMemGet && e.Kind != isa.KindMemSet {
					outs = append(outs, e)
				}
			}
			if !ex.outIs(t, outs, E) {
				d = append(d, "function 2 does not send exactly E to port 0")
			}
		case t.kind == "RETURN":
			key = "C18/stub/path=function-9-end"
			// pi must be C==9 and the byte read at DE equal to '$'
			var rd dom.BV
			for _, e := range ex.dataEvents(t) {
				if e.Kind == isa.KindMemGet && e.Args[0].Equal(DE) {
					rd = e.Res
				}
			}
			if rd == nil || t.pi != c.M.And(isFn(9), c.Eq(rd, c.Const(8, 0x24))) {
				d = append(d, "this return is not taken exactly when C = 9 and the byte at DE is '$'")
			}
			d = append(d, checkReturn(t, []string{getDE})...)
			if !ex.get(t, isa.LocD).Equal(c.Atom("Init("+isa.LocD+")", 8)) || !ex.get(t, isa.LocE).Equal(E) {
				d = append(d, "DE changed")
			}
		case t.kind == "LOOP":
			key = "C18/stub/path=function-9-first-character"
			loopHead = t.target
			var rd dom.BV
			var outs []*dom.Event
			var outsS []string
			for _, e := range ex.dataEvents(t) {
				switch {
				case e.Kind == isa.KindMemGet && e.Args[0].Equal(DE):
					rd = e.Res
				case e.Kind == isa.KindMemSet:
					d = append(d, "the stub writes memory")
				default:
					outs = append(outs, e)
					outsS = append(outsS, c.DescribeEvent(e))
				}
			}
			if rd == nil || t.pi != c.M.And(isFn(9), c.M.Not(c.Eq(rd, c.Const(8, 0x24)))) {
				d = append(d, "the loop is not continued exactly when C = 9 and the byte at DE is not '$'")
			} else if !ex.outIs(t, outs, rd) {
				d = append(d, fmt.Sprintf("accesses are [%s], expected exactly IO.Out(0, the byte read at DE)", strings.Join(outsS, "; ")))
			}
			if !c.Concat(ex.get(t, isa.LocD), ex.get(t, isa.LocE)).Equal(c.AddK(DE, 1)) {
				d = append(d, "DE is not advanced by one")
			}
			if !ex.get(t, isa.LocSP).Equal(SP) {
				d = append(d, "SP changed inside the loop")
			}
		case t.kind == "HALT":
			key = "C18/stub/path=other-function"
			if t.pi != c.M.And(ioPresent, c.M.Not(c.M.Or(c.Eq(C, c.Const(8, 2)), c.Eq(C, c.Const(8, 9))))) {
				d = append(d, "HALT is reached for a function number that should be served (or not for all others)")
			}
		default:
			key = fmt.Sprintf("C18/stub/path=%s-%d", t.kind, t.target)
			d = append(d, fmt.Sprintf("the stub leaves its code (%s) after %s", t.kind, strings.Join(t.trace, "; ")))
		}
		if seen[key] {
			key += "'"
		}
		seen[key] = true
		if len(d) > 0 {
			d = append(d, "path: "+strings.Join(t.trace, "; "))
			r.Violate(key, rule, "internal/tinycpm/tinycpm.go", d...)
		} else {
			r.Hold(key, rule, "internal/tinycpm/tinycpm.go", "summary-equality")
		}
	}
	for _, want := range []string{"C18/stub/path=function-2", "C18/stub/path=function-9-end", "C18/stub/path=function-9-first-character"} {
		if !seen[want] {
			r.Violate(want, rule, "internal/tinycpm/tinycpm.go", "no such path exists in the stub")
		}
	}
	// one iteration of the string loop from an arbitrary state
	if loopHead >= 0 {
		ex2 := &cpmExplorer{c: c, img: img, intW: cx.E.IntW, disasm: ex.disasm}
		ex2.run(ex2.start(loopHead), ioPresent, map[int]bool{}, loopHead, true, nil)
		n := 0
		for _, t := range ex2.terms {
			var d []string
			var rd dom.BV
			var outs []*dom.Event
			for _, e := range ex2.dataEvents(t) {
				switch {
				case e.Kind == isa.KindMemGet && e.Args[0].Equal(DE):
					rd = e.Res
				case e.Kind == isa.KindMemSet:
					d = append(d, "writes memory")
				case e.Kind == isa.KindMemGet:
				default:
					outs = append(outs, e)
				}
			}
			key := fmt.Sprintf("C18/stub/iteration=%s", t.kind)
			switch t.kind {
			case "RETURN":
				if rd == nil || t.pi != c.M.And(ioPresent, c.Eq(rd, c.Const(8, 0x24))) || len(outs) > 0 {
					d = append(d, "the loop does not end exactly at the first '$' without printing it")
				}
				if !ex2.get(t, isa.LocSP).Equal(c.AddK(SP, 2)) {
					d = append(d, "SP not restored")
				}
			case "LOOP":
				if rd == nil || t.pi != c.M.And(ioPresent, c.M.Not(c.Eq(rd, c.Const(8, 0x24)))) {
					d = append(d, "the loop does not continue exactly for bytes other than '$'")
				} else if !ex2.outIs(t, outs, rd) {
					d = append(d, "one iteration does not send exactly the byte read at DE to port 0")
				}
				if !c.Concat(ex2.get(t, isa.LocD), ex2.get(t, isa.LocE)).Equal(c.AddK(DE, 1)) || !ex2.get(t, isa.LocSP).Equal(SP) || t.target != loopHead {
					d = append(d, "DE+1 / SP unchanged / back to the loop head expected")
				}
			default:
				d = append(d, "unexpected exit "+t.kind)
			}
			n++
			r.Check(len(d) == 0, key, "STUB(iteration): one iteration of the string loop from an arbitrary state (basis of the induction over the string, DESIGN.md appendix A.2)", "internal/tinycpm/tinycpm.go", "summary-equality", d...)
		}
		r.AddFloor("loop_iteration_paths", n, 2)
	}
	var dis []string
	for a, n := range ex.disasm {
		dis = append(dis, fmt.Sprintf("%04X %s", a, n))
	}
	sort.Strings(dis)
	r.Analysed["stub_disassembly"] = dis
	r.Analysed["stub_instructions_explored"] = ex.instrs
	r.Analysed["stub_paths"] = len(ex.terms)
	r.Analysed["bdos_entry"] = fmt.Sprintf("%04X", bdos)
	r.Analysed["stop_address"] = fmt.Sprintf("%04X", stop)
	r.Samples = append(r.Samples, map[string]interface{}{"disassembly": dis})
	c18IO(cx, r)
	c18Writers(cx, r)
	r.Rules = append(r.Rules, ruleL, rule)
	r.Assumptions = append(r.Assumptions, commonAssumptions...)
	r.Assumptions = append(r.Assumptions, "the emulator executes each opcode of the stub as the reference model says (C01)", "io.Writer.Write and log.Logger.Printf behave as documented; errors of the console writer are ignored by the code and by this check")
	r.Trusted = append(append([]string{}, summaryTrusted...), "verif/internal/isa (used to execute the stub's machine code symbolically)", "C01 (emulator = reference model per opcode)")
	r.Explanation = "Partly decided. The memory image NewMemory builds is obtained by interpreting package initialisation and NewMemory; page 0 decodes to JP FF03h / JP <bdos>, FF03h holds HALT. The BDOS stub's machine code is explored path by path with the reference model (registers symbolic): C=2 sends E to port 0 and RETs; C=9 reads (DE), RETs at '$', otherwise sends the byte, increments DE and loops; other functions HALT; no path writes memory; RET pops the caller's address so SP is restored. One loop iteration from an arbitrary state is summarised as the basis of the induction over the string (appendix A.2, on paper). IO.Out writes exactly the byte to the configured writer for port 0, synchronously, and only warns otherwise; IO.In warns and returns 0; Memory.Get/Set are a plain array cell. NOT decided: the for-all-strings statement (induction), console writer errors, cmd/zexdoc's use."
}

type skipResult struct{}

// c18IO summarises the Go side: IO.Out / IO.In / Memory.Get / Memory.Set.
func c18IO(cx *Ctx, r *ev.Report) {
	type res struct {
		c   *dom.Ctx
		tr  *dom.Trace
		ret absint.Value
		err error
		fn  *ssa.Function
	}
	run := func(typ, method string) *res {
		fn := cx.P.Method(cpmPkg, typ, method)
		if fn == nil {
			return &res{err: fmt.Errorf("UNRESOLVED anchor: tinycpm.%s.%s", typ, method)}
		}
		c := dom.NewCtx()
		tr := dom.NewTrace(c)
		in := absint.New(cx.P, c, tr)
		in.AddSymbolicRoot("recv", "")
		in.NoGlobalEvents = true
		in.Models = map[string]absint.ModelFunc{
			"(*log.Logger).Printf": func(in *absint.Interp, args []absint.Value, guard bdd.Node, st *absint.State, pos string) (absint.Value, bool) {
				tr.Emit(guard, "warn", "logger", nil, 0, pos)
				return nil, true
			},
		}
		in.OnInvoke = func(in *absint.Interp, kind, dev string, args []absint.Value, guard bdd.Node, st *absint.State, pos string) (absint.Value, bool) {
			if !strings.HasSuffix(kind, ".Write") || len(args) != 1 {
				return nil, false
			}
			sl, ok := args[0].(*absint.Slice)
			if !ok || sl.Sym != "" {
				return nil, false
			}
			n, isc := sl.Len.IsConst()
			if !isc || n > 8 {
				return nil, false
			}
			var bs []dom.BV
			for i := 0; i < int(n); i++ {
				v, _ := st.Get(sl.Root, fmt.Sprintf("%s[%d]", sl.Path, sl.Lo+i))
				bv, ok := v.(dom.BV)
				if !ok {
					return nil, false
				}
				bs = append(bs, bv)
			}
			tr.Emit(guard, fmt.Sprintf("console.write[%d]", n), dev, bs, 0, pos)
			return &absint.Tuple{Elems: []absint.Value{c.Const(64, n), &absint.Iface{Sym: "writeerr", Nil: c.Atom("IsNil(writeerr)", 1)[0]}}}, true
		}
		args := []absint.Value{&absint.Ptr{Root: "recv", Nil: bdd.False}}
		for i, p := range fn.Params[1:] {
			args = append(args, in.SymbolicValue(p.Type(), fmt.Sprintf("arg%d", i+1)))
		}
		ret, out, err := in.Run(fn, args, absint.NewState())
		if err == nil {
			for _, k := range out.Keys() {
				if root, p := absint.SplitKey(k); root == "recv" {
					err = fmt.Errorf("the method stores to its receiver's field %s", p)
				}
			}
		}
		return &res{c: c, tr: tr, ret: ret, err: err, fn: fn}
	}
	cmp := func(key, rule string, a *res, build func(c *dom.Ctx, exp *dom.Trace) absint.Value) {
		pos := "-"
		if a.fn != nil {
			pos = cx.P.Pos(a.fn.Pos())
		}
		if a.err != nil {
			r.Undecide(key, rule, pos, a.err.Error())
			return
		}
		exp := dom.NewTrace(a.c)
		want := build(a.c, exp)
		var det []string
		for _, d := range a.c.DiffSequence(a.tr.SequenceChar(nil), exp.SequenceChar(nil)) {
			det = append(det, d)
		}
		if _, skip := want.(skipResult); !skip && !absint.SameValue(a.ret, want) {
			det = append(det, fmt.Sprintf("result is %s, expected %s", absint.DescribeValue(a.c, a.ret), absint.DescribeValue(a.c, want)))
		}
		if len(det) > 0 {
			var evs []string
			for i := range a.tr.Events {
				evs = append(evs, a.c.DescribeEvent(&a.tr.Events[i]))
			}
			det = append(det, "implementation: "+strings.Join(evs, "; "))
			r.Violate(key, rule, pos, det...)
		} else {
			r.Hold(key, rule, pos, "summary-equality")
		}
	}
	cmp("C18/io/func=IO.Out", "IO-EQ: port 0 -> exactly one Write of the one unmodified byte to the configured writer, synchronously; any other port -> a warning only", run("IO", "Out"),
		func(c *dom.Ctx, exp *dom.Trace) absint.Value {
			addr, val := c.Atom("Init(arg1)", 8), c.Atom("Init(arg2)", 8)
			z := c.IsZero(addr)
			exp.Emit(c.M.Not(z), "warn", "logger", nil, 0, "ref")
			exp.Emit(z, "console.write[1]", "stdout", []dom.BV{val}, 0, "ref")
			return nil
		})
	cmp("C18/io/func=IO.In", "IO-EQ: any port read only produces a warning (the value returned is not fixed by the property)", run("IO", "In"),
		func(c *dom.Ctx, exp *dom.Trace) absint.Value {
			exp.Emit(bdd.True, "warn", "logger", nil, 0, "ref")
			return skipResult{}
		})
	// SetStdout installs exactly the writer it is given
	if fn := cx.P.Method(cpmPkg, "IO", "SetStdout"); fn != nil {
		c := dom.NewCtx()
		in := absint.New(cx.P, c, dom.NewTrace(c))
		in.AddSymbolicRoot("recv", "")
		w := in.SymbolicValue(fn.Params[1].Type(), "arg1")
		_, out, err := in.Run(fn, []absint.Value{&absint.Ptr{Root: "recv", Nil: bdd.False}, w}, absint.NewState())
		key := "C18/io/func=IO.SetStdout"
		rule := "CONFIG-EQ: SetStdout makes the given writer the one IO.Out writes to, unconditionally"
		if err != nil {
			r.Undecide(key, rule, cx.P.Pos(fn.Pos()), err.Error())
		} else {
			v, ok := out.Get("recv", "stdout")
			r.Check(ok && absint.SameValue(v, w) && len(out.Keys()) == 1, key, rule, cx.P.Pos(fn.Pos()), "summary-equality", "after SetStdout the console writer is "+absint.DescribeValue(c, v))
		}
	} else {
		r.Undecide("C18/io/func=IO.SetStdout", "anchor", "", "UNRESOLVED anchor: tinycpm.IO.SetStdout")
	}
	iw := int(cx.P.Sizes.Sizeof(types.Typ[types.Int])) * 8
	cmp("C18/memory/func=Memory.Get", "CELL-EQ: Get returns the array cell at the unmodified address (index safe by type)", run("Memory", "Get"),
		func(c *dom.Ctx, exp *dom.Trace) absint.Value {
			return exp.Emit(bdd.True, "slice.get", "recv/buf", []dom.BV{c.Zext(c.Atom("Init(arg1)", 16), iw)}, 8, "ref")
		})
	cmp("C18/memory/func=Memory.Set", "CELL-EQ: Set stores the unmodified value into the array cell at the unmodified address", run("Memory", "Set"),
		func(c *dom.Ctx, exp *dom.Trace) absint.Value {
			exp.Emit(bdd.True, "slice.set", "recv/buf", []dom.BV{c.Zext(c.Atom("Init(arg1)", 16), iw), c.Atom("Init(arg2)", 8)}, 0, "ref")
			return nil
		})
}

// c18Writers: the three machine-code tables are written only by package init.
func c18Writers(cx *Ctx, r *ev.Report) {
	sp := cx.P.SSAPkg(cpmPkg)
	if sp == nil {
		return
	}
	var det []string
	initFns := rules.InitClosure(allFunctions(cx.P))
	for fn := range allFunctions(cx.P) {
		if fn.Pkg != sp || initFns[fn] {
			continue
		}
		for _, b := range fn.Blocks {
			for _, in := range b.Instrs {
				switch x := in.(type) {
				case *ssa.Store:
					if g, ok := x.Addr.(*ssa.Global); ok {
						det = append(det, fmt.Sprintf("%s: %s assigns %s", cx.P.Pos(in.Pos()), fn, g.Name()))
					}
				case *ssa.UnOp:
					if g, ok := x.X.(*ssa.Global); ok && g.Pkg == sp {
						if _, isSlice := x.Type().Underlying().(*types.Slice); !isSlice {
							continue
						}
						for _, ref := range *x.Referrers() {
							if ia, ok := ref.(*ssa.IndexAddr); ok {
								for _, r2 := range *ia.Referrers() {
									if s, ok := r2.(*ssa.Store); ok && s.Addr == ssa.Value(ia) {
										det = append(det, fmt.Sprintf("%s: %s writes into %s", cx.P.Pos(s.Pos()), fn, g.Name()))
									}
								}
							}
						}
					}
				}
			}
		}
	}
	sort.Strings(det)
	r.Check(len(det) == 0, "C18/layout/no-writers", "NO-WRITERS(tables): the machine-code tables are written only by package initialisation", "internal/tinycpm/tinycpm.go", "shape", det...)
	// machines are independent: outside package initialisation nothing in the
	// package stores to (or through) a package-level variable, so the byte a
	// machine hands to its writer cannot be another machine's
	var fns []*ssa.Function
	for fn := range allFunctions(cx.P) {
		if fn.Pkg == sp && !initFns[fn] {
			fns = append(fns, fn)
		}
	}
	eff := rules.ComputeEffects(cx.P, fns)
	det = append([]string{}, eff.GlobalStores...)
	sort.Strings(det)
	r.Check(len(det) == 0, "C18/isolation/no-shared-state", "R-EFFECTS(tinycpm): no function of the package other than package initialisation stores to or through a package-level variable (two machines share no mutable state: each console receives its own bytes in its own program order)", "internal/tinycpm/tinycpm.go", "shape", det...)
	r.Analysed["tinycpm_functions"] = len(fns)
	r.Analysed["tinycpm_stores"] = eff.Stores
}
