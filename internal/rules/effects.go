package rules

import (
	"fmt"
	"go/types"
	"strings"

	"golang.org/x/tools/go/ssa"

	"verif/internal/load"
)

// StoreBase classifies what a store's address is rooted in.
func StoreBase(addr ssa.Value) (kind string, base ssa.Value) {
	_, b := fieldPath(addr)
	for depth := 0; depth < 8; depth++ {
		switch x := b.(type) {
		case *ssa.Parameter:
			return "param", x
		case *ssa.Alloc:
			return "local", x
		case *ssa.FreeVar:
			return "captured", x
		case *ssa.Global:
			return "global", x
		case *ssa.UnOp:
			// pointer loaded from somewhere: follow to see where it was loaded from
			_, nb := fieldPath(x.X)
			switch y := nb.(type) {
			case *ssa.Parameter:
				return "loaded-from-param", y
			case *ssa.Alloc:
				// a pointer kept in a local cell: look at what is stored there
				return "loaded-from-local", y
			case *ssa.Global:
				return "loaded-from-global", y
			case *ssa.FreeVar:
				return "captured", y
			}
			b = nb
		case *ssa.Call:
			// a pointer handed out by a module function that only returns
			// addresses inside its own (pointer) parameters, e.g. a register selector
			if cal := x.Call.StaticCallee(); cal != nil && load.InModule(cal) && cal.Blocks != nil && returnsParamRooted(cal, 0) {
				return "param", x
			}
			if x.Call.StaticCallee() == nil && !x.Call.IsInvoke() && ResolveCallSite != nil {
				// the selector is itself a function value: every function it resolved to
				if fs, ok := ResolveCallSite(x); ok && len(fs) > 0 {
					all := true
					for _, f := range fs {
						if !load.InModule(f) || f.Blocks == nil || !returnsParamRooted(f, 0) {
							all = false
						}
					}
					if all {
						return "param", x
					}
				}
			}
			return "fresh-or-unknown", x
		case *ssa.Phi:
			all := len(x.Edges) > 0
			for _, e := range x.Edges {
				if k, _ := StoreBase(e); k != "param" && k != "local" && k != "captured" {
					if c, ok := e.(*ssa.Const); !ok || c.Value != nil {
						all = false
					}
				}
			}
			if all {
				return "param", x
			}
			return "fresh-or-unknown", x
		case *ssa.Index:
			// an element of a local table of pointers (e.g. [8]*uint8{&cpu.BC.Hi, ...}[i])
			if u, ok := x.X.(*ssa.UnOp); ok {
				if al, ok := u.X.(*ssa.Alloc); ok && tableOfParamPointers(al) {
					return "param", x
				}
			}
			return "fresh-or-unknown", x
		case *ssa.MakeMap, *ssa.MakeSlice, *ssa.Slice, *ssa.Extract:
			return "fresh-or-unknown", x
		default:
			return fmt.Sprintf("%T", b), b
		}
	}
	return "unknown", b
}

// Effects is R-EFFECTS over a set of functions.
type Effects struct {
	GlobalStores []string // positions of stores to package-level variables
	GlobalReads  map[string][]string
	HeapStores   []string // stores through pointers loaded from the heap (not param/local rooted)
	MapUpdates   []string
	Sends        []string
	Stores       int
	InitFns      map[*ssa.Function]bool
}

func outermost(fn *ssa.Function) *ssa.Function {
	for fn.Parent() != nil {
		fn = fn.Parent()
	}
	return fn
}

// ComputeEffectsInit is ComputeEffects with the set of functions that make up
// package initialisation (see InitClosure), needed to judge captured variables.
func ComputeEffectsInit(p *load.Program, fns []*ssa.Function, initFns map[*ssa.Function]bool) *Effects {
	return computeEffects(p, fns, initFns)
}

func ComputeEffects(p *load.Program, fns []*ssa.Function) *Effects {
	return computeEffects(p, fns, nil)
}

func computeEffects(p *load.Program, fns []*ssa.Function, initFns map[*ssa.Function]bool) *Effects {
	e := &Effects{GlobalReads: map[string][]string{}, InitFns: initFns}
	for _, fn := range fns {
		for _, b := range fn.Blocks {
			for _, in := range b.Instrs {
				switch x := in.(type) {
				case *ssa.Store:
					e.Stores++
					kind, base := StoreBase(x.Addr)
					switch kind {
					case "captured":
						// a variable captured by a function literal: private to the call that
						// created the literal - unless the literal was created by package
						// initialisation (a table of closures), then the variable is shared by
						// every CPU and survives between calls
						if e.InitFns != nil && fn.Parent() != nil && e.InitFns[outermost(fn)] {
							e.GlobalStores = append(e.GlobalStores, fmt.Sprintf("%s: %s stores to a variable captured by a closure that package initialisation built (state shared by all CPUs)", p.Pos(in.Pos()), fn))
						}
					case "param", "local", "loaded-from-local":
					case "global", "loaded-from-global":
						e.GlobalStores = append(e.GlobalStores, fmt.Sprintf("%s: %s stores to package-level variable %s", p.Pos(in.Pos()), fn, base.Name()))
					default:
						e.HeapStores = append(e.HeapStores, fmt.Sprintf("%s: %s stores through a pointer that is not rooted in a parameter or local (%s)", p.Pos(in.Pos()), fn, kind))
					}
				case *ssa.UnOp:
					if g, ok := x.X.(*ssa.Global); ok {
						e.GlobalReads[g.String()] = append(e.GlobalReads[g.String()], p.Pos(in.Pos()))
					}
				case *ssa.MapUpdate:
					e.MapUpdates = append(e.MapUpdates, p.Pos(in.Pos()))
				case *ssa.Send:
					e.Sends = append(e.Sends, p.Pos(in.Pos()))
				}
				// globals used as operands other than load/store (address taken)
				for _, op := range in.Operands(nil) {
					if g, ok := (*op).(*ssa.Global); ok {
						switch in.(type) {
						case *ssa.UnOp, *ssa.Store:
						default:
							e.GlobalReads[g.String()] = append(e.GlobalReads[g.String()], p.Pos(in.Pos())+" (address used)")
						}
					}
				}
			}
		}
	}
	return e
}

// RefKinds lists the reference-typed components reachable by value from t.
func RefKinds(t types.Type, path string, out *[]string, depth int) {
	if depth > 8 {
		return
	}
	switch u := t.Underlying().(type) {
	case *types.Struct:
		for i := 0; i < u.NumFields(); i++ {
			RefKinds(u.Field(i).Type(), path+"."+u.Field(i).Name(), out, depth+1)
		}
	case *types.Array:
		RefKinds(u.Elem(), path+"[]", out, depth+1)
	case *types.Pointer, *types.Map, *types.Slice, *types.Chan, *types.Signature, *types.Interface:
		*out = append(*out, strings.TrimPrefix(path, ".")+" ("+t.String()+")")
	case *types.Basic:
		if u.Kind() == types.UnsafePointer || u.Kind() == types.String && false {
			*out = append(*out, path)
		}
	}
}

// Unexported lists unexported fields reachable by value from t.
func Unexported(t types.Type, path string, out *[]string, depth int) {
	if depth > 8 {
		return
	}
	if u, ok := t.Underlying().(*types.Struct); ok {
		for i := 0; i < u.NumFields(); i++ {
			f := u.Field(i)
			if !f.Exported() {
				*out = append(*out, strings.TrimPrefix(path+"."+f.Name(), "."))
			}
			Unexported(f.Type(), path+"."+f.Name(), out, depth+1)
		}
	}
}

// returnsParamRooted: every pointer the function returns is nil or an address
// inside one of its parameters (or such a pointer obtained from another
// function with the same property).
func returnsParamRooted(fn *ssa.Function, depth int) bool {
	if depth > 3 {
		return false
	}
	found := false
	for _, b := range fn.Blocks {
		for _, in := range b.Instrs {
			r, ok := in.(*ssa.Return)
			if !ok {
				continue
			}
			for _, res := range r.Results {
				if _, isPtr := res.Type().Underlying().(*types.Pointer); !isPtr {
					continue
				}
				found = true
				if c, ok := res.(*ssa.Const); ok && c.Value == nil {
					continue
				}
				if k, _ := StoreBase(res); k != "param" {
					return false
				}
			}
		}
	}
	return found
}

// tableOfParamPointers: every store into the local array stores nil or a
// pointer rooted in a parameter.
func tableOfParamPointers(al *ssa.Alloc) bool {
	refs := al.Referrers()
	if refs == nil {
		return false
	}
	n := 0
	for _, r := range *refs {
		ia, ok := r.(*ssa.IndexAddr)
		if !ok {
			continue
		}
		for _, r2 := range *ia.Referrers() {
			s, ok := r2.(*ssa.Store)
			if !ok || s.Addr != ssa.Value(ia) {
				continue
			}
			n++
			if c, ok := s.Val.(*ssa.Const); ok && c.Value == nil {
				continue
			}
			if k, _ := StoreBase(s.Val); k != "param" {
				return false
			}
		}
	}
	return n > 0
}

// InitClosure returns the functions that run only as part of package
// initialisation: the synthetic init, declared init functions (init#N), and -
// transitively - functions all of whose uses are static calls from functions
// already in the set (a table-building helper called from init).
func InitClosure(all map[*ssa.Function]bool) map[*ssa.Function]bool {
	in := map[*ssa.Function]bool{}
	for fn := range all {
		if fn.Pkg != nil && fn.Parent() == nil && (fn.Name() == "init" || strings.HasPrefix(fn.Name(), "init#")) {
			in[fn] = true
		}
	}
	// uses of every function: static callers, or "escapes" (used as a value)
	callers := map[*ssa.Function]map[*ssa.Function]bool{}
	escapes := map[*ssa.Function]bool{}
	for fn := range all {
		for _, b := range fn.Blocks {
			for _, instr := range b.Instrs {
				var callee ssa.Value
				if c, ok := instr.(ssa.CallInstruction); ok {
					callee = c.Common().Value
					if f := c.Common().StaticCallee(); f != nil {
						if callers[f] == nil {
							callers[f] = map[*ssa.Function]bool{}
						}
						callers[f][fn] = true
					}
				}
				for _, op := range instr.Operands(nil) {
					if f, ok := (*op).(*ssa.Function); ok && ssa.Value(f) != callee {
						escapes[f] = true
					}
					if mc, ok := (*op).(*ssa.MakeClosure); ok {
						if f, ok := mc.Fn.(*ssa.Function); ok && ssa.Value(mc) != callee {
							escapes[f] = true
						}
					}
				}
			}
		}
	}
	for changed := true; changed; {
		changed = false
		for fn := range all {
			if in[fn] || escapes[fn] || fn.Blocks == nil {
				continue
			}
			if fn.Parent() != nil {
				// a function literal belongs to its parent
				if in[fn.Parent()] {
					in[fn], changed = true, true
				}
				continue
			}
			if fn.Object() != nil && fn.Object().Exported() {
				continue
			}
			if fn.Signature.Recv() != nil {
				continue // methods can be reached through interfaces
			}
			cs := callers[fn]
			if len(cs) == 0 {
				continue
			}
			ok := true
			for c := range cs {
				if !in[c] {
					ok = false
				}
			}
			if ok {
				in[fn], changed = true, true
			}
		}
	}
	return in
}
