package rules

import (
	"go/types"
	"strings"

	"golang.org/x/tools/go/ssa"
)

// Site is a place where a location may be written (or its address escapes).
type Site struct {
	Fn   *ssa.Function
	Pos  ssa.Instruction
	Path string // field path of the store target, e.g. "States.SPR.IR.Lo"
	Kind string // store | struct-store | escape
}

// fieldPath resolves the address operand of a store to a dotted field path
// rooted at whatever base the chain starts from ("?" for unknown bases).
func fieldPath(v ssa.Value) (path []string, base ssa.Value) {
	for {
		switch x := v.(type) {
		case *ssa.FieldAddr:
			st := x.X.Type().Underlying().(*types.Pointer).Elem().Underlying().(*types.Struct)
			path = append([]string{st.Field(x.Field).Name()}, path...)
			v = x.X
		case *ssa.IndexAddr:
			path = append([]string{"[]"}, path...)
			v = x.X
		default:
			return path, v
		}
	}
}

// typeHasField reports whether a value of type t contains (transitively, by
// value) a struct field with the given name whose containing struct is named
// owner ("" = any).
func typeContains(t types.Type, match func(path []string) bool, prefix []string, depth int) bool {
	if depth > 8 {
		return false
	}
	switch u := t.Underlying().(type) {
	case *types.Struct:
		for i := 0; i < u.NumFields(); i++ {
			p := append(append([]string{}, prefix...), u.Field(i).Name())
			if match(p) || typeContains(u.Field(i).Type(), match, p, depth+1) {
				return true
			}
		}
	case *types.Array:
		return typeContains(u.Elem(), match, append(append([]string{}, prefix...), "[]"), depth+1)
	}
	return false
}

// Writers lists every store in fns whose target field path satisfies match
// (a path is matched by its suffix), every whole-struct store that covers
// such a field, and every escape of such a field's address.
func Writers(fns map[*ssa.Function]bool, match func(path []string) bool) []Site {
	var out []Site
	for fn := range fns {
		for _, b := range fn.Blocks {
			for _, in := range b.Instrs {
				switch x := in.(type) {
				case *ssa.Store:
					p, _ := fieldPath(x.Addr)
					if len(p) > 0 && match(p) {
						out = append(out, Site{fn, in, strings.Join(p, "."), "store"})
						continue
					}
					// whole-struct store covering the field
					if typeContains(x.Val.Type(), match, p, 0) {
						out = append(out, Site{fn, in, strings.Join(p, ".") + ".*", "struct-store"})
					}
				case *ssa.FieldAddr:
					p, _ := fieldPath(x)
					if !match(p) {
						continue
					}
					for _, ref := range *x.Referrers() {
						switch r := ref.(type) {
						case *ssa.Store:
							if r.Addr == x {
								continue
							}
						case *ssa.UnOp, *ssa.FieldAddr, *ssa.DebugRef:
							continue
						}
						out = append(out, Site{fn, ref, strings.Join(p, "."), "escape"})
					}
				}
			}
		}
	}
	return out
}

// SuffixMatch builds a matcher for paths ending in the given field names.
func SuffixMatch(suffix ...string) func([]string) bool {
	return func(p []string) bool {
		if len(p) < len(suffix) {
			return false
		}
		for i := range suffix {
			if p[len(p)-len(suffix)+i] != suffix[i] {
				return false
			}
		}
		return true
	}
}
