package rules

import (
	"fmt"
	"go/constant"
	"go/token"
	"go/types"
	"strings"

	"golang.org/x/tools/go/ssa"

	"verif/internal/load"
)

// PanicSite is an instruction that can panic in Go, with the rule that shows
// it cannot here (or none).
type PanicSite struct {
	Fn         *ssa.Function
	Instr      ssa.Instruction
	Kind       string // index | slice | nil-deref | nil-invoke | map-update | type-assert | divide | explicit-panic | make | call-value
	What       string
	Discharged bool
	By         string // rule that discharged it
	Why        string // why not
}

// PanicCfg carries the API preconditions of the property.
type PanicCfg struct {
	P      *load.Program
	nnMemo map[ssa.Value]nnRes
	// NonNilPaths: access paths assumed non-nil by the property's
	// preconditions, written as "<recv>.Field" suffixes, e.g. ".Memory".
	NonNilFieldOfRecv map[string]bool
	// Roots are entry functions whose pointer parameters are non-nil by
	// precondition (exported API called by the user).
	Roots map[*ssa.Function]bool
	Fns   map[*ssa.Function]bool
}

// ---------------------------------------------------------------------------
// access paths

// accessPath renders a value as a path rooted at a parameter: "p0", "p0.F",
// "*(p0.F)" ...; ok=false for anything else.
func accessPath(v ssa.Value) (string, bool) {
	switch x := v.(type) {
	case *ssa.Parameter:
		for i, p := range x.Parent().Params {
			if p == x {
				return fmt.Sprintf("p%d", i), true
			}
		}
	case *ssa.FieldAddr:
		b, ok := accessPath(x.X)
		if !ok {
			return "", false
		}
		st := x.X.Type().Underlying().(*types.Pointer).Elem().Underlying().(*types.Struct)
		return b + "." + st.Field(x.Field).Name(), true
	case *ssa.UnOp:
		if x.Op == token.MUL {
			b, ok := accessPath(x.X)
			if !ok {
				return "", false
			}
			return "*(" + b + ")", true
		}
	case *ssa.Field:
		b, ok := accessPath(x.X)
		if !ok {
			return "", false
		}
		st := x.X.Type().Underlying().(*types.Struct)
		return b + "." + st.Field(x.Field).Name(), true
	}
	return "", false
}

func isBuiltinCall(c *ssa.CallCommon) bool {
	_, ok := c.Value.(*ssa.Builtin)
	return ok
}

// pureCallee: calls that cannot run user callbacks or store to the heap.
func pureCallee(c *ssa.CallCommon, memo map[*ssa.Function]bool, depth int) bool {
	if isBuiltinCall(c) {
		return true
	}
	if c.IsInvoke() {
		return false
	}
	f := c.StaticCallee()
	if f == nil {
		return false
	}
	if strings.HasPrefix(f.String(), "math/bits.") {
		return true
	}
	if !load.InModule(f) || f.Blocks == nil || depth > 4 {
		return false
	}
	if v, ok := memo[f]; ok {
		return v
	}
	memo[f] = false
	for _, b := range f.Blocks {
		for _, in := range b.Instrs {
			switch x := in.(type) {
			case *ssa.Store:
				if k, _ := StoreBase(x.Addr); k != "local" {
					return false
				}
			case ssa.CallInstruction:
				if !pureCallee(x.Common(), memo, depth+1) {
					return false
				}
			case *ssa.MapUpdate, *ssa.Send:
				return false
			}
		}
	}
	memo[f] = true
	return true
}

var pureMemo = map[*ssa.Function]bool{}

// killer: may the instruction change the value found at path (or run a
// callback that does)?
func killer(in ssa.Instruction, path string) bool {
	switch x := in.(type) {
	case ssa.CallInstruction:
		return !pureCallee(x.Common(), pureMemo, 0)
	case *ssa.Store:
		k, _ := StoreBase(x.Addr)
		if k == "local" {
			return false
		}
		sp, ok := accessPath(x.Addr)
		if !ok {
			return true
		}
		// the store changes what is *at* sp, i.e. the value "*(sp)"
		target := "*(" + sp + ")"
		return strings.Contains(path, target) || strings.HasPrefix(target, path)
	case *ssa.MapUpdate, *ssa.Send:
		return true
	}
	return false
}

// clearBetween: no killer of path on any CFG path from instruction a (or the
// function entry if a == nil) to instruction b.
func clearBetween(fn *ssa.Function, a, b ssa.Instruction, path string) (bool, ssa.Instruction) {
	bb := b.Block()
	var ab *ssa.BasicBlock
	if a != nil {
		ab = a.Block()
	} else {
		ab = fn.Blocks[0]
	}
	// blocks reachable from ab
	reach := map[*ssa.BasicBlock]bool{}
	var fwd func(x *ssa.BasicBlock)
	fwd = func(x *ssa.BasicBlock) {
		for _, s := range x.Succs {
			if !reach[s] {
				reach[s] = true
				fwd(s)
			}
		}
	}
	fwd(ab)
	// blocks that can reach bb
	co := map[*ssa.BasicBlock]bool{}
	var bwd func(x *ssa.BasicBlock)
	bwd = func(x *ssa.BasicBlock) {
		for _, p := range x.Preds {
			if !co[p] {
				co[p] = true
				bwd(p)
			}
		}
	}
	bwd(bb)
	scan := func(ins []ssa.Instruction) ssa.Instruction {
		for _, in := range ins {
			if killer(in, path) {
				return in
			}
		}
		return nil
	}
	idx := func(blk *ssa.BasicBlock, in ssa.Instruction) int {
		for i, x := range blk.Instrs {
			if x == in {
				return i
			}
		}
		return -1
	}
	if ab == bb && (a == nil || idx(ab, a) < idx(bb, b)) && !(reach[ab] && co[ab]) {
		lo := 0
		if a != nil {
			lo = idx(ab, a) + 1
		}
		if k := scan(ab.Instrs[lo:idx(bb, b)]); k != nil {
			return false, k
		}
		return true, nil
	}
	// general case
	lo := 0
	if a != nil {
		lo = idx(ab, a) + 1
	}
	if k := scan(ab.Instrs[lo:]); k != nil && ab != bb {
		return false, k
	}
	if k := scan(bb.Instrs[:idx(bb, b)]); k != nil {
		return false, k
	}
	for _, blk := range fn.Blocks {
		if blk == ab || blk == bb {
			if blk == ab && blk == bb {
				// a loop through the same block: everything in it
				if k := scan(blk.Instrs); k != nil {
					return false, k
				}
			}
			continue
		}
		if reach[blk] && co[blk] {
			if k := scan(blk.Instrs); k != nil {
				return false, k
			}
		}
	}
	return true, nil
}

// ---------------------------------------------------------------------------
// guards

// branchTo: the If instruction and the successor index through which blk is
// entered, if blk (or a dominator chain of single-pred blocks) hangs off one
// branch of a dominating If.  It yields every (If, successorIndex) such that
// control reaching target must have left the If through that successor.
func dominatingBranches(target *ssa.BasicBlock) []struct {
	If   *ssa.If
	Succ int
} {
	var out []struct {
		If   *ssa.If
		Succ int
	}
	for d := target; d != nil; d = d.Idom() {
		// how was d entered? if it has a single predecessor ending in an If,
		// then reaching d implies that branch
		if len(d.Preds) == 1 {
			p := d.Preds[0]
			if n := len(p.Instrs); n > 0 {
				if iff, ok := p.Instrs[n-1].(*ssa.If); ok {
					si := 0
					if p.Succs[1] == d {
						si = 1
					}
					if p.Succs[0] != p.Succs[1] {
						out = append(out, struct {
							If   *ssa.If
							Succ int
						}{iff, si})
					}
				}
			}
		}
	}
	return out
}

func stripWiden(v ssa.Value) ssa.Value {
	for {
		c, ok := v.(*ssa.Convert)
		if !ok {
			return v
		}
		sb, ok1 := c.X.Type().Underlying().(*types.Basic)
		tb, ok2 := c.Type().Underlying().(*types.Basic)
		if !ok1 || !ok2 || sb.Info()&types.IsInteger == 0 || tb.Info()&types.IsInteger == 0 {
			return v
		}
		// only value-preserving widenings of unsigned values, or same-size
		if sb.Info()&types.IsUnsigned == 0 {
			return v
		}
		v = c.X
	}
}

func constInt(v ssa.Value) (int64, bool) {
	c, ok := v.(*ssa.Const)
	if !ok || c.Value == nil || c.Value.Kind() != constant.Int {
		return 0, false
	}
	return constant.Int64Val(c.Value)
}

func lenOf(v ssa.Value) (ssa.Value, bool) {
	c, ok := v.(*ssa.Call)
	if !ok {
		return nil, false
	}
	b, ok := c.Call.Value.(*ssa.Builtin)
	if !ok || b.Name() != "len" {
		return nil, false
	}
	return c.Call.Args[0], true
}

// sameValue: identical SSA values, or loads of the same access path with no
// killer between the first load and the use site.
func sameValue(fn *ssa.Function, a, b ssa.Value, site ssa.Instruction) bool {
	if a == b {
		return true
	}
	pa, ok1 := accessPath(a)
	pb, ok2 := accessPath(b)
	if !ok1 || !ok2 || pa != pb {
		return false
	}
	ia, ok := a.(ssa.Instruction)
	if !ok {
		return false
	}
	clear, _ := clearBetween(fn, ia, site, pa)
	return clear
}

func unsignedNonNeg(v ssa.Value) bool {
	if k, ok := constInt(v); ok {
		return k >= 0
	}
	b, ok := stripWiden(v).Type().Underlying().(*types.Basic)
	return ok && b.Info()&types.IsUnsigned != 0
}

// lenGuard: is the index site (slice s, index i) protected by a dominating
// comparison with len(s)?
func lenGuard(fn *ssa.Function, site ssa.Instruction, s, i ssa.Value) (bool, string) {
	if !unsignedNonNeg(i) {
		return false, "the index may be negative"
	}
	ik, iconst := constInt(i)
	for _, br := range dominatingBranches(site.Block()) {
		cond, ok := br.If.Cond.(*ssa.BinOp)
		if !ok {
			continue
		}
		op := cond.Op
		x, y := cond.X, cond.Y
		// normalise to  <index-side> OP len(S)
		ls, isLenY := lenOf(y)
		if !isLenY {
			if l2, isLenX := lenOf(x); isLenX {
				ls = l2
				x, y = y, x
				switch op {
				case token.LSS:
					op = token.GTR
				case token.GTR:
					op = token.LSS
				case token.LEQ:
					op = token.GEQ
				case token.GEQ:
					op = token.LEQ
				}
			} else {
				continue
			}
		}
		if !sameValue(fn, ls, s, site) {
			continue
		}
		// x OP len(s); successor 0 = cond true
		truth := br.Succ == 0
		if iconst {
			// constant index k: need len > k
			ck, ok := constInt(x)
			if !ok {
				continue
			}
			switch {
			case op == token.LSS && truth && ck >= ik: // c < len
				return true, "constant index below a dominating lower bound on len"
			case op == token.LEQ && truth && ck >= ik+1:
				return true, "constant index below a dominating lower bound on len"
			case op == token.GEQ && !truth && ck >= ik: // !(c >= len)
				return true, "constant index below a dominating lower bound on len"
			case op == token.GTR && !truth && ck >= ik+1:
				return true, "constant index below a dominating lower bound on len"
			case op == token.NEQ && truth && ck == 0 && ik == 0, op == token.EQL && !truth && ck == 0 && ik == 0:
				return true, "index 0 of a slice with len != 0"
			}
			continue
		}
		if stripWiden(x) != stripWiden(i) {
			continue
		}
		switch {
		case op == token.LSS && truth, op == token.GEQ && !truth:
			return true, "index < len on the dominating branch"
		}
	}
	return false, "no dominating comparison of this index with len of this slice"
}

// nilGuard: pointer/interface value v (a load of an access path) is non-nil at
// site: a dominating "!= nil" branch on the same path without killers, or no
// killer since function entry and every caller guarantees it.
func (cfg *PanicCfg) nilGuard(fn *ssa.Function, site ssa.Instruction, v ssa.Value, depth int) (bool, string) {
	// the very same SSA value was tested against nil on the dominating branch
	// (an SSA value cannot change, so nothing in between matters)
	for _, br := range dominatingBranches(site.Block()) {
		cond, ok := br.If.Cond.(*ssa.BinOp)
		if !ok || cond.Op != token.NEQ && cond.Op != token.EQL {
			continue
		}
		x, y := cond.X, cond.Y
		if c, ok := x.(*ssa.Const); ok && c.Value == nil {
			x, y = y, x
		}
		if c, ok := y.(*ssa.Const); !ok || c.Value != nil || x != v {
			continue
		}
		nonNilSucc := 0
		if cond.Op == token.EQL {
			nonNilSucc = 1
		}
		if br.Succ == nonNilSucc {
			return true, "the same value is tested against nil on the dominating branch"
		}
	}
	path, ok := accessPath(v)
	if !ok {
		return false, "the value is not a load of a parameter-rooted path"
	}
	// precondition of the property (e.g. cpu.Memory != nil)
	for suf := range cfg.NonNilFieldOfRecv {
		if path == "*(p0"+suf+")" && cfg.recvIsCPU(fn) {
			return true, "precondition of the property (" + strings.TrimPrefix(suf, ".") + " != nil)"
		}
	}
	for _, br := range dominatingBranches(site.Block()) {
		cond, ok := br.If.Cond.(*ssa.BinOp)
		if !ok || cond.Op != token.NEQ && cond.Op != token.EQL {
			continue
		}
		x, y := cond.X, cond.Y
		if c, ok := x.(*ssa.Const); ok && c.Value == nil {
			x, y = y, x
		}
		if c, ok := y.(*ssa.Const); !ok || c.Value != nil {
			continue
		}
		px, ok := accessPath(x)
		if !ok || px != path {
			continue
		}
		nonNilSucc := 0
		if cond.Op == token.EQL {
			nonNilSucc = 1
		}
		if br.Succ != nonNilSucc {
			continue
		}
		if clear, k := clearBetween(fn, br.If, site, path); clear {
			return true, "dominating nil test of the same path, nothing in between can change it"
		} else {
			return false, fmt.Sprintf("a dominating nil test exists but %s at %s can change the value (or run a callback that does) before the use", k.String(), cfg.P.Pos(k.Pos()))
		}
	}
	// interprocedural: clear since entry, and every caller guarantees it
	if depth > 3 {
		return false, "no nil test found (caller chain too deep)"
	}
	if clear, k := clearBetween(fn, nil, site, path); !clear {
		return false, fmt.Sprintf("not tested against nil here, and %s at %s precedes the use", k.String(), cfg.P.Pos(k.Pos()))
	}
	if !strings.Contains(path, "p0") {
		return false, "no nil test found"
	}
	callers := 0
	for g := range cfg.Fns {
		for _, b := range g.Blocks {
			for _, in := range b.Instrs {
				ci, ok := in.(ssa.CallInstruction)
				if !ok || ci.Common().StaticCallee() != fn {
					continue
				}
				callers++
				// the actual for p0 must be the caller's own p0 (same object)
				if len(ci.Common().Args) == 0 {
					return false, "caller passes no receiver"
				}
				ap, ok := accessPath(ci.Common().Args[0])
				if !ok || ap != "p0" {
					return false, "a caller passes a different object: " + cfg.P.Pos(in.Pos())
				}
				// a value with the same path in the caller at the call site
				okc, why := cfg.nilGuardPath(g, in, path, depth+1)
				if !okc {
					return false, "caller " + g.String() + ": " + why
				}
			}
		}
	}
	if callers == 0 {
		return false, "no nil test found and the function has no callers inside the module"
	}
	return true, "tested against nil by every caller, nothing in between can change it"
}

// nilGuardPath is nilGuard for a path string (no SSA value at the site).
func (cfg *PanicCfg) nilGuardPath(fn *ssa.Function, site ssa.Instruction, path string, depth int) (bool, string) {
	for _, br := range dominatingBranches(site.Block()) {
		cond, ok := br.If.Cond.(*ssa.BinOp)
		if !ok || cond.Op != token.NEQ && cond.Op != token.EQL {
			continue
		}
		x, y := cond.X, cond.Y
		if c, ok := x.(*ssa.Const); ok && c.Value == nil {
			x, y = y, x
		}
		if c, ok := y.(*ssa.Const); !ok || c.Value != nil {
			continue
		}
		px, ok := accessPath(x)
		if !ok || px != path {
			continue
		}
		nonNilSucc := 0
		if cond.Op == token.EQL {
			nonNilSucc = 1
		}
		if br.Succ != nonNilSucc {
			continue
		}
		if clear, k := clearBetween(fn, br.If, site, path); clear {
			return true, ""
		} else {
			return false, fmt.Sprintf("%s at %s lies between the nil test and the call", k.String(), cfg.P.Pos(k.Pos()))
		}
	}
	return false, "no dominating nil test of " + path + " before " + cfg.P.Pos(site.Pos())
}

func (cfg *PanicCfg) recvIsCPU(fn *ssa.Function) bool {
	if len(fn.Params) == 0 {
		return false
	}
	pt, ok := fn.Params[0].Type().(*types.Pointer)
	if !ok {
		return false
	}
	n, ok := pt.Elem().(*types.Named)
	return ok && n.Obj().Name() == "CPU" && n.Obj().Pkg().Path() == load.ModulePath
}

type nnRes struct {
	ok bool
	by string
}

// nonNilValue: values that are non-nil by construction (memoised).
func (cfg *PanicCfg) nonNilValue(v ssa.Value, depth int) (bool, string) {
	if cfg.nnMemo == nil {
		cfg.nnMemo = map[ssa.Value]nnRes{}
	}
	if r, ok := cfg.nnMemo[v]; ok {
		return r.ok, r.by
	}
	ok, by := cfg.nonNilValue1(v, depth)
	if depth == 0 || ok {
		cfg.nnMemo[v] = nnRes{ok, by}
	}
	return ok, by
}

func (cfg *PanicCfg) nonNilValue1(v ssa.Value, depth int) (bool, string) {
	switch x := v.(type) {
	case *ssa.Alloc, *ssa.FieldAddr, *ssa.IndexAddr, *ssa.Global, *ssa.FreeVar, *ssa.MakeClosure, *ssa.MakeMap, *ssa.MakeSlice, *ssa.MakeInterface, *ssa.Function:
		return true, "address of a variable or fresh object"
	case *ssa.Parameter:
		fn := x.Parent()
		if cfg.Roots[fn] {
			return true, "API precondition (argument of an exported entry point)"
		}
		// every static caller passes a non-nil value
		idx := -1
		for i, p := range fn.Params {
			if p == x {
				idx = i
			}
		}
		callers := 0
		if depth > 4 {
			return false, "parameter (caller chain too deep)"
		}
		for g := range cfg.Fns {
			for _, b := range g.Blocks {
				for _, in := range b.Instrs {
					ci, ok := in.(ssa.CallInstruction)
					if !ok || ci.Common().StaticCallee() != fn || ci.Common().IsInvoke() {
						continue
					}
					callers++
					if idx >= len(ci.Common().Args) {
						return false, "arity"
					}
					if ok, _ := cfg.nonNilValue(ci.Common().Args[idx], depth+1); !ok {
						return false, "a caller may pass nil: " + cfg.P.Pos(in.Pos())
					}
				}
			}
		}
		if callers == 0 {
			// reached only through an interface (method of a boxed value) or unreachable: receiver was boxed non-nil
			return true, "method reached through an interface value built from a non-nil pointer / API precondition"
		}
		return true, "every caller passes a non-nil value"
	case *ssa.Call:
		if f := x.Call.StaticCallee(); f != nil {
			switch f.String() {
			case "context.WithCancel", "context.WithCancelCause", "context.WithTimeout", "context.WithDeadline", "context.AfterFunc":
				return true, "library result"
			}
			if load.InModule(f) && f.Blocks != nil && depth < 3 {
				all := true
				for _, b := range f.Blocks {
					for _, in := range b.Instrs {
						if r, ok := in.(*ssa.Return); ok {
							for _, res := range r.Results {
								if _, isPtr := res.Type().Underlying().(*types.Pointer); isPtr {
									if ok, _ := cfg.nonNilValue(res, depth+1); !ok {
										all = false
									}
								}
							}
						}
					}
				}
				if all {
					return true, "constructor returning a fresh object"
				}
			}
		}
	case *ssa.Extract:
		if c, ok := x.Tuple.(*ssa.Call); ok {
			if f := c.Call.StaticCallee(); f != nil && strings.HasPrefix(f.String(), "context.With") {
				return true, "library result"
			}
			// a result of a module function all of whose returns are non-nil at that position
			if f := c.Call.StaticCallee(); f != nil && load.InModule(f) && f.Blocks != nil && depth < 3 {
				all, n := true, 0
				for _, b := range f.Blocks {
					for _, in := range b.Instrs {
						if r, ok := in.(*ssa.Return); ok && x.Index < len(r.Results) {
							n++
							if ok, _ := cfg.nonNilValue(r.Results[x.Index], depth+1); !ok {
								all = false
							}
						}
					}
				}
				if all && n > 0 {
					return true, "every return of " + f.Name() + " yields a non-nil value at this position"
				}
			}
		}
	case *ssa.Slice:
		return true, "slice expression"
	case *ssa.ChangeType:
		return cfg.nonNilValue(x.X, depth)
	case *ssa.UnOp:
		// a load of a local cell (a named result, a captured variable) that is
		// only ever assigned non-nil values and whose address goes nowhere else
		if al, ok := x.X.(*ssa.Alloc); ok && x.Op == token.MUL && depth < 4 && al.Referrers() != nil {
			stores := 0
			for _, ref := range *al.Referrers() {
				switch r := ref.(type) {
				case *ssa.Store:
					if r.Addr != ssa.Value(al) {
						return false, "address of the cell is stored"
					}
					stores++
					if ok, _ := cfg.nonNilValue(r.Val, depth+1); !ok {
						return false, "the cell may be assigned nil: " + cfg.P.Pos(r.Pos())
					}
				case *ssa.UnOp, *ssa.DebugRef:
				default:
					return false, "the cell's address escapes"
				}
			}
			if stores > 0 {
				return true, "local cell only assigned non-nil values"
			}
		}
	}
	return false, fmt.Sprintf("%T", v)
}

// Sites enumerates and tries to discharge every potential panic in cfg.Fns.
func (cfg *PanicCfg) Sites() []PanicSite {
	var out []PanicSite
	add := func(fn *ssa.Function, in ssa.Instruction, kind, what string, ok bool, by, why string) {
		out = append(out, PanicSite{Fn: fn, Instr: in, Kind: kind, What: what, Discharged: ok, By: by, Why: why})
	}
	derefCheck := func(fn *ssa.Function, in ssa.Instruction, ptr ssa.Value, what string) {
		if ok, by := cfg.nonNilValue(ptr, 0); ok {
			add(fn, in, "nil-deref", what, true, "NON-NIL-BY-CONSTRUCTION: "+by, "")
			return
		}
		if ok, by := cfg.nilGuard(fn, in, ptr, 0); ok {
			add(fn, in, "nil-deref", what, true, "NIL-GUARD: "+by, "")
		} else {
			add(fn, in, "nil-deref", what, false, "", by)
		}
	}
	for fn := range cfg.Fns {
		for _, b := range fn.Blocks {
			if b.Comment == "recover" {
				continue
			}
			for _, in := range b.Instrs {
				switch x := in.(type) {
				case *ssa.FieldAddr:
					// &p.f panics if p is nil
					if _, ok := x.X.(*ssa.FieldAddr); ok {
						continue
					}
					derefCheck(fn, in, x.X, "field of "+x.X.Name())
				case *ssa.UnOp:
					if x.Op != token.MUL {
						continue
					}
					switch x.X.(type) {
					case *ssa.FieldAddr, *ssa.IndexAddr, *ssa.Alloc, *ssa.Global, *ssa.FreeVar:
						continue // the address computation is its own site
					}
					derefCheck(fn, in, x.X, "load through "+x.X.Name())
				case *ssa.Store:
					switch x.Addr.(type) {
					case *ssa.FieldAddr, *ssa.IndexAddr, *ssa.Alloc, *ssa.Global, *ssa.FreeVar:
						continue
					}
					derefCheck(fn, in, x.Addr, "store through "+x.Addr.Name())
				case *ssa.IndexAddr:
					switch t := x.X.Type().Underlying().(type) {
					case *types.Pointer:
						arr := t.Elem().Underlying().(*types.Array)
						if k, ok := constInt(x.Index); ok {
							add(fn, in, "index", "array element", k >= 0 && k < arr.Len(), "ARRAY-CONST-INDEX", "constant index out of range")
						} else if ib, ok := x.Index.Type().Underlying().(*types.Basic); ok && ib.Info()&types.IsUnsigned != 0 && cfg.P.Sizes.Sizeof(x.Index.Type()) <= 4 && int64(1)<<(8*uint(cfg.P.Sizes.Sizeof(x.Index.Type()))) <= arr.Len() {
							add(fn, in, "index", "array element", true, "ARRAY-INDEX-BY-TYPE: the index type cannot exceed the array length", "")
						} else if maskedBelow(x.Index, arr.Len()) {
							add(fn, in, "index", "array element", true, "MASKED-INDEX: the index is masked (x & k, k < len) below the array length", "")
						} else {
							add(fn, in, "index", "array element", false, "", "array indexed by a value that may exceed its length")
						}
						if _, isAlloc := x.X.(*ssa.Alloc); !isAlloc {
							if _, isFA := x.X.(*ssa.FieldAddr); !isFA {
								derefCheck(fn, in, x.X, "array pointer "+x.X.Name())
							}
						}
					case *types.Slice:
						if ok, by := lenGuard(fn, in, x.X, x.Index); ok {
							add(fn, in, "index", "slice element", true, "R-GUARD(len): "+by, "")
						} else if ok2, by2 := cfg.overlayIndex(fn, x); ok2 {
							add(fn, in, "index", "slice element", true, by2, "")
						} else {
							add(fn, in, "index", "slice element", false, "", by+"; "+by2)
						}
					}
				case *ssa.Index:
					if _, isStr := x.X.Type().Underlying().(*types.Basic); isStr {
						add(fn, in, "index", "string byte", false, "", "string indexing")
					} else if arr, ok := x.X.Type().Underlying().(*types.Array); ok {
						k, okc := constInt(x.Index)
						switch {
						case okc && k >= 0 && k < arr.Len():
							add(fn, in, "index", "array value element", true, "ARRAY-CONST-INDEX", "")
						case maskedBelow(x.Index, arr.Len()):
							add(fn, in, "index", "array value element", true, "MASKED-INDEX: the index is masked (x & k, k < len) below the array length", "")
						default:
							add(fn, in, "index", "array value element", false, "", "non-constant index into array value")
						}
					}
				case *ssa.Slice:
					if pt, ok := x.X.Type().Underlying().(*types.Pointer); ok {
						arr := pt.Elem().Underlying().(*types.Array)
						okb := true
						for _, bnd := range []ssa.Value{x.Low, x.High, x.Max} {
							if bnd == nil {
								continue
							}
							if k, ok := constInt(bnd); !ok || k < 0 || k > arr.Len() {
								okb = false
							}
						}
						add(fn, in, "slice", "slice of array", okb, "ARRAY-CONST-BOUNDS", "non-constant or out-of-range bounds")
					} else if x.Low == nil && x.High == nil && x.Max == nil {
						add(fn, in, "slice", "full slice", true, "FULL-SLICE", "")
					} else {
						add(fn, in, "slice", "slice expression", false, "", "slice expression with bounds that are not proved to lie within the operand")
					}
				case *ssa.Lookup:
					if _, isMap := x.X.Type().Underlying().(*types.Map); !isMap {
						add(fn, in, "index", "string byte", false, "", "string indexing")
					}
				case *ssa.MapUpdate:
					if ok, by := cfg.nonNilValue(x.Map, 0); ok {
						add(fn, in, "map-update", "map insert", true, "NON-NIL-MAP: "+by, "")
					} else {
						add(fn, in, "map-update", "map insert", false, "", "insert into a map that may be nil")
					}
				case *ssa.TypeAssert:
					if !x.CommaOk {
						add(fn, in, "type-assert", x.AssertedType.String(), false, "", "type assertion without comma-ok")
					}
				case *ssa.BinOp:
					if x.Op == token.QUO || x.Op == token.REM {
						if b, ok := x.X.Type().Underlying().(*types.Basic); ok && b.Info()&types.IsInteger != 0 {
							k, okc := constInt(x.Y)
							add(fn, in, "divide", "integer division", okc && k != 0, "CONST-DIVISOR", "divisor may be zero")
						}
					}
					if x.Op == token.SHL || x.Op == token.SHR {
						if b, ok := x.Y.Type().Underlying().(*types.Basic); ok && b.Info()&types.IsUnsigned == 0 {
							k, okc := constInt(x.Y)
							add(fn, in, "divide", "shift count", okc && k >= 0, "CONST-SHIFT", "signed shift count may be negative")
						}
					}
				case *ssa.Panic:
					add(fn, in, "explicit-panic", "panic()", false, "", "explicit panic")
				case *ssa.MakeSlice:
					if _, ok := constInt(x.Len); !ok {
						add(fn, in, "make", "make([]T, n)", false, "", "make with a length that may be negative")
					}
				case *ssa.SliceToArrayPointer:
					add(fn, in, "slice", "slice to array pointer", false, "", "conversion may panic")
				case *ssa.Send:
					add(fn, in, "call-value", "channel send", false, "", "send may panic on a closed channel")
				case ssa.CallInstruction:
					cc := x.Common()
					switch {
					case cc.IsInvoke():
						if ok, by := cfg.nonNilValue(cc.Value, 0); ok {
							add(fn, in, "nil-invoke", "method call on "+cc.Value.Type().String(), true, "NON-NIL-BY-CONSTRUCTION: "+by, "")
						} else if ok, by := cfg.nilGuard(fn, in, cc.Value, 0); ok {
							add(fn, in, "nil-invoke", "method call on "+cc.Value.Type().String(), true, "NIL-GUARD: "+by, "")
						} else if ok2, by2 := cfg.libraryValue(fn, cc.Value); ok2 {
							add(fn, in, "nil-invoke", "method call on "+cc.Value.Type().String(), true, by2, "")
						} else if ok3, by3 := cfg.overlayBase(fn, cc.Value); ok3 {
							add(fn, in, "nil-invoke", "method call on "+cc.Value.Type().String(), true, by3, "")
						} else {
							add(fn, in, "nil-invoke", "method call on "+cc.Value.Type().String(), false, "", by)
						}
					case isBuiltinCall(cc):
						if b := cc.Value.(*ssa.Builtin); b.Name() == "close" || b.Name() == "panic" {
							add(fn, in, "call-value", b.Name(), false, "", "builtin may panic")
						}
					case cc.StaticCallee() == nil:
						if ResolveFuncValue != nil {
							if fs, ok := ResolveFuncValue(cc.Value); ok && len(fs) > 0 {
								add(fn, in, "call-value", "call of a function value", true, "CONST-FUNC-TABLE: every entry of the initialisation-only table is a function", "")
								continue
							}
						}
						if ok, by := cfg.nonNilValue(cc.Value, 0); ok {
							add(fn, in, "call-value", "call of a function value", true, "NON-NIL-BY-CONSTRUCTION: "+by, "")
						} else {
							add(fn, in, "call-value", "call of a function value", false, "", "function value may be nil")
						}
					}
				}
			}
		}
	}
	return out
}

// libraryValue: context values handed in by the caller or derived by the library.
func (cfg *PanicCfg) libraryValue(fn *ssa.Function, v ssa.Value) (bool, string) {
	n, ok := v.Type().(*types.Named)
	if !ok || n.Obj().Pkg() == nil || n.Obj().Pkg().Path() != "context" {
		return false, ""
	}
	return true, "CONTEXT-VALUE: the caller's context (API precondition ctx != nil) or one derived from it by package context"
}

// overlayBase: `im0.base.Get(...)` - the overlay's base memory.  Discharged
// when the field is written only by the constructor, from a parameter, and
// every call of the constructor passes a load of CPU.Memory (non-nil by
// precondition).
func (cfg *PanicCfg) overlayBase(fn *ssa.Function, v ssa.Value) (bool, string) {
	u, ok := v.(*ssa.UnOp)
	if !ok || u.Op != token.MUL {
		return false, ""
	}
	fa, ok := u.X.(*ssa.FieldAddr)
	if !ok {
		return false, ""
	}
	recv, ok := fa.X.(*ssa.Parameter)
	if !ok || recv != fn.Params[0] {
		return false, ""
	}
	st := fa.X.Type().Underlying().(*types.Pointer).Elem()
	stu := st.Underlying().(*types.Struct)
	fieldName := stu.Field(fa.Field).Name()
	// all writers of this field in the module
	var ctor *ssa.Function
	var stored ssa.Value
	for g := range cfg.Fns {
		for _, b := range g.Blocks {
			for _, in := range b.Instrs {
				s, ok := in.(*ssa.Store)
				if !ok {
					continue
				}
				f2, ok := s.Addr.(*ssa.FieldAddr)
				if !ok {
					continue
				}
				if !types.Identical(f2.X.Type().Underlying().(*types.Pointer).Elem(), st) || f2.Field != fa.Field {
					continue
				}
				if ctor != nil {
					return false, "field " + fieldName + " has more than one writer"
				}
				ctor, stored = g, s.Val
			}
		}
	}
	if ctor == nil {
		return false, "field " + fieldName + " is never written"
	}
	par, ok := stored.(*ssa.Parameter)
	if !ok {
		return false, "the constructor does not store a parameter into " + fieldName
	}
	idx := -1
	for i, p := range ctor.Params {
		if p == par {
			idx = i
		}
	}
	n := 0
	for g := range cfg.Fns {
		for _, b := range g.Blocks {
			for _, in := range b.Instrs {
				ci, ok := in.(ssa.CallInstruction)
				if !ok || ci.Common().StaticCallee() != ctor {
					continue
				}
				n++
				arg := ci.Common().Args[idx]
				p, ok := accessPath(arg)
				nonnil := false
				for suf := range cfg.NonNilFieldOfRecv {
					if ok && p == "*(p0"+suf+")" && cfg.recvIsCPU(g) {
						nonnil = true
					}
				}
				if !nonnil {
					return false, "a constructor call passes a base that is not CPU.Memory: " + cfg.P.Pos(in.Pos())
				}
			}
		}
	}
	if n == 0 {
		return false, "constructor never called"
	}
	return true, "OVERLAY-BASE: field " + fieldName + " is written only by " + ctor.Name() + " from its parameter, and every call passes CPU.Memory (non-nil by precondition)"
}

// overlayIndex is the named exception of DESIGN.md C12: data[addr-start] in
// the overlay's Get, guarded by !(addr < start || addr > end), where end is
// written only as start + uint16(len(data)-1) by the constructor, which is
// only called under len(data) > 0.
func (cfg *PanicCfg) overlayIndex(fn *ssa.Function, x *ssa.IndexAddr) (bool, string) {
	sub, ok := x.Index.(*ssa.BinOp)
	if !ok || sub.Op != token.SUB {
		return false, "index is not of the form addr - start"
	}
	addr, ok := sub.X.(*ssa.Parameter)
	if !ok {
		return false, "index is not of the form addr - start"
	}
	startPath, ok := accessPath(sub.Y)
	if !ok || !strings.HasPrefix(startPath, "*(p0.") {
		return false, "subtrahend is not a field of the receiver"
	}
	dataPath, ok := accessPath(x.X)
	if !ok || !strings.HasPrefix(dataPath, "*(p0.") {
		return false, "the slice is not a field of the receiver"
	}
	startField := strings.TrimSuffix(strings.TrimPrefix(startPath, "*(p0."), ")")
	dataField := strings.TrimSuffix(strings.TrimPrefix(dataPath, "*(p0."), ")")
	// guards: reaching the site implies !(addr < start) and !(addr > end)
	var lowOK bool
	endField := ""
	for _, br := range dominatingBranches(x.Block()) {
		c, ok := br.If.Cond.(*ssa.BinOp)
		if !ok {
			continue
		}
		cx, cy, op := c.X, c.Y, c.Op
		truth := br.Succ == 0
		if cx != ssa.Value(addr) {
			continue
		}
		py, ok := accessPath(cy)
		if !ok {
			continue
		}
		switch {
		case py == startPath && (op == token.LSS && !truth || op == token.GEQ && truth):
			lowOK = true
		case strings.HasPrefix(py, "*(p0.") && (op == token.GTR && !truth || op == token.LEQ && truth):
			endField = strings.TrimSuffix(strings.TrimPrefix(py, "*(p0."), ")")
		}
	}
	if !lowOK || endField == "" {
		return false, "the access is not dominated by !(addr < start) && !(addr > end)"
	}
	// writers of start / end / data: one constructor, with end = start + uint16(len(data)-1)
	recvT := fn.Params[0].Type().Underlying().(*types.Pointer).Elem()
	stores := map[string][]*ssa.Store{}
	var ctor *ssa.Function
	for g := range cfg.Fns {
		for _, b := range g.Blocks {
			for _, in := range b.Instrs {
				s, ok := in.(*ssa.Store)
				if !ok {
					continue
				}
				fa, ok := s.Addr.(*ssa.FieldAddr)
				if !ok || !types.Identical(fa.X.Type().Underlying().(*types.Pointer).Elem(), recvT) {
					continue
				}
				name := recvT.Underlying().(*types.Struct).Field(fa.Field).Name()
				stores[name] = append(stores[name], s)
				if ctor != nil && ctor != g {
					return false, "fields of the overlay are written by more than one function"
				}
				ctor = g
			}
		}
	}
	for _, f := range []string{startField, endField, dataField} {
		if len(stores[f]) != 1 {
			return false, "field " + f + " of the overlay does not have exactly one writer"
		}
	}
	startV, dataV, endV := stores[startField][0].Val, stores[dataField][0].Val, stores[endField][0].Val
	add, ok := endV.(*ssa.BinOp)
	if !ok || add.Op != token.ADD {
		return false, "end is not computed as start + uint16(len(data)-1)"
	}
	a, b := add.X, add.Y
	if a != startV {
		a, b = b, a
	}
	if a != startV {
		return false, "end is not computed from start"
	}
	conv, ok := b.(*ssa.Convert)
	if !ok {
		return false, "end is not computed as start + uint16(len(data)-1)"
	}
	minus, ok := conv.X.(*ssa.BinOp)
	if !ok || minus.Op != token.SUB {
		return false, "end is not computed as start + uint16(len(data)-1)"
	}
	if k, okc := constInt(minus.Y); !okc || k != 1 {
		return false, "end is not computed as start + uint16(len(data)-1)"
	}
	if l, okl := lenOf(minus.X); !okl || l != dataV {
		return false, "end is not computed from len of the stored data"
	}
	// every call of the constructor is under len(arg) > 0
	dataPar, ok := dataV.(*ssa.Parameter)
	if !ok {
		return false, "data is not a constructor parameter"
	}
	di := -1
	for i, p := range ctor.Params {
		if p == dataPar {
			di = i
		}
	}
	calls := 0
	for g := range cfg.Fns {
		for _, bb := range g.Blocks {
			for _, in := range bb.Instrs {
				ci, ok := in.(ssa.CallInstruction)
				if !ok || ci.Common().StaticCallee() != ctor {
					continue
				}
				calls++
				arg := ci.Common().Args[di]
				if ok, why := lenGuard(g, in, arg, zeroIndex(g)); !ok {
					return false, "constructor call at " + cfg.P.Pos(in.Pos()) + " is not under len(data) > 0: " + why
				}
			}
		}
	}
	if calls == 0 {
		return false, "constructor never called"
	}
	return true, "OVERLAY-INDEX: index addr-start under !(addr<start || addr>end), end = start+uint16(len(data)-1) written only by " + ctor.Name() + ", which is only called under len(data) > 0 (if start+len-1 wraps the guard is unsatisfiable; otherwise addr-start <= len-1)"
}

// maskedBelow: v is (x & k) with constant k < n (through widenings).
func maskedBelow(v ssa.Value, n int64) bool {
	v = stripWiden(v)
	if c, ok := v.(*ssa.Convert); ok {
		v = c.X
	}
	b, ok := v.(*ssa.BinOp)
	if !ok {
		return false
	}
	switch b.Op {
	case token.AND:
		if k, ok := constInt(b.Y); ok && k >= 0 && k < n {
			return true
		}
		if k, ok := constInt(b.X); ok && k >= 0 && k < n {
			return true
		}
	case token.REM:
		if k, ok := constInt(b.Y); ok && k > 0 && k <= n && unsignedNonNeg(b.X) {
			return true
		}
	}
	return false
}

func zeroIndex(fn *ssa.Function) ssa.Value {
	return ssa.NewConst(constant.MakeInt64(0), types.Typ[types.Int])
}
