// Package rules holds the generic shape rules of DESIGN.md section 4.
package rules

import (
	"fmt"
	"sort"

	"golang.org/x/tools/go/ssa"

	"verif/internal/load"
)

// HasBackEdge reports whether the CFG of fn has a cycle among blocks
// reachable from the entry, and returns the position of one back edge.
func HasBackEdge(fn *ssa.Function) (bool, *ssa.BasicBlock) {
	if len(fn.Blocks) == 0 {
		return false, nil
	}
	const (
		white = 0
		grey  = 1
		black = 2
	)
	color := make([]int, len(fn.Blocks))
	type item struct {
		b *ssa.BasicBlock
		i int
	}
	stack := []item{{fn.Blocks[0], 0}}
	color[0] = grey
	for len(stack) > 0 {
		top := &stack[len(stack)-1]
		if top.i < len(top.b.Succs) {
			s := top.b.Succs[top.i]
			top.i++
			switch color[s.Index] {
			case grey:
				return true, top.b
			case white:
				color[s.Index] = grey
				stack = append(stack, item{s, 0})
			}
			continue
		}
		color[top.b.Index] = black
		stack = stack[:len(stack)-1]
	}
	return false, nil
}

// DAGResult is the outcome of R-DAG(root).
type DAGResult struct {
	Funcs     []*ssa.Function // module functions reachable by static calls (and methods of module types boxed into interfaces on the way)
	Invokes   map[string]int  // interface method -> number of call sites
	Externals map[string]int  // external static callees -> call sites
	Dynamic   []string        // calls through function values (positions)
	GoDefer   []string        // go / defer statements (positions)
	Loops     []string        // functions with a CFG back edge
	LoopFns   []*ssa.Function // the same, as functions (parallel to Loops)
	Cycles    []string        // call-graph cycles
}

// DAG computes the static call graph below root inside the module and checks
// that it is acyclic and that every function in it is loop-free.
// ResolveFuncValue, when set, resolves a call through a function value to the
// set of functions it can denote (e.g. the entries of a constant table).
var ResolveFuncValue func(v ssa.Value) ([]*ssa.Function, bool)

// ResolveCallSite, when set, resolves a call through a function value by the
// call site: the functions every summary that executed the site called there
// (false when some execution could not resolve it, or none reached it).
var ResolveCallSite func(site ssa.CallInstruction) ([]*ssa.Function, bool)

func DAG(p *load.Program, root *ssa.Function) *DAGResult {
	res := &DAGResult{Invokes: map[string]int{}, Externals: map[string]int{}}
	state := map[*ssa.Function]int{} // 1 = on stack, 2 = done
	var stack []*ssa.Function
	var visit func(fn *ssa.Function)
	visit = func(fn *ssa.Function) {
		switch state[fn] {
		case 1:
			cyc := ""
			for i := len(stack) - 1; i >= 0; i-- {
				cyc = stack[i].String() + " -> " + cyc
				if stack[i] == fn {
					break
				}
			}
			res.Cycles = append(res.Cycles, cyc+fn.String())
			return
		case 2:
			return
		}
		state[fn] = 1
		stack = append(stack, fn)
		res.Funcs = append(res.Funcs, fn)
		if back, b := HasBackEdge(fn); back {
			pos := "-"
			if n := len(b.Instrs); n > 0 {
				pos = p.Pos(b.Instrs[n-1].Pos())
			}
			res.Loops = append(res.Loops, fmt.Sprintf("%s (back edge at %s)", fn, pos))
			res.LoopFns = append(res.LoopFns, fn)
		}
		for _, b := range fn.Blocks {
			for _, in := range b.Instrs {
				switch x := in.(type) {
				case *ssa.Go:
					res.GoDefer = append(res.GoDefer, "go at "+p.Pos(x.Pos()))
				case *ssa.Defer:
					res.GoDefer = append(res.GoDefer, "defer at "+p.Pos(x.Pos()))
				case *ssa.MakeInterface:
					// methods of a module type boxed here become reachable through invokes
					ms := p.Prog.MethodSets.MethodSet(x.X.Type())
					for i := 0; i < ms.Len(); i++ {
						if m := p.Prog.MethodValue(ms.At(i)); m != nil && load.InModule(m) && m.Blocks != nil {
							visit(m)
						}
					}
				case *ssa.MakeClosure:
					if cf, ok := x.Fn.(*ssa.Function); ok {
						visit(cf)
					}
				case ssa.CallInstruction:
					cc := x.Common()
					if cc.IsInvoke() {
						res.Invokes[cc.Value.Type().String()+"."+cc.Method.Name()]++
						continue
					}
					if _, isB := cc.Value.(*ssa.Builtin); isB {
						continue
					}
					cal := cc.StaticCallee()
					if cal == nil {
						if ResolveFuncValue != nil {
							if fs, ok := ResolveFuncValue(cc.Value); ok {
								for _, f := range fs {
									if load.InModule(f) && f.Blocks != nil {
										visit(f)
									}
								}
								continue
							}
						}
						if ResolveCallSite != nil {
							if fs, ok := ResolveCallSite(x); ok {
								for _, f := range fs {
									if load.InModule(f) && f.Blocks != nil {
										visit(f)
									}
								}
								continue
							}
						}
						res.Dynamic = append(res.Dynamic, p.Pos(x.Pos()))
						continue
					}
					if load.InModule(cal) && cal.Blocks != nil {
						visit(cal)
					} else {
						res.Externals[cal.String()]++
					}
				}
			}
		}
		stack = stack[:len(stack)-1]
		state[fn] = 2
	}
	visit(root)
	sort.Strings(res.Loops)
	return res
}
