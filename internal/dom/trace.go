package dom

import (
	"fmt"
	"sort"
	"strings"

	"verif/internal/bdd"
)

// Event is one guarded call on a device interface (memory, port space,
// RETN/RETI handler, logger) made during the summarised code.
type Event struct {
	Guard bdd.Node
	Kind  string // MemGet MemSet IOIn IOOut RETN RETI Log Exec ...
	Dev   string // identity of the receiver, e.g. "Init(Memory)"
	Args  []BV
	Res   BV // result of a read (an atom vector, or a specialisation constant)
	Pos   string
}

// Trace accumulates events in program order and hands out the atoms that
// stand for the values devices return.
type Trace struct {
	C      *Ctx
	Events []Event
	// Fixed, when set, may pin the result of a read to a constant: this is
	// how decode specialisation binds instruction bytes (DESIGN 2.2).
	Fixed func(kind, dev string, args []BV) (BV, bool)
	// Care restricts the canonical comparison forms to the states satisfying
	// it (zero value = everywhere).
	Care bdd.Node
	care bool
}

// SetCare restricts MultisetChar/SequenceChar to the given care set.
func (t *Trace) SetCare(c bdd.Node) { t.Care, t.care = c, true }

func NewTrace(c *Ctx) *Trace { return &Trace{C: c} }

// key of a read: kind, device and the argument functions restricted to the
// guard (generalised cofactor: depends only on the arguments' values where the
// read actually happens).
func (t *Trace) readKey(guard bdd.Node, kind, dev string, args []BV) (string, []BV) {
	var sb strings.Builder
	sb.WriteString(kind)
	sb.WriteByte('|')
	sb.WriteString(dev)
	cargs := make([]BV, len(args))
	for i, a := range args {
		ca := make(BV, len(a))
		for j, b := range a {
			ca[j] = t.C.M.Constrain(b, guard)
		}
		cargs[i] = ca
		sb.WriteByte('|')
		sb.WriteString(ca.Key())
	}
	return sb.String(), cargs
}

// Emit appends an event.  If resWidth > 0 the event is a read and the value it
// returns is produced: a specialisation constant, or the atom identified by
// (kind, device, arguments, occurrence index among possibly-coexisting reads
// with the same key).
func (t *Trace) Emit(guard bdd.Node, kind, dev string, args []BV, resWidth int, pos string) BV {
	if guard == bdd.False {
		if resWidth > 0 {
			return t.C.Const(resWidth, 0)
		}
		return nil
	}
	e := Event{Guard: guard, Kind: kind, Dev: dev, Args: args, Pos: pos}
	if resWidth > 0 {
		if t.Fixed != nil {
			if v, ok := t.Fixed(kind, dev, args); ok {
				e.Res = v
			}
		}
		if e.Res == nil {
			key, cargs := t.readKey(guard, kind, dev, args)
			occ := 0
			for _, p := range t.Events {
				if p.Kind != kind || p.Dev != dev || len(p.Res) == 0 {
					continue
				}
				pk, _ := t.readKey(p.Guard, p.Kind, p.Dev, p.Args)
				if pk == key && !t.C.M.Disjoint(p.Guard, guard) {
					occ++
				}
			}
			e.Res = t.C.readAtom(key, kind, cargs, occ, resWidth)
		}
	}
	t.Events = append(t.Events, e)
	return e.Res
}

func (c *Ctx) readAtom(key, kind string, args []BV, occ, w int) BV {
	if c.readNames == nil {
		c.readNames = map[string]string{}
	}
	tab := c.readNames
	full := fmt.Sprintf("%s#%d", key, occ)
	name, ok := tab[full]
	if !ok {
		var ds []string
		for _, a := range args {
			ds = append(ds, c.Describe(a))
		}
		base := fmt.Sprintf("%s(%s)", kind, strings.Join(ds, ","))
		if occ > 0 {
			base += fmt.Sprintf("#%d", occ)
		}
		name = base
		for n := 2; c.HasAtom(name); n++ {
			name = fmt.Sprintf("%s~%d", base, n)
		}
		tab[full] = name
	}
	return c.Atom(name, w)
}

// ---------------------------------------------------------------------------
// Canonical comparison of event lists.

func probeWidthKey(e *Event) string {
	var sb strings.Builder
	sb.WriteString(e.Kind)
	sb.WriteByte('|')
	sb.WriteString(e.Dev)
	for _, a := range e.Args {
		fmt.Fprintf(&sb, "|%d", len(a))
	}
	return sb.String()
}

const countWidth = 6

func (t *Trace) probes(e *Event) []BV {
	ps := make([]BV, len(e.Args))
	for i, a := range e.Args {
		ps[i] = t.C.Atom(fmt.Sprintf("probe.arg%d.w%d", i, len(a)), len(a))
	}
	return ps
}

func (t *Trace) matches(e *Event) bdd.Node {
	ind := e.Guard
	if t.care {
		ind = t.C.M.And(ind, t.Care)
	}
	ps := t.probes(e)
	for i, a := range e.Args {
		ind = t.C.M.And(ind, t.C.Eq(a, ps[i]))
	}
	return ind
}

// MultisetChar is the canonical form of the event list viewed as a multiset:
// for every (kind, device, argument shape) the number of events whose guard
// holds and whose arguments equal fresh probe variables, as a function of the
// state and the probes.  Two traces have equal MultisetChar iff in every
// state they make the same calls with the same arguments the same number of
// times (in any order).  keep selects the events to include.
func (t *Trace) MultisetChar(keep func(*Event) bool) map[string]BV {
	out := map[string]BV{}
	for i := range t.Events {
		e := &t.Events[i]
		if keep != nil && !keep(e) {
			continue
		}
		k := probeWidthKey(e)
		cur, ok := out[k]
		if !ok {
			cur = t.C.Const(countWidth, 0)
		}
		one := t.C.Const(countWidth, 0)
		one[0] = t.matches(e)
		out[k] = t.C.Add(cur, one)
	}
	for k, v := range out {
		if z, ok := v.IsConst(); ok && z == 0 {
			delete(out, k)
		}
	}
	return out
}

// SequenceChar is the canonical form of the event list viewed as a sequence:
// the set of (position along the executed path, kind, device, arguments).
func (t *Trace) SequenceChar(keep func(*Event) bool) map[string]bdd.Node {
	out := map[string]bdd.Node{}
	pos := t.C.Const(countWidth, 0)
	probe := t.C.Atom("probe.pos", countWidth)
	for i := range t.Events {
		e := &t.Events[i]
		if keep != nil && !keep(e) {
			continue
		}
		k := probeWidthKey(e)
		ind := t.C.M.And(t.matches(e), t.C.Eq(pos, probe))
		out[k] = t.C.M.Or(out[k], ind)
		one := t.C.Const(countWidth, 0)
		one[0] = e.Guard
		if t.care {
			one[0] = t.C.M.And(e.Guard, t.Care)
		}
		pos = t.C.Add(pos, one)
	}
	for k, v := range out {
		if v == bdd.False {
			delete(out, k)
		}
	}
	return out
}

// DiffMultiset compares two canonical multisets and returns human-readable
// differences with a concrete witness state for each.
func (c *Ctx) DiffMultiset(impl, ref map[string]BV) []string {
	keys := map[string]bool{}
	for k := range impl {
		keys[k] = true
	}
	for k := range ref {
		keys[k] = true
	}
	var ks []string
	for k := range keys {
		ks = append(ks, k)
	}
	sort.Strings(ks)
	var out []string
	for _, k := range ks {
		a, aok := impl[k]
		b, bok := ref[k]
		if !aok {
			a = c.Const(countWidth, 0)
		}
		if !bok {
			b = c.Const(countWidth, 0)
		}
		if a.Equal(b) {
			continue
		}
		ne := c.M.Not(c.Eq(a, b))
		w, _ := c.Witness(ne)
		parts := strings.Split(k, "|")
		var call []string
		for i, ws := range parts[2:] {
			var wd int
			fmt.Sscan(ws, &wd)
			call = append(call, fmt.Sprintf("%#x", c.EvalBV(c.Atom(fmt.Sprintf("probe.arg%d.w%d", i, wd), wd), w)))
		}
		var st []string
		for _, s := range c.DescribeAssignment(w) {
			if !strings.HasPrefix(s, "probe.") {
				st = append(st, s)
			}
		}
		out = append(out, fmt.Sprintf("%s on %s: the call %s(%s) is made %d time(s) by the implementation and %d time(s) by the reference in the state {%s}",
			parts[0], parts[1], parts[0], strings.Join(call, ", "), c.EvalBV(a, w), c.EvalBV(b, w), strings.Join(st, " ")))
	}
	return out
}

// DiffSequence is DiffMultiset for SequenceChar forms.
func (c *Ctx) DiffSequence(impl, ref map[string]bdd.Node) []string {
	keys := map[string]bool{}
	for k := range impl {
		keys[k] = true
	}
	for k := range ref {
		keys[k] = true
	}
	var ks []string
	for k := range keys {
		ks = append(ks, k)
	}
	sort.Strings(ks)
	var out []string
	for _, k := range ks {
		a, b := impl[k], ref[k]
		if a == b {
			continue
		}
		w, _ := c.Witness(c.M.Xor(a, b))
		parts := strings.SplitN(k, "|", 3)
		out = append(out, fmt.Sprintf("%s on %s: access sequences differ (first side makes the probed access: %v, second side: %v) in state {%s}",
			parts[0], parts[1], c.M.Eval(a, w), c.M.Eval(b, w), strings.Join(c.DescribeAssignment(w), " ")))
	}
	return out
}

// DescribeGuard renders a guard for humans (up to a few cubes).
func (c *Ctx) DescribeGuard(g bdd.Node) string {
	switch g {
	case bdd.True:
		return "always"
	case bdd.False:
		return "never"
	}
	var cubes []string
	var walk func(n bdd.Node, lits []string) bool
	walk = func(n bdd.Node, lits []string) bool {
		if n == bdd.False {
			return true
		}
		if n == bdd.True {
			cubes = append(cubes, strings.Join(lits, "&"))
			return len(cubes) <= 4
		}
		name := c.M.VarName(c.M.Level(n))
		if !walk(c.M.Lo(n), append(lits[:len(lits):len(lits)], "!"+name)) {
			return false
		}
		return walk(c.M.Hi(n), append(lits[:len(lits):len(lits)], name))
	}
	if walk(g, nil) {
		return strings.Join(cubes, " | ")
	}
	return "when f(" + strings.Join(c.AtomsIn(g), ",") + ")"
}

// DescribeEvent renders an event for reports.
func (c *Ctx) DescribeEvent(e *Event) string {
	var as []string
	for _, a := range e.Args {
		as = append(as, c.Describe(a))
	}
	s := fmt.Sprintf("%s(%s)", e.Kind, strings.Join(as, ", "))
	if e.Guard != bdd.True {
		s += " [" + c.DescribeGuard(e.Guard) + "]"
	}
	return s
}
