// Package dom is the canonical value domain of the summary engine
// (DESIGN.md section 2.1): bit vectors whose bits are canonical boolean
// functions (package bdd) of named atom bits.  Every transfer function here is
// exact, so two values are equal as Go values iff they denote the same
// function of the atoms.
package dom

import (
	"fmt"
	"sort"
	"strings"

	"verif/internal/bdd"
)

const maxAtoms = 1 << 12

// Atom is a named symbolic input of Width bits.
type Atom struct {
	ID    int
	Name  string
	Width int
}

// Ctx owns the BDD manager and the atom registry.
type Ctx struct {
	M      *bdd.Manager
	atoms  []*Atom
	byName map[string]*Atom

	readNames map[string]string
}

func NewCtx() *Ctx {
	return &Ctx{M: bdd.New(), byName: map[string]*Atom{}}
}

// BV is a little-endian vector of bit functions.
type BV []bdd.Node

func (c *Ctx) level(a *Atom, bit int) int32 { return int32(bit*maxAtoms + a.ID) }

// AtomOfLevel maps a BDD level back to (atom, bit).
func (c *Ctx) AtomOfLevel(l int32) (*Atom, int) {
	return c.atoms[int(l)%maxAtoms], int(l) / maxAtoms
}

// Atom returns the vector of the named atom, creating it on first use.
func (c *Ctx) Atom(name string, w int) BV {
	a, ok := c.byName[name]
	if !ok {
		if len(c.atoms) >= maxAtoms {
			panic("dom: too many atoms")
		}
		a = &Atom{ID: len(c.atoms), Name: name, Width: w}
		c.atoms = append(c.atoms, a)
		c.byName[name] = a
	}
	if a.Width != w {
		panic(fmt.Sprintf("dom: atom %s used with widths %d and %d", name, a.Width, w))
	}
	v := make(BV, w)
	for i := range v {
		v[i] = c.M.Var(c.level(a, i), fmt.Sprintf("%s[%d]", name, i))
	}
	return v
}

// HasAtom reports whether the atom was ever created.
func (c *Ctx) HasAtom(name string) bool { _, ok := c.byName[name]; return ok }

// NumAtoms is the number of atoms created so far.
func (c *Ctx) NumAtoms() int { return len(c.atoms) }

func (c *Ctx) Const(w int, v uint64) BV {
	r := make(BV, w)
	for i := range r {
		if i < 64 && v>>uint(i)&1 == 1 {
			r[i] = bdd.True
		}
	}
	return r
}

func (c *Ctx) Bool(b bdd.Node) BV { return BV{b} }

// IsConst reports the constant value of v if every bit is a terminal.
func (v BV) IsConst() (uint64, bool) {
	var x uint64
	for i, b := range v {
		switch b {
		case bdd.True:
			if i < 64 {
				x |= 1 << uint(i)
			}
		case bdd.False:
		default:
			return 0, false
		}
	}
	return x, true
}

func (v BV) Equal(w BV) bool {
	if len(v) != len(w) {
		return false
	}
	for i := range v {
		if v[i] != w[i] {
			return false
		}
	}
	return true
}

// Key is a string usable as a map key identifying the function vector.
func (v BV) Key() string {
	var sb strings.Builder
	for i, b := range v {
		if i > 0 {
			sb.WriteByte(',')
		}
		fmt.Fprintf(&sb, "%d", int(b))
	}
	return sb.String()
}

func (c *Ctx) bin(a, b BV, f func(x, y bdd.Node) bdd.Node) BV {
	if len(a) != len(b) {
		panic(fmt.Sprintf("dom: width mismatch %d vs %d", len(a), len(b)))
	}
	r := make(BV, len(a))
	for i := range a {
		r[i] = f(a[i], b[i])
	}
	return r
}

func (c *Ctx) And(a, b BV) BV { return c.bin(a, b, c.M.And) }
func (c *Ctx) Or(a, b BV) BV  { return c.bin(a, b, c.M.Or) }
func (c *Ctx) Xor(a, b BV) BV { return c.bin(a, b, c.M.Xor) }
func (c *Ctx) AndNot(a, b BV) BV {
	return c.bin(a, b, func(x, y bdd.Node) bdd.Node { return c.M.And(x, c.M.Not(y)) })
}
func (c *Ctx) Not(a BV) BV {
	r := make(BV, len(a))
	for i := range a {
		r[i] = c.M.Not(a[i])
	}
	return r
}

// Shl shifts left by a constant, keeping the width.
func (c *Ctx) Shl(a BV, k int) BV {
	r := make(BV, len(a))
	for i := range a {
		if i-k >= 0 && i-k < len(a) {
			r[i] = a[i-k]
		}
	}
	return r
}

// Lshr is the logical shift right by a constant.
func (c *Ctx) Lshr(a BV, k int) BV {
	r := make(BV, len(a))
	for i := range a {
		if i+k < len(a) {
			r[i] = a[i+k]
		}
	}
	return r
}

// Ashr is the arithmetic shift right by a constant.
func (c *Ctx) Ashr(a BV, k int) BV {
	r := make(BV, len(a))
	for i := range a {
		if i+k < len(a) {
			r[i] = a[i+k]
		} else {
			r[i] = a[len(a)-1]
		}
	}
	return r
}

// ShiftV shifts a by the unsigned amount s (Go semantics: amounts >= width
// give 0, or the sign fill for an arithmetic right shift).
func (c *Ctx) ShiftV(a BV, s BV, left, arith bool) BV {
	if k, ok := s.IsConst(); ok {
		kk := int(k)
		if k > uint64(len(a)) {
			kk = len(a)
		}
		switch {
		case left:
			return c.Shl(a, kk)
		case arith:
			return c.Ashr(a, kk)
		default:
			return c.Lshr(a, kk)
		}
	}
	r := a
	for i := 0; i < len(s); i++ {
		var sh BV
		amt := len(a)
		if i < 30 && 1<<uint(i) < len(a) {
			amt = 1 << uint(i)
		}
		switch {
		case left:
			sh = c.Shl(r, amt)
		case arith:
			sh = c.Ashr(r, amt)
		default:
			sh = c.Lshr(r, amt)
		}
		r = c.Mux(s[i], sh, r)
	}
	return r
}

// Mux is the per-bit multiplexer p ? a : b.
func (c *Ctx) Mux(p bdd.Node, a, b BV) BV {
	if p == bdd.True {
		return a
	}
	if p == bdd.False {
		return b
	}
	return c.bin(a, b, func(x, y bdd.Node) bdd.Node { return c.M.Ite(p, x, y) })
}

// AddC returns a+b+cin and the vector of carries out of every bit position
// (carry[i] is the carry out of bit i).
func (c *Ctx) AddC(a, b BV, cin bdd.Node) (sum BV, carry BV) {
	if len(a) != len(b) {
		panic(fmt.Sprintf("dom: width mismatch %d vs %d", len(a), len(b)))
	}
	m := c.M
	sum = make(BV, len(a))
	carry = make(BV, len(a))
	cy := cin
	for i := range a {
		x := m.Xor(a[i], b[i])
		sum[i] = m.Xor(x, cy)
		cy = m.Or(m.And(a[i], b[i]), m.And(x, cy))
		carry[i] = cy
	}
	return
}

func (c *Ctx) Add(a, b BV) BV { s, _ := c.AddC(a, b, bdd.False); return s }
func (c *Ctx) Sub(a, b BV) BV { s, _ := c.AddC(a, c.Not(b), bdd.True); return s }
func (c *Ctx) Neg(a BV) BV    { return c.Sub(c.Const(len(a), 0), a) }
func (c *Ctx) AddK(a BV, k int64) BV {
	return c.Add(a, c.Const(len(a), uint64(k)))
}

// Mul is shift-and-add; exact, intended for small or constant operands.
func (c *Ctx) Mul(a, b BV) BV {
	r := c.Const(len(a), 0)
	for i := range b {
		if b[i] == bdd.False {
			continue
		}
		r = c.Add(r, c.Mux(b[i], c.Shl(a, i), c.Const(len(a), 0)))
	}
	return r
}

// Zext / Sext / Trunc change width.
func (c *Ctx) Zext(a BV, w int) BV {
	r := make(BV, w)
	copy(r, a)
	return r
}
func (c *Ctx) Sext(a BV, w int) BV {
	r := make(BV, w)
	copy(r, a)
	for i := len(a); i < w; i++ {
		r[i] = a[len(a)-1]
	}
	return r
}
func (c *Ctx) Trunc(a BV, w int) BV {
	r := make(BV, w)
	copy(r, a[:w])
	return r
}

// Resize converts between integer widths with Go conversion semantics.
func (c *Ctx) Resize(a BV, w int, signed bool) BV {
	switch {
	case w == len(a):
		return a
	case w < len(a):
		return c.Trunc(a, w)
	case signed:
		return c.Sext(a, w)
	default:
		return c.Zext(a, w)
	}
}

// Concat returns hi:lo.
func (c *Ctx) Concat(hi, lo BV) BV {
	r := make(BV, 0, len(hi)+len(lo))
	r = append(r, lo...)
	r = append(r, hi...)
	return r
}

// Slice returns bits [lo, hi) as a new vector.
func (v BV) Slice(lo, hi int) BV {
	r := make(BV, hi-lo)
	copy(r, v[lo:hi])
	return r
}

func (c *Ctx) IsZero(a BV) bdd.Node {
	r := bdd.True
	for i := len(a) - 1; i >= 0; i-- {
		r = c.M.And(r, c.M.Not(a[i]))
	}
	return r
}

func (c *Ctx) Eq(a, b BV) bdd.Node {
	if len(a) != len(b) {
		panic(fmt.Sprintf("dom: width mismatch %d vs %d", len(a), len(b)))
	}
	r := bdd.True
	for i := len(a) - 1; i >= 0; i-- {
		r = c.M.And(r, c.M.Eqv(a[i], b[i]))
	}
	return r
}

// Ult is unsigned a < b.
func (c *Ctx) Ult(a, b BV) bdd.Node {
	if len(a) != len(b) {
		panic("dom: width mismatch")
	}
	m := c.M
	lt := bdd.False
	for i := 0; i < len(a); i++ {
		// from LSB up: lt = (¬a&b) | (a≡b)&lt
		lt = m.Ite(m.Xor(a[i], b[i]), b[i], lt)
	}
	return lt
}

// Slt is signed a < b.
func (c *Ctx) Slt(a, b BV) bdd.Node {
	n := len(a)
	fa := append(BV{}, a...)
	fb := append(BV{}, b...)
	fa[n-1] = c.M.Not(a[n-1])
	fb[n-1] = c.M.Not(b[n-1])
	return c.Ult(fa, fb)
}

func (c *Ctx) Lt(a, b BV, signed bool) bdd.Node {
	if signed {
		return c.Slt(a, b)
	}
	return c.Ult(a, b)
}

// PopCount returns the number of set bits as a vector of width w.
func (c *Ctx) PopCount(a BV, w int) BV {
	r := c.Const(w, 0)
	for _, b := range a {
		one := c.Const(w, 0)
		one[0] = b
		r = c.Add(r, one)
	}
	return r
}

// Parity is the XOR of all bits (true = odd number of ones).
func (c *Ctx) Parity(a BV) bdd.Node {
	r := bdd.False
	for _, b := range a {
		r = c.M.Xor(r, b)
	}
	return r
}

// QuoRemPow2 implements Go's truncated signed/unsigned division by 2^k.
func (c *Ctx) QuoRemPow2(a BV, k int, signed bool) (q, r BV) {
	w := len(a)
	mask := c.Const(w, (1<<uint(k))-1)
	if !signed {
		return c.Lshr(a, k), c.And(a, mask)
	}
	neg := a[w-1]
	abs := c.Mux(neg, c.Neg(a), a)
	qa, ra := c.Lshr(abs, k), c.And(abs, mask)
	return c.Mux(neg, c.Neg(qa), qa), c.Mux(neg, c.Neg(ra), ra)
}

// ---------------------------------------------------------------------------
// Witnesses and pretty printing

// Assignment is a concrete valuation of atom bits (BDD level -> value).
type Assignment map[int32]bool

// EvalBV evaluates v under a; unassigned bits are 0.
func (c *Ctx) EvalBV(v BV, a Assignment) uint64 {
	var x uint64
	for i, b := range v {
		if i < 64 && c.M.Eval(b, a) {
			x |= 1 << uint(i)
		}
	}
	return x
}

// Witness finds an assignment under which f holds.
func (c *Ctx) Witness(f bdd.Node) (Assignment, bool) {
	a, ok := c.M.AnySat(f)
	return Assignment(a), ok
}

// DescribeAssignment lists the atoms mentioned by a (or in the support of the
// given extra nodes) with their concrete values under a.
func (c *Ctx) DescribeAssignment(a Assignment, extra ...bdd.Node) []string {
	set := map[int32]bool{}
	for l := range a {
		set[l] = true
	}
	c.M.SupportOf(set, extra...)
	atoms := map[int]bool{}
	for l := range set {
		at, _ := c.AtomOfLevel(l)
		atoms[at.ID] = true
	}
	ids := make([]int, 0, len(atoms))
	for id := range atoms {
		ids = append(ids, id)
	}
	sort.Ints(ids)
	var out []string
	for _, id := range ids {
		at := c.atoms[id]
		var x uint64
		for i := 0; i < at.Width && i < 64; i++ {
			if a[c.level(at, i)] {
				x |= 1 << uint(i)
			}
		}
		out = append(out, fmt.Sprintf("%s=%#x", at.Name, x))
	}
	return out
}

// AtomsIn returns the names of the atoms in the support of the nodes.
func (c *Ctx) AtomsIn(fs ...bdd.Node) []string {
	set := map[int32]bool{}
	c.M.SupportOf(set, fs...)
	names := map[string]bool{}
	for l := range set {
		at, _ := c.AtomOfLevel(l)
		names[at.Name] = true
	}
	out := make([]string, 0, len(names))
	for n := range names {
		out = append(out, n)
	}
	sort.Strings(out)
	return out
}

// Describe renders v for humans: a constant, "atom", "atom+k", "(hi:lo)+k" or
// an opaque tag.  It is used only in names and reports, never for decisions.
func (c *Ctx) Describe(v BV) string {
	if k, ok := v.IsConst(); ok {
		return fmt.Sprintf("%#x", k)
	}
	set := map[int32]bool{}
	c.M.SupportOf(set, v...)
	ids := map[int]bool{}
	for l := range set {
		at, _ := c.AtomOfLevel(l)
		ids[at.ID] = true
	}
	var as []*Atom
	for id := range ids {
		as = append(as, c.atoms[id])
	}
	sort.Slice(as, func(i, j int) bool { return as[i].ID < as[j].ID })
	off := func(base BV, name string) (string, bool) {
		if len(base) != len(v) {
			return "", false
		}
		// the offset is read off at one point and confirmed by building base+k
		// (small) - never by subtracting two large functions
		var mask uint64 = 1<<uint(len(v)) - 1
		if len(v) >= 64 {
			mask = ^uint64(0)
		}
		k := (c.EvalBV(v, nil) - c.EvalBV(base, nil)) & mask
		if !v.Equal(c.AddK(base, int64(k))) {
			return "", false
		}
		if k == 0 {
			return name, true
		}
		if k>>(uint(len(v))-1)&1 == 1 {
			return fmt.Sprintf("%s-%d", name, (mask+1)-k), true
		}
		return fmt.Sprintf("%s+%d", name, k), true
	}
	if len(as) == 1 {
		a := c.Atom(as[0].Name, as[0].Width)
		if s, ok := off(a, as[0].Name); ok {
			return s
		}
		if len(a) < len(v) {
			if s, ok := off(c.Zext(a, len(v)), as[0].Name); ok {
				return s
			}
		}
	}
	if len(as) == 2 && as[0].Width+as[1].Width == len(v) {
		a0, a1 := c.Atom(as[0].Name, as[0].Width), c.Atom(as[1].Name, as[1].Width)
		if s, ok := off(c.Concat(a0, a1), "("+as[0].Name+":"+as[1].Name+")"); ok {
			return s
		}
		if s, ok := off(c.Concat(a1, a0), "("+as[1].Name+":"+as[0].Name+")"); ok {
			return s
		}
	}
	// base + sign-extended 8-bit displacement
	if len(v) == 16 {
		for _, b := range as {
			if b.Width != 16 {
				continue
			}
			for _, d := range as {
				if d.Width != 8 || d == b {
					continue
				}
				if s, ok := off(c.Add(c.Atom(b.Name, 16), c.Sext(c.Atom(d.Name, 8), 16)), b.Name+"+sext("+d.Name+")"); ok {
					return s
				}
			}
		}
	}
	var names []string
	for _, a := range as {
		names = append(names, a.Name)
	}
	return "f(" + strings.Join(names, ",") + ")"
}

// Subst replaces, in f, every bit of the named atoms by the corresponding bit
// of the given vectors: simultaneous substitution (vector compose), so that a
// replacement may itself mention substituted atoms.  Used only on small
// control predicates.
func (c *Ctx) Subst(f bdd.Node, repl map[string]BV) bdd.Node {
	by := map[int32]bdd.Node{}
	for name, v := range repl {
		a, ok := c.byName[name]
		if !ok {
			continue
		}
		for i := 0; i < a.Width && i < len(v); i++ {
			by[c.level(a, i)] = v[i]
		}
	}
	if len(by) == 0 {
		return f
	}
	memo := map[bdd.Node]bdd.Node{}
	var rec func(n bdd.Node) bdd.Node
	rec = func(n bdd.Node) bdd.Node {
		if n <= bdd.True {
			return n
		}
		if r, ok := memo[n]; ok {
			return r
		}
		l := c.M.Level(n)
		g, ok := by[l]
		if !ok {
			g = c.M.Var(l, c.M.VarName(l))
		}
		r := c.M.Ite(g, rec(c.M.Hi(n)), rec(c.M.Lo(n)))
		memo[n] = r
		return r
	}
	return rec(f)
}
