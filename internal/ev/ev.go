// Package ev holds obligations, reports, the known-findings matcher and the
// evidence / violation writers shared by all checks.
package ev

import (
	"bufio"
	"encoding/json"
	"fmt"
	"os"
	"path/filepath"
	"sort"
	"strconv"
	"strings"
	"time"
)

const (
	Holds     = "holds"
	Violated  = "violated"
	Undecided = "undecided"
)

// Obligation is one rule instance on one construct, keyed by rule+construct
// (never by line).
type Obligation struct {
	Key    string   `json:"key"`
	Rule   string   `json:"rule"`
	Status string   `json:"status"`
	Pos    string   `json:"pos,omitempty"`
	By     string   `json:"discharged_by,omitempty"`
	Detail []string `json:"detail,omitempty"`
}

// Floor is an instance-count floor: a run that finds fewer instances than
// were confirmed by hand fails (a rule matching nothing passes vacuously).
type Floor struct {
	Name     string `json:"name"`
	Measured int    `json:"measured"`
	Min      int    `json:"min"`
}

type Control struct {
	ID      string `json:"id"`
	Expect  string `json:"expect"`
	Outcome string `json:"outcome"` // fired | silent | skipped | error
	OK      bool   `json:"ok"`
	Note    string `json:"note,omitempty"`
}

// Report is what a property check produces.
type Report struct {
	Property    string
	Tier        string
	Level       string
	Obls        []Obligation
	Floors      []Floor
	Analysed    map[string]interface{}
	Rules       []string
	Assumptions []string
	Trusted     []string
	Explanation string
	Samples     []interface{}
	Controls    []Control
	Extra       map[string]interface{}
	Start       time.Time
	// Quiet suppresses evidence writing (used when running mutants).
	NoEvidence bool
	// Fatal is set when the analysis could not run at all (load failure,
	// unresolved anchor, analyzer panic): the check fails.
	Fatal string
}

func New(prop, tier, level string) *Report {
	return &Report{Property: prop, Tier: tier, Level: level, Analysed: map[string]interface{}{}, Extra: map[string]interface{}{}, Start: time.Now()}
}

func (r *Report) Add(o Obligation) { r.Obls = append(r.Obls, o) }

func (r *Report) Hold(key, rule, pos, by string, detail ...string) {
	r.Add(Obligation{Key: key, Rule: rule, Status: Holds, Pos: pos, By: by, Detail: detail})
}
func (r *Report) Violate(key, rule, pos string, detail ...string) {
	r.Add(Obligation{Key: key, Rule: rule, Status: Violated, Pos: pos, Detail: detail})
}
func (r *Report) Undecide(key, rule, pos string, detail ...string) {
	r.Add(Obligation{Key: key, Rule: rule, Status: Undecided, Pos: pos, Detail: detail})
}
func (r *Report) Check(ok bool, key, rule, pos, by string, detail ...string) {
	if ok {
		r.Hold(key, rule, pos, by)
	} else {
		r.Violate(key, rule, pos, detail...)
	}
}
func (r *Report) AddFloor(name string, measured, min int) {
	r.Floors = append(r.Floors, Floor{name, measured, min})
}

// Dir is the /verif directory (cwd of the registered commands).
func Dir() string {
	if d := os.Getenv("VERIF_DIR"); d != "" {
		return d
	}
	if wd, err := os.Getwd(); err == nil {
		if _, err := os.Stat(filepath.Join(wd, "properties.jsonl")); err == nil {
			return wd
		}
	}
	return "/verif"
}

// Finding is one line of known_findings.txt.
type Finding struct {
	Kind     string // finding | fixed
	Property string
	Key      string
	Text     string
}

// ReadFindings parses known_findings.txt (never written at run time).
func ReadFindings() []Finding {
	f, err := os.Open(filepath.Join(Dir(), "known_findings.txt"))
	if err != nil {
		return nil
	}
	defer f.Close()
	var out []Finding
	sc := bufio.NewScanner(f)
	for sc.Scan() {
		line := strings.TrimSpace(sc.Text())
		if line == "" || strings.HasPrefix(line, "#") {
			continue
		}
		var fd Finding
		switch {
		case strings.HasPrefix(line, "finding:"):
			fd.Kind = "finding"
			line = strings.TrimSpace(strings.TrimPrefix(line, "finding:"))
		case strings.HasPrefix(line, "fixed:"):
			fd.Kind = "fixed"
			line = strings.TrimSpace(strings.TrimPrefix(line, "fixed:"))
		default:
			continue
		}
		head, text, _ := strings.Cut(line, " ; ")
		fd.Text = strings.TrimSpace(text)
		for _, tok := range strings.Fields(head) {
			if v, ok := strings.CutPrefix(tok, "property="); ok {
				fd.Property = v
			}
		}
		if i := strings.Index(head, "key="); i >= 0 {
			fd.Key = strings.TrimSpace(head[i+4:])
		}
		out = append(out, fd)
	}
	return out
}

// Finish prints the verdict lines, writes evidence and violation files and
// returns the process exit code.
func (r *Report) Finish() int {
	dir := Dir()
	known := map[string]Finding{}
	for _, f := range ReadFindings() {
		if f.Kind == "finding" && f.Property == r.Property {
			known[f.Key] = f
		}
	}
	for _, fl := range r.Floors {
		if fl.Measured < fl.Min {
			r.Violate(r.Property+"/floor/"+fl.Name, "instance-floor", "", fmt.Sprintf("only %d instances of %s were found; at least %d were confirmed by hand on the pinned tree (a rule that matches fewer passes vacuously)", fl.Measured, fl.Name, fl.Min))
		} else {
			r.Hold(r.Property+"/floor/"+fl.Name, "instance-floor", "", "count")
		}
	}
	sort.SliceStable(r.Obls, func(i, j int) bool { return r.Obls[i].Key < r.Obls[j].Key })
	var nHold, nViol, nUnd, nKnown int
	var fails []Obligation
	var knownLines []string
	for _, o := range r.Obls {
		switch o.Status {
		case Holds:
			nHold++
		case Violated:
			if f, ok := known[o.Key]; ok {
				nKnown++
				knownLines = append(knownLines, fmt.Sprintf("KNOWN-FINDING: property=%s key=%s %s", r.Property, o.Key, f.Text))
				continue
			}
			nViol++
			fails = append(fails, o)
		case Undecided:
			nUnd++
			fails = append(fails, o)
		}
	}
	if r.Fatal != "" {
		fails = append(fails, Obligation{Key: r.Property + "/analysis", Rule: "analysis-ran", Status: Undecided, Detail: []string{r.Fatal}})
		nUnd++
	}
	if len(r.Obls) == 0 && r.Fatal == "" {
		fails = append(fails, Obligation{Key: r.Property + "/analysis", Rule: "analysis-ran", Status: Undecided, Detail: []string{"the check produced no obligations"}})
		nUnd++
	}
	for _, l := range knownLines {
		fmt.Println(l)
	}
	exit := 0
	vdir := filepath.Join(dir, "evidence", "violations")
	if !r.NoEvidence {
		os.MkdirAll(vdir, 0o755)
		// remove stale violation files of this property
		if old, _ := filepath.Glob(filepath.Join(vdir, r.Property+"-*.json")); old != nil {
			for _, f := range old {
				os.Remove(f)
			}
		}
	}
	for i, o := range fails {
		exit = 1
		path := filepath.Join(vdir, fmt.Sprintf("%s-%d.json", r.Property, i+1))
		kind := "VIOLATED"
		if o.Status == Undecided {
			kind = "UNDECIDED"
		}
		if !r.NoEvidence {
			b, _ := json.MarshalIndent(map[string]interface{}{
				"property": r.Property, "kind": kind, "key": o.Key, "rule": o.Rule, "pos": o.Pos, "detail": o.Detail,
			}, "", " ")
			os.WriteFile(path, b, 0o644)
		}
		fmt.Printf("VIOLATION property=%s replay=%s\n", r.Property, path)
		fmt.Printf("  kind=%s key=%s rule=%s at %s\n", kind, o.Key, o.Rule, o.Pos)
		for j, d := range o.Detail {
			if j >= 12 {
				fmt.Printf("    ... (%d more lines in the replay file)\n", len(o.Detail)-j)
				break
			}
			fmt.Printf("    %s\n", d)
		}
	}
	wall := time.Since(r.Start).Seconds()
	total := len(r.Obls)
	fmt.Printf("%s property=%s tier=%s obligations=%d discharged=%d known_findings=%d violated=%d undecided=%d wall=%.1fs\n",
		map[bool]string{true: "PASS", false: "FAIL"}[exit == 0], r.Property, r.Tier, total, nHold, nKnown, nViol, nUnd, wall)
	if r.NoEvidence {
		return exit
	}
	// evidence
	seed := 0
	if s := os.Getenv("VERIF_SEED"); s != "" {
		seed, _ = strconv.Atoi(s)
	}
	byRule := map[string]int{}
	byHow := map[string]int{}
	for _, o := range r.Obls {
		byRule[o.Rule]++
		if o.Status == Holds && o.By != "" {
			byHow[o.By]++
		}
	}
	samples := r.Samples
	if len(samples) == 0 {
		step := len(r.Obls)/6 + 1
		for i := 0; i < len(r.Obls); i += step {
			samples = append(samples, r.Obls[i])
		}
	}
	cov := map[string]interface{}{
		"obligations":         total,
		"discharged":          nHold,
		"known_findings":      nKnown,
		"violated":            nViol,
		"undecided":           nUnd,
		"checker_cmd":         strings.Join(os.Args, " "),
		"trusted_base":        r.Trusted,
		"explanation":         r.Explanation,
		"samples":             samples,
		"exhaustive":          true,
		"rules":               r.Rules,
		"obligations_by_rule": byRule,
		"discharged_by":       byHow,
		"analysed":            r.Analysed,
		"instance_floors":     r.Floors,
		"evaluations":         total,
		"distinct_nontrivial": total,
		"rule":                "one obligation per rule instance and construct (see obligations_by_rule); distinct by key",
	}
	if len(r.Controls) > 0 {
		fired, applied := 0, 0
		for _, c := range r.Controls {
			if c.Outcome != "skipped" {
				applied++
			}
			if c.OK {
				fired++
			}
		}
		cov["controls"] = r.Controls
		cov["controls_applied"] = applied
		cov["controls_as_expected"] = fired
	}
	for k, v := range r.Extra {
		cov[k] = v
	}
	evd := map[string]interface{}{
		"property_id": r.Property,
		"tier":        r.Tier,
		"seed":        seed,
		"level":       r.Level,
		"coverage":    cov,
		"assumptions": r.Assumptions,
		"wall_s":      wall,
		"violations":  nViol + nUnd,
	}
	b, _ := json.MarshalIndent(evd, "", " ")
	os.MkdirAll(filepath.Join(dir, "evidence"), 0o755)
	if err := os.WriteFile(filepath.Join(dir, "evidence", r.Property+".json"), b, 0o644); err != nil {
		fmt.Println("cannot write evidence:", err)
		return 2
	}
	return exit
}
