package load

import (
	"encoding/json"
	"fmt"
	"os"
	"path/filepath"
	"strings"
)

// Mutant is a source edit applied in memory (packages.Config.Overlay) to test
// the checkers: positive controls must make a check fire, negative controls
// (behaviour-preserving edits) must leave it silent.
type Mutant struct {
	ID         string   `json:"id"`
	Properties []string `json:"properties"`
	File       string   `json:"file"` // relative to the repository root
	Old        string   `json:"old"`
	New        string   `json:"new"`
	Occurrence int      `json:"occurrence,omitempty"` // 1-based; 0 = first
	Expect     string   `json:"expect"`               // "fire" or "silent"
	Note       string   `json:"note,omitempty"`
	// Edits allows several edits in one mutant (cooperating sites).
	Edits []Edit `json:"edits,omitempty"`
}

type Edit struct {
	File       string `json:"file"`
	Old        string `json:"old"`
	New        string `json:"new"`
	Occurrence int    `json:"occurrence,omitempty"`
}

func ReadMutants(path string) ([]Mutant, error) {
	b, err := os.ReadFile(path)
	if err != nil {
		return nil, err
	}
	var ms []Mutant
	if err := json.Unmarshal(b, &ms); err != nil {
		var one Mutant
		if err2 := json.Unmarshal(b, &one); err2 != nil {
			return nil, err
		}
		ms = []Mutant{one}
	}
	return ms, nil
}

// Overlay computes the overlay for a mutant; ok is false when an anchor text
// no longer exists in the tree (the control is then skipped, never failed).
func (m Mutant) Overlay(dir string) (map[string][]byte, bool, error) {
	edits := m.Edits
	if m.File != "" {
		edits = append([]Edit{{m.File, m.Old, m.New, m.Occurrence}}, edits...)
	}
	out := map[string][]byte{}
	for _, e := range edits {
		abs := filepath.Join(dir, e.File)
		var src string
		if b, ok := out[abs]; ok {
			src = string(b)
		} else {
			b, err := os.ReadFile(abs)
			if err != nil {
				if os.IsNotExist(err) && e.Old == "" {
					out[abs] = []byte(e.New) // new file
					continue
				}
				return nil, false, nil
			}
			src = string(b)
		}
		if e.Old == "" {
			out[abs] = []byte(src + "\n" + e.New)
			continue
		}
		occ := e.Occurrence
		if occ <= 0 {
			occ = 1
		}
		idx, from := -1, 0
		for i := 0; i < occ; i++ {
			j := strings.Index(src[from:], e.Old)
			if j < 0 {
				return nil, false, nil
			}
			idx = from + j
			from = idx + len(e.Old)
		}
		out[abs] = []byte(src[:idx] + e.New + src[idx+len(e.Old):])
	}
	if len(out) == 0 {
		return nil, false, fmt.Errorf("mutant %s has no edits", m.ID)
	}
	return out, true, nil
}
