// Package load type-checks /repo's current working tree from source and
// builds its go/ssa form.  Nothing from the repository is executed.
package load

import (
	"fmt"
	"go/token"
	"go/types"
	"os"
	"path/filepath"
	"sort"
	"strings"

	"golang.org/x/tools/go/packages"
	"golang.org/x/tools/go/ssa"
	"golang.org/x/tools/go/ssa/ssautil"
)

// ModulePath is the module the properties are about (an API anchor).
const ModulePath = "github.com/koron-go/z80"

type Config struct {
	Dir     string            // repository root (default /repo or $VERIF_REPO)
	Overlay map[string][]byte // absolute file name -> replacement contents
	Tests   bool              // also load test variants
	GOARCH  string            // "" = host
	GOOS    string
}

type Program struct {
	Dir     string
	Fset    *token.FileSet
	Pkgs    []*packages.Package
	Prog    *ssa.Program
	Sizes   types.Sizes
	byPath  map[string]*packages.Package
	GoFiles int
}

func RepoDir() string {
	if d := os.Getenv("VERIF_REPO"); d != "" {
		return d
	}
	return "/repo"
}

func Load(cfg Config) (*Program, error) {
	dir := cfg.Dir
	if dir == "" {
		dir = RepoDir()
	}
	env := []string{}
	for _, kv := range os.Environ() {
		if strings.HasPrefix(kv, "GOWORK=") || strings.HasPrefix(kv, "GOFLAGS=") ||
			strings.HasPrefix(kv, "GOARCH=") || strings.HasPrefix(kv, "GOOS=") {
			continue
		}
		env = append(env, kv)
	}
	env = append(env, "GOFLAGS=-mod=mod", "GOPROXY=off", "GOSUMDB=off", "GOTOOLCHAIN=local", "GOWORK=off", "CGO_ENABLED=0")
	if cfg.GOARCH != "" {
		env = append(env, "GOARCH="+cfg.GOARCH)
	}
	if cfg.GOOS != "" {
		env = append(env, "GOOS="+cfg.GOOS)
	}
	fset := token.NewFileSet()
	pc := &packages.Config{
		Mode:    packages.LoadAllSyntax,
		Dir:     dir,
		Fset:    fset,
		Env:     env,
		Tests:   cfg.Tests,
		Overlay: cfg.Overlay,
	}
	pkgs, err := packages.Load(pc, "./...")
	if err != nil {
		return nil, fmt.Errorf("load: %v", err)
	}
	if len(pkgs) == 0 {
		return nil, fmt.Errorf("load: no packages found under %s", dir)
	}
	var errs []string
	nfiles := 0
	packages.Visit(pkgs, nil, func(p *packages.Package) {
		for _, e := range p.Errors {
			errs = append(errs, e.Error())
		}
		if strings.HasPrefix(p.PkgPath, ModulePath) {
			nfiles += len(p.GoFiles)
			if len(p.IgnoredFiles) > 0 {
				for _, f := range p.IgnoredFiles {
					if strings.HasSuffix(f, ".go") {
						errs = append(errs, "file excluded by build constraints (not analysed): "+f)
					}
				}
			}
		}
	})
	if len(errs) > 0 {
		sort.Strings(errs)
		return nil, fmt.Errorf("load: the tree does not type-check or is not fully covered:\n  %s", strings.Join(errs, "\n  "))
	}
	prog, _ := ssautil.AllPackages(pkgs, ssa.InstantiateGenerics)
	prog.Build()
	p := &Program{Dir: dir, Fset: fset, Pkgs: pkgs, Prog: prog, byPath: map[string]*packages.Package{}, GoFiles: nfiles}
	for _, pk := range pkgs {
		if pk.TypesSizes != nil && p.Sizes == nil {
			p.Sizes = pk.TypesSizes
		}
		// prefer the non-test variant under its plain path
		if old, ok := p.byPath[pk.PkgPath]; !ok || len(old.GoFiles) > len(pk.GoFiles) && !cfg.Tests {
			p.byPath[pk.PkgPath] = pk
		}
	}
	if p.Sizes == nil {
		return nil, fmt.Errorf("load: no type sizes")
	}
	if p.Pkg(ModulePath) == nil {
		return nil, fmt.Errorf("load: package %s not found under %s", ModulePath, dir)
	}
	return p, nil
}

// Pkg returns the loaded package with the import path, or nil.
func (p *Program) Pkg(path string) *packages.Package {
	if pk, ok := p.byPath[path]; ok {
		return pk
	}
	return nil
}

// SSAPkg returns the ssa package for an import path, or nil.
func (p *Program) SSAPkg(path string) *ssa.Package {
	pk := p.Pkg(path)
	if pk == nil {
		return nil
	}
	return p.Prog.Package(pk.Types)
}

// InModule reports whether fn is defined in the repository's module.
func InModule(fn *ssa.Function) bool {
	if fn == nil {
		return false
	}
	pkg := fn.Pkg
	if pkg == nil && fn.Origin() != nil {
		pkg = fn.Origin().Pkg
	}
	if pkg == nil && fn.Parent() != nil {
		return InModule(fn.Parent())
	}
	if pkg == nil {
		// synthetic wrappers (method-expression thunks, bound methods) of module methods
		return fn.Synthetic != "" && (strings.Contains(fn.String(), ModulePath+".") || strings.Contains(fn.String(), ModulePath+"/"))
	}
	return pkg.Pkg.Path() == ModulePath || strings.HasPrefix(pkg.Pkg.Path(), ModulePath+"/")
}

// Pos renders a position relative to the repository root.
func (p *Program) Pos(pos token.Pos) string {
	if !pos.IsValid() {
		return "-"
	}
	ps := p.Fset.Position(pos)
	rel, err := filepath.Rel(p.Dir, ps.Filename)
	if err != nil {
		rel = ps.Filename
	}
	return fmt.Sprintf("%s:%d", rel, ps.Line)
}

// Method looks up a method of a named type of package z80 by name and
// returns its ssa function (pointer receiver methods included).
func (p *Program) Method(pkgPath, typeName, method string) *ssa.Function {
	pk := p.Pkg(pkgPath)
	if pk == nil {
		return nil
	}
	obj := pk.Types.Scope().Lookup(typeName)
	if obj == nil {
		return nil
	}
	for _, t := range []types.Type{obj.Type(), types.NewPointer(obj.Type())} {
		ms := types.NewMethodSet(t)
		for i := 0; i < ms.Len(); i++ {
			sel := ms.At(i)
			if sel.Obj().Name() == method {
				if f, ok := sel.Obj().(*types.Func); ok {
					// only methods declared on the type itself (not promoted)
					if fn := p.Prog.FuncValue(f); fn != nil {
						return fn
					}
				}
			}
		}
	}
	return nil
}

// Func looks up a package-level function.
func (p *Program) Func(pkgPath, name string) *ssa.Function {
	sp := p.SSAPkg(pkgPath)
	if sp == nil {
		return nil
	}
	return sp.Func(name)
}
