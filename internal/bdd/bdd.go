// Package bdd is a small reduced ordered binary decision diagram package.
//
// It is the canonical representation of the "Bit" of DESIGN.md section 2.1: a
// boolean function of atom bits.  Two Nodes of one Manager are equal (==) iff
// they denote the same boolean function, whatever expression built them; this
// is what makes summary comparison a hash/pointer comparison and not a search.
// Variable levels are chosen by the caller and may be created at any time; the
// order of two variables is the numeric order of their levels.
package bdd

import (
	"fmt"
	"sort"
)

// Node is an index into the manager's node table. 0 is False and 1 is True.
type Node int32

const (
	False Node = 0
	True  Node = 1
)

const termLevel = int32(1<<31 - 1)

type node struct {
	level  int32
	lo, hi Node
}

type cacheEntry struct {
	f, g, h Node
	r       Node
	ok      bool
}

// Manager owns the unique table.
type Manager struct {
	nodes  []node
	unique map[node]Node
	cache  []cacheEntry
	ccache map[[2]Node]Node
	names  map[int32]string
	// Limit bounds the node table; exceeding it panics with *Budget.
	Limit int
}

// Budget is the panic payload when the node table outgrows Limit.
type Budget struct{ Nodes int }

func (b *Budget) Error() string {
	return fmt.Sprintf("value-domain budget exceeded (%d BDD nodes)", b.Nodes)
}

const cacheBits = 16

// New creates an empty manager.
func New() *Manager {
	m := &Manager{
		unique: make(map[node]Node, 1<<16),
		cache:  make([]cacheEntry, 1<<cacheBits),
		ccache: make(map[[2]Node]Node),
		names:  make(map[int32]string),
		Limit:  4 << 20,
	}
	m.nodes = append(m.nodes, node{termLevel, 0, 0}, node{termLevel, 1, 1})
	return m
}

// Size is the number of nodes ever created.
func (m *Manager) Size() int { return len(m.nodes) }

func (m *Manager) mk(level int32, lo, hi Node) Node {
	if lo == hi {
		return lo
	}
	k := node{level, lo, hi}
	if n, ok := m.unique[k]; ok {
		return n
	}
	if m.Limit > 0 && len(m.nodes) > m.Limit {
		panic(&Budget{len(m.nodes)})
	}
	n := Node(len(m.nodes))
	m.nodes = append(m.nodes, k)
	m.unique[k] = n
	return n
}

// Var returns the function "variable at level is true".
func (m *Manager) Var(level int32, name string) Node {
	if _, ok := m.names[level]; !ok {
		m.names[level] = name
	}
	return m.mk(level, False, True)
}

// VarName is the name given to the level at its creation.
func (m *Manager) VarName(level int32) string { return m.names[level] }

// Level of the top variable of f (a large number for terminals).
func (m *Manager) Level(f Node) int32 { return m.nodes[f].level }

// Lo and Hi cofactors with respect to the top variable.
func (m *Manager) Lo(f Node) Node { return m.nodes[f].lo }
func (m *Manager) Hi(f Node) Node { return m.nodes[f].hi }

func (m *Manager) cof(f Node, level int32) (lo, hi Node) {
	n := &m.nodes[f]
	if n.level == level {
		return n.lo, n.hi
	}
	return f, f
}

// Ite is if-then-else, the universal connective.
func (m *Manager) Ite(f, g, h Node) Node {
	// terminal cases
	if f == True {
		return g
	}
	if f == False {
		return h
	}
	if g == h {
		return g
	}
	if g == True && h == False {
		return f
	}
	if g == f {
		g = True
	}
	if h == f {
		h = False
	}
	idx := (uint32(f)*0x9e3779b1 ^ uint32(g)*0x85ebca6b ^ uint32(h)*0xc2b2ae35) >> (32 - cacheBits)
	ce := &m.cache[idx]
	if ce.ok && ce.f == f && ce.g == g && ce.h == h {
		return ce.r
	}
	top := m.nodes[f].level
	if l := m.nodes[g].level; l < top {
		top = l
	}
	if l := m.nodes[h].level; l < top {
		top = l
	}
	f0, f1 := m.cof(f, top)
	g0, g1 := m.cof(g, top)
	h0, h1 := m.cof(h, top)
	lo := m.Ite(f0, g0, h0)
	hi := m.Ite(f1, g1, h1)
	r := m.mk(top, lo, hi)
	ce = &m.cache[idx]
	*ce = cacheEntry{f, g, h, r, true}
	return r
}

func (m *Manager) Not(f Node) Node    { return m.Ite(f, False, True) }
func (m *Manager) And(f, g Node) Node { return m.Ite(f, g, False) }
func (m *Manager) Or(f, g Node) Node  { return m.Ite(f, True, g) }
func (m *Manager) Xor(f, g Node) Node { return m.Ite(f, m.Not(g), g) }
func (m *Manager) Imp(f, g Node) Node { return m.Ite(f, g, True) }
func (m *Manager) Eqv(f, g Node) Node { return m.Ite(f, g, m.Not(g)) }

// Disjoint reports f AND g == False.
func (m *Manager) Disjoint(f, g Node) bool { return m.And(f, g) == False }

// Constrain is the Coudert-Madre generalised cofactor of f with respect to the
// care set c.  It agrees with f on c, and depends only on the restriction of f
// to c: if f1&c == f2&c then Constrain(f1,c) == Constrain(f2,c).  If the
// supports of f and c are disjoint the result is f.
func (m *Manager) Constrain(f, c Node) Node {
	if c == True || f == True || f == False {
		return f
	}
	if c == False {
		return False
	}
	if f == c {
		return True
	}
	k := [2]Node{f, c}
	if r, ok := m.ccache[k]; ok {
		return r
	}
	top := m.nodes[f].level
	if l := m.nodes[c].level; l < top {
		top = l
	}
	f0, f1 := m.cof(f, top)
	c0, c1 := m.cof(c, top)
	var r Node
	switch {
	case c0 == False:
		r = m.Constrain(f1, c1)
	case c1 == False:
		r = m.Constrain(f0, c0)
	default:
		r = m.mk(top, m.Constrain(f0, c0), m.Constrain(f1, c1))
	}
	m.ccache[k] = r
	return r
}

// Support returns the sorted levels f depends on.
func (m *Manager) Support(f Node) []int32 {
	seen := map[Node]bool{}
	lv := map[int32]bool{}
	var walk func(Node)
	walk = func(n Node) {
		if n <= True || seen[n] {
			return
		}
		seen[n] = true
		nd := m.nodes[n]
		lv[nd.level] = true
		walk(nd.lo)
		walk(nd.hi)
	}
	walk(f)
	out := make([]int32, 0, len(lv))
	for l := range lv {
		out = append(out, l)
	}
	sort.Slice(out, func(i, j int) bool { return out[i] < out[j] })
	return out
}

// SupportOf adds the support of every node in fs to the set.
func (m *Manager) SupportOf(set map[int32]bool, fs ...Node) {
	seen := map[Node]bool{}
	var walk func(Node)
	walk = func(n Node) {
		if n <= True || seen[n] {
			return
		}
		seen[n] = true
		nd := m.nodes[n]
		set[nd.level] = true
		walk(nd.lo)
		walk(nd.hi)
	}
	for _, f := range fs {
		walk(f)
	}
}

// AnySat returns one assignment (level -> value) satisfying f; ok is false iff
// f is False.  Levels not mentioned may take any value.  It is a single walk
// down the diagram, not a search.
func (m *Manager) AnySat(f Node) (map[int32]bool, bool) {
	if f == False {
		return nil, false
	}
	a := map[int32]bool{}
	for f != True {
		nd := m.nodes[f]
		if nd.lo != False {
			a[nd.level] = false
			f = nd.lo
		} else {
			a[nd.level] = true
			f = nd.hi
		}
	}
	return a, true
}

// Eval evaluates f under an assignment; missing levels are false.
func (m *Manager) Eval(f Node, a map[int32]bool) bool {
	for f > True {
		nd := m.nodes[f]
		if a[nd.level] {
			f = nd.hi
		} else {
			f = nd.lo
		}
	}
	return f == True
}

// Rename substitutes variables: every variable at level l with an entry in
// ren is replaced by the variable at level ren[l] (simultaneously).  The new
// levels must already exist (have been passed to Var).
func (m *Manager) Rename(f Node, ren map[int32]int32) Node {
	memo := map[Node]Node{}
	var rec func(Node) Node
	rec = func(n Node) Node {
		if n <= True {
			return n
		}
		if r, ok := memo[n]; ok {
			return r
		}
		nd := m.nodes[n]
		lo, hi := rec(nd.lo), rec(nd.hi)
		l := nd.level
		if nl, ok := ren[l]; ok {
			l = nl
		}
		r := m.Ite(m.mk(l, False, True), hi, lo)
		memo[n] = r
		return r
	}
	return rec(f)
}

// Restrict fixes the variable at level to a value.
func (m *Manager) Restrict(f Node, level int32, val bool) Node {
	memo := map[Node]Node{}
	var rec func(Node) Node
	rec = func(n Node) Node {
		if n <= True {
			return n
		}
		nd := m.nodes[n]
		if nd.level > level {
			return n
		}
		if r, ok := memo[n]; ok {
			return r
		}
		var r Node
		if nd.level == level {
			if val {
				r = nd.hi
			} else {
				r = nd.lo
			}
		} else {
			r = m.mk(nd.level, rec(nd.lo), rec(nd.hi))
		}
		memo[n] = r
		return r
	}
	return rec(f)
}

// NodeCount is the number of distinct internal nodes reachable from fs.
func (m *Manager) NodeCount(fs ...Node) int {
	seen := map[Node]bool{}
	var walk func(Node)
	walk = func(n Node) {
		if n <= True || seen[n] {
			return
		}
		seen[n] = true
		walk(m.nodes[n].lo)
		walk(m.nodes[n].hi)
	}
	for _, f := range fs {
		walk(f)
	}
	return len(seen)
}

func (m *Manager) String(f Node) string {
	switch f {
	case False:
		return "0"
	case True:
		return "1"
	}
	return fmt.Sprintf("n%d", int(f))
}
